"""BOUNDED stand-ins (never counted as proved) for small pure helpers that are not under a deductive contract.
Run with /venv/bin/python:   pure_enum.py <property> <tier> <seed> [repo]   -> JSON on stdout

C01  zip.pack_literals: every arrangement of streams (S) and literals (L) in the argument list of zip up to a total length
     (quick 6, thorough 8), checked against the list-level meaning: the literal sits at its argument position, the stream
     values fill the remaining positions in order."""
import itertools
import json
import sys


def check_pack_literals(maxlen):
    from streamz import Stream
    cases, failures, samples = 0, [], []
    for total in range(1, maxlen + 1):
        for layout in itertools.product('SL', repeat=total):
            if 'S' not in layout:
                continue
            cases += 1
            streams = [Stream() for c in layout if c == 'S']
            args, k = [], 0
            for pos, c in enumerate(layout):
                if c == 'S':
                    args.append(streams[k])
                    k += 1
                else:
                    args.append('lit%d' % pos)
            z = Stream.zip(*args)
            tup = tuple('s%d' % j for j in range(len(streams)))
            want, k = [], 0
            for pos, c in enumerate(layout):
                if c == 'S':
                    want.append(tup[k])
                    k += 1
                else:
                    want.append('lit%d' % pos)
            try:
                got = z.pack_literals(tup)
            except Exception as e:
                got = 'raised %s: %s' % (type(e).__name__, e)
            if len(samples) < 3:
                samples.append({'layout': ''.join(layout)})
            if got != tuple(want):
                failures.append({'op': 'zip.pack_literals', 'layout': ''.join(layout), 'got': repr(got), 'expected': repr(tuple(want))})
                if len(failures) >= 3:
                    return cases, failures, samples
            # end to end: one element per stream, the zip node emits the packed tuple
            L = z.sink_to_list()
            for s, v in zip(streams, tup):
                s.emit(v)
            if L != [tuple(want)]:
                failures.append({'op': 'zip with literals (end to end)', 'layout': ''.join(layout), 'got': repr(L), 'expected': repr([tuple(want)])})
                if len(failures) >= 3:
                    return cases, failures, samples
    return cases, failures, samples


def check_convert_interval():
    """C13 / C08: an interval given as a pandas time string means that many seconds (whatever its size), numbers pass through"""
    import pandas as pd
    from streamz.core import convert_interval
    cases, failures = 0, []
    strings = ['1ms', '10ms', '250ms', '1s', '1.5s', '90s', '2min', '90min', '1h', '23h', '24h', '25h', '36h', '1D', '2D', '7D',
               '1D 2h', '2 days 00:00:30']
    for txt in strings:
        cases += 1
        want = pd.Timedelta(txt).total_seconds()
        try:
            got = convert_interval(txt)
        except Exception as e:
            got = 'raised %s: %s' % (type(e).__name__, e)
        if not (isinstance(got, (int, float)) and abs(got - want) < 1e-9):
            failures.append({'op': 'convert_interval', 'interval': txt, 'got': repr(got), 'expected_seconds': want})
    import numpy as np
    for num in (0, 0.05, 1, 3, 86400, 129600.5, np.int64(1), np.int32(2), np.float32(0.5), np.float64(0.25)):
        cases += 1
        got = convert_interval(num)
        try:
            same = float(got) == float(num)
        except Exception:
            same = False
        if not same:
            failures.append({'op': 'convert_interval', 'interval': repr(num), 'got': repr(got), 'expected_seconds': float(num)})
    return cases, failures[:3], [{'interval': '36h'}, {'interval': 0.05}]


def check_filenames():
    """C17: the real `filenames` source polled by hand (await src._run(), poll_interval 0) over a scratch directory in which the
    files of every ordered partition of {a, b, c, d} into polls are created between polls (also one poll with nothing new):
    every path is delivered exactly once, in the poll in which it first exists, in sorted order within the poll."""
    import asyncio
    import itertools
    import os
    import shutil
    import tempfile
    from streamz.sources import filenames
    names = ['a', 'b', 'c', 'd']
    schedules = []
    for r in range(1, len(names) + 1):
        for perm in itertools.permutations(names, r):
            # cut the permutation into consecutive polls in every way (at most 3 polls), plus an empty poll in the middle
            for cuts in itertools.chain.from_iterable(itertools.combinations(range(1, r), k) for k in range(0, min(r, 3))):
                b = [0] + list(cuts) + [r]
                polls = [list(perm[b[i]:b[i + 1]]) for i in range(len(b) - 1)]
                schedules.append(polls)
                if len(polls) == 2:
                    schedules.append([polls[0], [], polls[1]])
    cases, failures = 0, []

    async def run(polls, d):
        src = filenames(d, poll_interval=0, start=False, asynchronous=True)
        got = src.sink_to_list()
        per_poll = []
        for new in polls:
            for n in new:
                open(os.path.join(d, n), 'w').close()
            before = len(got)
            await src._run()
            per_poll.append([os.path.basename(p) for p in got[before:]])
        return per_poll
    for polls in schedules:
        cases += 1
        d = tempfile.mkdtemp(prefix='verif_filenames_')
        try:
            try:
                got = asyncio.run(run(polls, d))
            except Exception as e:
                got = 'raised %s: %s' % (type(e).__name__, e)
        finally:
            shutil.rmtree(d, ignore_errors=True)
        want = [sorted(p) for p in polls]
        if got != want:
            failures.append({'op': 'filenames._run', 'files_created_before_each_poll': polls, 'delivered_per_poll': got, 'expected': want})
            if len(failures) >= 3:
                break
    return cases, failures, [{'files_created_before_each_poll': schedules[5]}]


def check_flatten():
    """C01 / C10 / C04: the real flatten node on every batch of <= 4 pieces over {0, 1, 'a'} (repeats of the same object
    included), a tuple / list / generator as the batch, with and without metadata carrying a RefCounter: the pieces are delivered
    one by one in order, the batch's metadata (and with it the reference) travels with the LAST piece only, and the counter is
    back at its initial value afterwards."""
    import itertools
    from streamz import Stream
    from streamz.core import RefCounter
    cases, failures = 0, []
    alphabet = [0, 1, 'a', None]
    for n in range(0, 5):
        for pieces in itertools.product(alphabet, repeat=n):
            for kind in ('list', 'tuple', 'generator'):
                for with_md in (False, True):
                    cases += 1
                    src = Stream()
                    got, got_md, counts = [], [], []
                    rc = RefCounter(initial=1)

                    def rec(x, metadata=None, got=got, got_md=got_md, counts=counts, rc=rc):
                        got.append(x)
                        got_md.append(list(metadata) if metadata else [])
                        counts.append(rc.count)
                    node = src.flatten()
                    from streamz.core import Stream as S

                    class Rec(S):
                        def update(self, x, who=None, metadata=None):
                            rec(x, metadata)
                    keep = Rec(node)        # downstreams are weak references: keep the recorder alive
                    batch = list(pieces) if kind == 'list' else tuple(pieces) if kind == 'tuple' else (p for p in pieces)
                    md = [{'ref': rc, 'id': 7}] if with_md else None
                    try:
                        src.emit(batch, metadata=md)
                        err = None
                    except Exception as e:
                        err = '%s: %s' % (type(e).__name__, e)
                    want_md = [[] for _ in pieces]
                    if pieces and with_md:
                        want_md[-1] = md
                    ok = err is None and got == list(pieces) and got_md == want_md and rc.count == 1
                    if not ok:
                        failures.append({'op': 'flatten.update', 'batch': repr(list(pieces)), 'batch_type': kind, 'with_metadata': with_md,
                                         'delivered': repr(got), 'delivered_metadata': repr([[m.get('id') for m in ml] for ml in got_md]),
                                         'counter_after': rc.count, 'exception': err})
                        if len(failures) >= 3:
                            return cases, failures, [{'batch': [0, 1, 0]}]
    return cases, failures, [{'batch': [0, 1, 0]}]


def check_textfile():
    """C17: the real from_textfile source polled by hand over a scripted file object: every text of <= 6 characters over
    {a, \\n} resp. {a, -} with delimiters '\\n', '\\n\\n', '--', '-a-', cut into <= 3 reads in every way: the records
    delivered are exactly the leftmost split of the whole text (terminated records only), whatever the chunking."""
    import asyncio
    import itertools
    from streamz.sources import from_textfile

    class Scripted:
        def __init__(self, chunks):
            self.chunks = list(chunks)

        def read(self):
            return self.chunks.pop(0) if self.chunks else ''

        def seek(self, *a):
            pass

    async def run(chunks, d):
        src = from_textfile(Scripted(chunks), poll_interval=0, delimiter=d, start=False, asynchronous=True)
        got = src.sink_to_list()
        for _ in range(len(chunks) + 1):
            await src._run()
        return got
    cases, failures = 0, []
    for d, alphabet in (('\n', 'a\n'), ('\n\n', 'a\n'), ('--', 'a-'), ('-a-', 'a-')):
        for n in range(0, 7):
            for text in map(''.join, itertools.product(alphabet, repeat=n)):
                parts = text.split(d)
                want = [p + d for p in parts[:-1]]
                cutsets = [()] + [(i,) for i in range(1, n)] + [(i, j) for i in range(1, n) for j in range(i + 1, n)]
                for cuts in cutsets:
                    b = [0] + list(cuts) + [n]
                    chunks = [text[b[i]:b[i + 1]] for i in range(len(b) - 1)]
                    cases += 1
                    try:
                        got = asyncio.run(run(chunks, d))
                    except Exception as e:
                        got = 'raised %s: %s' % (type(e).__name__, e)
                    if got != want:
                        failures.append({'op': 'from_textfile._run', 'delimiter': d, 'reads': chunks, 'delivered': got, 'expected': want})
                        if len(failures) >= 3:
                            return cases, failures, [{'delimiter': '--', 'reads': ['a-', '-a']}]
    return cases, failures, [{'delimiter': '--', 'reads': ['a-', '-a']}]


def check_textfile_bytes():
    """C17, byte level: the real from_textfile source opens a real file by name; a writer appends the UTF-8 bytes of a text in
    <= 3 writes cut at EVERY byte position (also inside a multi-byte character and inside \\r\\n), one poll after each write:
    the records delivered are the leftmost split of the whole text, unmodified.  Texts: <= 4 characters over {a, e-acute, \\r, \\n},
    delimiters \\n and \\r\\n."""
    import asyncio
    import itertools
    import os
    import tempfile
    from streamz.sources import from_textfile

    async def run(path, writes, d):
        open(path, 'wb').close()
        src = from_textfile(path, poll_interval=0, delimiter=d, start=False, asynchronous=True)
        got = src.sink_to_list()
        try:
            with open(path, 'ab') as w:
                for chunk in writes:
                    w.write(chunk)
                    w.flush()
                    await src._run()
            await src._run()
        finally:
            src.file.close()
        return got
    cases, failures = 0, []
    sample = [{'delimiter': '\n', 'writes': [repr(b'a\xc3'), repr(b'\xa9\n')]}]
    tmp = tempfile.mkdtemp(prefix='verif_textfile_')
    path = os.path.join(tmp, 'log.txt')
    try:
        for d in ('\n', '\r\n'):
            for n in range(1, 5):
                for text in map(''.join, itertools.product('a\u00e9\r\n', repeat=n)):
                    raw = text.encode('utf-8')
                    parts = text.split(d)
                    want = [p + d for p in parts[:-1]]
                    m = len(raw)
                    cutsets = [()] + [(i,) for i in range(1, m)] + [(i, j) for i in range(1, m) for j in range(i + 1, m)]
                    for cuts in cutsets:
                        b = [0] + list(cuts) + [m]
                        writes = [raw[b[i]:b[i + 1]] for i in range(len(b) - 1)]
                        cases += 1
                        try:
                            got = asyncio.run(run(path, writes, d))
                        except Exception as e:
                            got = 'raised %s: %s' % (type(e).__name__, e)
                        if got != want:
                            failures.append({'op': 'from_textfile (bytes appended to a real file)', 'delimiter': d,
                                             'writes': [repr(w) for w in writes], 'delivered': got, 'expected': want})
                            if len(failures) >= 3:
                                return cases, failures, sample
    finally:
        try:
            os.remove(path)
            os.rmdir(tmp)
        except OSError:
            pass
    return cases, failures, sample


def main():
    pid, tier = sys.argv[1], sys.argv[2]
    repo = sys.argv[4] if len(sys.argv) > 4 else '/repo'
    sys.path.insert(0, repo)
    out = {'property': pid, 'cases': 0, 'failures': [], 'samples': [], 'ops': [], 'space': ''}
    if pid in ('C01', 'C06', 'C07', 'C11', 'C12'):
        # (C06: map_partitions zips several streaming operands with literal operands through zip.pack_literals)
        n = 6 if tier == 'quick' else 8
        c, f, s = check_pack_literals(n)
        out.update({'cases': c, 'distinct': c, 'failures': f, 'samples': s, 'ops': ['zip.pack_literals', 'zip with literals (end to end)'],
                    'space': 'every arrangement of stream / literal arguments of zip with total length <= %d' % n})
    if pid in ('C01', 'C10', 'C04'):
        c, f, smp = check_flatten()
        out['cases'] += c
        out['distinct'] = out.get('distinct', 0) + c
        out['failures'] = out['failures'] + f
        out['samples'] = out['samples'] + smp
        out['ops'] = out['ops'] + ['flatten.update']
        out['space'] = (out['space'] + '; ' if out['space'] else '') + 'flatten: every batch of <= 4 pieces over {0, 1, "a", None} as list / tuple / generator, with and without a reference-counted metadata entry'
    if pid in ('C13', 'C08'):
        c, f, smp = check_convert_interval()
        out.update({'cases': c, 'distinct': c, 'failures': f, 'samples': smp, 'ops': ['convert_interval'],
                    'space': 'a fixed list of 18 pandas time strings from 1ms to 7 days (incl. >= 24h) and 10 numbers (Python and numpy scalars)'})
    if pid == 'C17':
        c, f, smp = check_filenames()
        out.update({'cases': c, 'distinct': c, 'failures': f, 'samples': smp, 'ops': ['filenames._run'],
                    'space': 'every ordered choice of up to 4 file names split into at most 3 consecutive polls (plus an empty poll)'})
        c2, f2, smp2 = check_textfile()
        out['cases'] += c2
        out['distinct'] += c2
        out['failures'] = out['failures'] + f2
        out['samples'] = out['samples'] + smp2
        out['ops'] = out['ops'] + ['from_textfile._run']
        out['space'] += "; from_textfile: every text of <= 6 characters over two-letter alphabets with delimiters \\n, \\n\\n, --, -a-, cut into <= 3 reads in every way"
        c3, f3, smp3 = check_textfile_bytes()
        out['cases'] += c3
        out['distinct'] += c3
        out['failures'] = out['failures'] + f3
        out['samples'] = out['samples'] + smp3
        out['ops'] = out['ops'] + ['from_textfile (bytes appended to a real file)']
        out['space'] += "; from_textfile on a real file: every text of <= 4 characters over {a, e-acute, CR, LF} (UTF-8), delimiters LF and CRLF, appended in <= 3 writes cut at every byte position, one poll after each write"
    json.dump(out, sys.stdout, default=repr)


if __name__ == '__main__':
    main()
