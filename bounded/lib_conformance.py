"""BOUNDED conformance checks of the ASSUMED contracts of the libraries the proofs rest on (DESIGN section 3, Appendix B).
Nothing here is a proof and nothing here is about streamz code: each check replays every short operation sequence on the REAL library
object next to the abstract model the contracts use, and compares what can be observed.  A mismatch means an assumption of the
proofs does not hold for the installed library: it is reported as a checker error (never as a violation of a property).

usage: lib_conformance.py <property> <tier> <seed> [repo]      -> JSON on stdout          (run with /venv/bin/python)
"""
import asyncio
import gc
import itertools
import json
import sys


# ------------------------------------------------------------------------------------------------ tornado Queue
def check_tornado_queue(maxlen):
    """model: (items, putters, getters); put: waiting getter -> handed over; room -> appended, done; else blocked (FIFO);
    get: item -> popped (first blocked putter promoted, its put completes); else registered (FIFO)."""
    from tornado.queues import Queue
    cases, failures = 0, []

    async def run(m, ops):
        q = Queue(maxsize=m)
        items, putters, getters = [], [], []          # model; putters: (value, id), getters: id
        put_done, got = {}, {}                          # model observations
        real_puts, real_gets = {}, {}
        for i, op in enumerate(ops):
            if op == 'get':
                real_gets[i] = q.get()
                if items:
                    got[i] = items.pop(0)
                    if putters:
                        v, pid = putters.pop(0)
                        items.append(v)
                        put_done[pid] = True
                else:
                    getters.append(i)
            else:
                real_puts[i] = q.put(i)
                if getters:
                    got[getters.pop(0)] = i
                    put_done[i] = True
                elif m == 0 or len(items) < m:
                    items.append(i)
                    put_done[i] = True
                else:
                    putters.append((i, i))
                    put_done[i] = False
            await asyncio.sleep(0)
            await asyncio.sleep(0)
            obs_put = {k: f.done() for k, f in real_puts.items()}
            obs_got = {k: f.result() for k, f in real_gets.items() if f.done()}
            if obs_put != {k: put_done.get(k, False) for k in real_puts} or obs_got != got or q.qsize() != len(items):
                return {'lib': 'tornado.queues.Queue', 'maxsize': m, 'ops': ops[:i + 1], 'real': [obs_put, obs_got, q.qsize()],
                        'model': [put_done, got, len(items)]}
        return None
    for m in (0, 1, 2):
        for n in range(1, maxlen + 1):
            for ops in itertools.product(['put', 'get'], repeat=n):
                cases += 1
                bad = asyncio.run(run(m, list(ops)))
                if bad:
                    failures.append(bad)
                    if len(failures) >= 3:
                        return cases, failures
    return cases, failures


# ------------------------------------------------------------------------------------------------ asyncio.Queue
def check_asyncio_queue(maxlen):
    """model used by map_async: put_nowait / get_nowait / full / empty / qsize over a FIFO list bounded by maxsize"""
    cases, failures = 0, []

    async def run(m, ops):
        q = asyncio.Queue(maxsize=m)
        items = []
        for i, op in enumerate(ops):
            if op == 'put':
                try:
                    q.put_nowait(i)
                    real = 'ok'
                except asyncio.QueueFull:
                    real = 'full'
                if m > 0 and len(items) >= m:
                    model = 'full'
                else:
                    items.append(i)
                    model = 'ok'
            else:
                try:
                    real = q.get_nowait()
                except asyncio.QueueEmpty:
                    real = 'empty'
                model = items.pop(0) if items else 'empty'
            if real != model or q.qsize() != len(items) or q.full() != (m > 0 and len(items) >= m) or q.empty() != (not items):
                return {'lib': 'asyncio.Queue', 'maxsize': m, 'ops': ops[:i + 1], 'real': real, 'model': model}
        return None
    for m in (0, 1, 2):
        for n in range(1, maxlen + 1):
            for ops in itertools.product(['put', 'get'], repeat=n):
                cases += 1
                bad = asyncio.run(run(m, list(ops)))
                if bad:
                    failures.append(bad)
    return cases, failures[:3]


# ------------------------------------------------------------------------------------------------ tornado Condition
def check_condition(maxlen):
    """model: waiters FIFO; notify(n) completes the first n waiters, a notify without waiters is lost; notify_all completes all"""
    from tornado.locks import Condition
    cases, failures = 0, []

    async def run(ops):
        c = Condition()
        waiters, done = [], set()
        real = {}
        for i, op in enumerate(ops):
            if op == 'wait':
                real[i] = c.wait()
                waiters.append(i)
            elif op == 'notify':
                c.notify()
                if waiters:
                    done.add(waiters.pop(0))
            elif op == 'notify2':
                c.notify(2)
                for _ in range(2):
                    if waiters:
                        done.add(waiters.pop(0))
            else:
                c.notify_all()
                done.update(waiters)
                del waiters[:]
            await asyncio.sleep(0)
            await asyncio.sleep(0)
            obs = set(k for k, f in real.items() if f.done())
            if obs != done:
                return {'lib': 'tornado.locks.Condition', 'ops': ops[:i + 1], 'real_done': sorted(obs), 'model_done': sorted(done)}
        return None
    for n in range(1, maxlen + 1):
        for ops in itertools.product(['wait', 'notify', 'notify2', 'notify_all'], repeat=n):
            cases += 1
            bad = asyncio.run(run(list(ops)))
            if bad:
                failures.append(bad)
                if len(failures) >= 3:
                    return cases, failures
    return cases, failures


# ------------------------------------------------------------------------------------------------ timers
def check_timers():
    """model: call_later callbacks run in deadline order, never before their deadline (loop clock); a cancelled handle does not run;
    add_callback / call_soon callbacks run FIFO.  (Ties between equal deadlines are NOT assumed to be FIFO.)"""
    from tornado.ioloop import IOLoop
    cases, failures = 0, []

    async def run(delays, cancel):
        loop = IOLoop.current()
        log = []
        t0 = loop.time()
        handles = []
        for i, d in enumerate(delays):
            handles.append(loop.call_later(d, lambda i=i: log.append((i, loop.time() - t0))))
        if cancel is not None:
            loop.remove_timeout(handles[cancel])
        await asyncio.sleep(max(delays) + 0.05)
        want = [i for i in sorted(range(len(delays)), key=lambda i: delays[i]) if i != cancel]
        got = [i for i, _ in log]
        early = [(i, t) for i, t in log if t < delays[i] - 1e-4]
        # distinct deadlines only: order must be deadline order
        if got != want or early:
            return {'lib': 'IOLoop.call_later', 'delays': delays, 'cancelled': cancel, 'ran': log}
        return None
    base = [0.0, 0.01, 0.02, 0.03]
    for perm in itertools.permutations(base, 3):
        for cancel in (None, 0, 1, 2):
            cases += 1
            bad = asyncio.run(run(list(perm), cancel))
            if bad:
                failures.append(bad)

    async def fifo():
        loop = IOLoop.current()
        log = []
        for i in range(6):
            loop.add_callback(log.append, i)
        await asyncio.sleep(0.01)
        return None if log == list(range(6)) else {'lib': 'IOLoop.add_callback', 'ran': log}
    cases += 1
    bad = asyncio.run(fifo())
    if bad:
        failures.append(bad)
    return cases, failures[:3]


# ------------------------------------------------------------------------------------------------ OrderedWeakrefSet / OrderedSet
def check_ordered_weakset(maxlen, repo):
    """model: live members in first-insertion order; add of a present member keeps its position; discard / remove of an absent
    member: discard is a no-op; an unreferenced member disappears (after gc)."""
    from streamz.orderedweakset import OrderedWeakrefSet
    cases, failures = 0, []

    class Obj:
        def __init__(self, i):
            self.i = i

        def __repr__(self):
            return 'o%d' % self.i
    for n in range(1, maxlen + 1):
        for ops in itertools.product([('add', 0), ('add', 1), ('add', 2), ('discard', 0), ('discard', 1), ('drop', 2)], repeat=n):
            cases += 1
            objs = {i: Obj(i) for i in range(3)}
            s = OrderedWeakrefSet()
            model = []
            for k, (op, i) in enumerate(ops):
                if op == 'add':
                    if i in objs:
                        s.add(objs[i])
                        if i not in model:
                            model.append(i)
                elif op == 'discard':
                    if i in objs:
                        s.discard(objs[i])
                        if i in model:
                            model.remove(i)
                else:
                    if i in objs:
                        del objs[i]
                        gc.collect()
                        if i in model:
                            model.remove(i)
                real = [o.i for o in s]
                if real != model or len(s) != len(model) or any((objs[j] in s) != (j in model) for j in objs):
                    failures.append({'lib': 'streamz.orderedweakset.OrderedWeakrefSet', 'ops': list(ops[:k + 1]), 'real': real, 'model': model})
                    break
            if len(failures) >= 3:
                return cases, failures
    return cases, failures


# ------------------------------------------------------------------------------------------------ zict.LRU (unique(maxsize=...))
def check_lru(maxlen):
    """model of the history kept by unique(maxsize=n, hashable): at most n keys; a lookup hit and a store both make the key the
    most recent; storing a new key into a full history evicts the least recently used one."""
    try:
        from zict import LRU
    except Exception as e:
        return 0, [{'lib': 'zict.LRU', 'error': repr(e)}]
    cases, failures = 0, []
    for size in (1, 2, 3):
        for n in range(1, maxlen + 1):
            for keys in itertools.product(range(4), repeat=n):
                cases += 1
                lru = LRU(size, {})
                model = []              # least recent first
                for k, key in enumerate(keys):
                    hit = lru.get(key, '~~not_seen~~') != '~~not_seen~~'      # exactly the lookup unique.update makes
                    mhit = key in model
                    if hit:
                        model.remove(key)
                        model.append(key)
                    else:
                        lru[key] = 1
                        model.append(key)
                        if len(model) > size:
                            model.pop(0)
                    if hit != mhit or sorted(lru.keys()) != sorted(model):
                        failures.append({'lib': 'zict.LRU', 'size': size, 'keys': list(keys[:k + 1]), 'real': sorted(lru.keys()), 'model': sorted(model)})
                        break
                if len(failures) >= 3:
                    return cases, failures
    return cases, failures


WHICH = {
    # property -> the assumed library contracts its proofs use
    'C01': ['lru', 'weakset'], 'C02': ['tqueue', 'aqueue', 'timers'], 'C03': ['tqueue', 'aqueue', 'condition'],
    'C08': ['timers'], 'C13': ['timers', 'tqueue'], 'C14': ['condition'], 'C15': ['weakset'], 'C18': ['timers'],
}


def main():
    pid, tier = sys.argv[1], sys.argv[2]
    repo = sys.argv[4] if len(sys.argv) > 4 else '/repo'
    sys.path.insert(0, repo)
    n = 5 if tier == 'quick' else 7
    out = {'property': pid, 'cases': 0, 'distinct': 0, 'failures': [], 'samples': [], 'ops': [], 'space': ''}
    spaces = []
    for w in WHICH.get(pid, []):
        if w == 'tqueue':
            c, f = check_tornado_queue(n)
            name, sp = 'assumed contract of tornado.queues.Queue', 'every put/get sequence of length <= %d, maxsize 0..2' % n
        elif w == 'aqueue':
            c, f = check_asyncio_queue(n + 1)
            name, sp = 'assumed contract of asyncio.Queue', 'every put_nowait/get_nowait sequence of length <= %d, maxsize 0..2' % (n + 1)
        elif w == 'condition':
            c, f = check_condition(n - 1)
            name, sp = 'assumed contract of tornado.locks.Condition', 'every wait/notify/notify(2)/notify_all sequence of length <= %d' % (n - 1)
        elif w == 'timers':
            c, f = check_timers()
            name, sp = 'assumed contract of IOLoop.call_later / add_callback', '3 timers with distinct deadlines in every order, one cancelled or none; 6 ready callbacks'
        elif w == 'weakset':
            c, f = check_ordered_weakset(n - 1, repo)
            name, sp = 'assumed contract of OrderedWeakrefSet (weak references, garbage collection)', 'every add/discard/drop-last-reference sequence of length <= %d over 3 objects' % (n - 1)
        else:
            c, f = check_lru(n)
            name, sp = 'assumed contract of zict.LRU', 'every key sequence of length <= %d over 4 keys, capacity 1..3' % n
        out['cases'] += c
        out['distinct'] += c
        out['ops'].append(name)
        spaces.append('%s: %s' % (name, sp))
        for x in f:
            x['op'] = name
        out['failures'].extend(f)
    out['space'] = '; '.join(spaces)
    json.dump(out, sys.stdout, default=repr)


if __name__ == '__main__':
    main()
