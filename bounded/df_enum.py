"""BOUNDED stand-in (never counted as proved): run the REAL streaming dataframe aggregations with real pandas over an
enumerated space of small tables and batch splits and compare with the pandas oracle.  Run with /venv/bin/python.

usage: df_enum.py <property> <tier> <seed> [repo]      -> JSON on stdout
space: tables with <= MAXROWS rows, values from {0, 1, 2.5, NaN}, group keys from {a, b, c}; every split of the rows into
       <= MAXBATCH consecutive batches, with optional empty batches inserted at any position (incl. first)."""
import itertools
import json
import math
import sys
import warnings

warnings.simplefilter('ignore')


def splits(n, maxbatch):
    """all compositions of n rows into k <= maxbatch consecutive non-empty batches, as lists of sizes"""
    out = []
    for k in range(1, min(maxbatch, max(n, 1)) + 1):
        for cuts in itertools.combinations(range(1, n), k - 1):
            b = [0] + list(cuts) + [n]
            out.append([b[i + 1] - b[i] for i in range(k)])
    return out or [[0]]


def with_empties(sizes, maxbatch):
    """the split itself plus variants with one empty batch inserted at each position"""
    yield list(sizes)
    if len(sizes) < maxbatch:
        for pos in range(len(sizes) + 1):
            yield sizes[:pos] + [0] + sizes[pos:]


def eq(a, b):
    import numpy as np
    import pandas as pd
    if isinstance(a, (pd.Series, pd.DataFrame)) or isinstance(b, (pd.Series, pd.DataFrame)):
        try:
            a2 = a.sort_index() if hasattr(a, 'sort_index') else a
            b2 = b.sort_index() if hasattr(b, 'sort_index') else b
            if isinstance(a2, pd.Series) and isinstance(b2, pd.Series):
                if len(a2) != len(b2) or list(a2.index) != list(b2.index):
                    return False
                return all(eq(x, y) for x, y in zip(a2.values, b2.values))
            if isinstance(a2, pd.DataFrame) and isinstance(b2, pd.DataFrame):
                if a2.shape != b2.shape or list(a2.index) != list(b2.index):
                    return False
                return all(eq(x, y) for x, y in zip(a2.values.ravel(), b2.values.ravel()))
            return False
        except Exception:
            return False
    try:
        fa, fb = float(a), float(b)
    except Exception:
        return a == b
    if math.isnan(fa) and math.isnan(fb):
        return True
    if math.isinf(fa) or math.isinf(fb):
        return fa == fb
    return abs(fa - fb) <= 1e-9 * max(1.0, abs(fa), abs(fb))


def make_tables(tier, seed):
    import random
    rnd = random.Random(seed)
    vals = [0.0, 1.0, 2.5, float('nan')]
    keys = ['a', 'b', 'c']
    fixed = [
        ([1.0, 2.0, 4.0], ['a', 'b', 'a']),
        ([1.0, float('nan'), 2.0, 3.0], ['a', 'a', 'b', 'a']),
        ([2.5, 0.0, 1.0, 1.0, float('nan')], ['a', 'b', 'c', 'a', 'b']),
        ([float('nan'), 1.0], ['b', 'b']),
        ([0.0, 1.0, 2.5, 1.0, 0.0, 2.5], ['a', 'b', 'a', 'c', 'a', 'b']),
        # magnitudes below the default absolute tolerance of numpy.isclose (1e-8): a result must not be "tidied" to zero
        ([4e-9, 5e-9, 3e-9, 2e-9], ['a', 'b', 'a', 'b']),
    ]
    n_random = 3 if tier == 'quick' else 25
    for _ in range(n_random):
        n = rnd.randint(1, 6)
        fixed.append(([rnd.choice(vals) for _ in range(n)], [rnd.choice(keys) for _ in range(n)]))
    return fixed


def run_case(op, xs, ks, sizes, params):
    """returns None if fine, else a dict describing the mismatch"""
    import numpy as np
    import pandas as pd
    from streamz import Stream
    from streamz.dataframe import DataFrame
    n = len(xs)
    t0 = pd.Timestamp('2020-01-01')
    if op['index'] == 'time':
        index = [t0 + pd.Timedelta(seconds=i) for i in range(n)]
    else:
        index = list(range(n))
    # y: the values of x rotated by one row and doubled, so that missing values sit in different rows of the two columns
    ys = [xs[(i + 1) % n] * 2 for i in range(n)] if n else []
    full = pd.DataFrame({'x': xs, 'y': ys, 'k': ks}, index=index)
    if op.get('categorical'):
        # a categorical key that declares a category ('d') no row ever carries
        full['k'] = pd.Categorical(ks, categories=['a', 'b', 'c', 'd'])
    if op.get('int_labels'):
        full = full.rename(columns={'x': 0, 'y': 1, 'k': 2})
    src = Stream()
    sdf = DataFrame(src, example=full.iloc[:0])
    try:
        out = op['build'](sdf, params)
    except Exception as e:
        return {'error': 'building the pipeline failed: %r' % (e,)}
    L = out.stream.sink_to_list()
    pos = 0
    for bi, sz in enumerate(sizes):
        batch = full.iloc[pos:pos + sz]
        if op.get('local_index'):
            batch = batch.reset_index(drop=True)
        pos += sz
        before = len(L)
        try:
            src.emit(batch)
        except Exception as e:
            return {'batch': bi, 'exception': '%s: %s' % (type(e).__name__, e)}
        prefix = full.iloc[:pos]
        if op['kind'] == 'per_prefix':
            if len(prefix) == 0 or len(L) == before:
                continue
            want = op['oracle'](prefix, params)
            got = L[-1]
            if want is None:
                continue
            if op.get('last_value') and hasattr(got, 'iloc'):
                if len(got) == 0:
                    return {'batch': bi, 'got': 'empty result', 'pandas': repr(want)}
                got = got.iloc[-1]
            if op.get('values_only_last'):
                gx, wx = list(got['x'].values), list(want['x'].values)
                if len(gx) != len(wx) or not all(eq(a, b) for a, b in zip(gx, wx)):
                    return {'batch': bi, 'got': repr(gx)[:300], 'pandas': repr(wx)[:300]}
                continue
            if op.get('present_only'):
                # every value present in the (window of the) data is reported with its exact statistic; entries for values
                # that are not present may be missing or zero (the property does not ask for more)
                bad = [k for k in want.index if k not in got.index or not eq(got[k], want[k])]
                bad += [k for k in got.index if k not in want.index and not eq(got[k], 0)]
                if bad:
                    return {'batch': bi, 'got': repr(got.to_dict())[:300], 'pandas': repr(want.to_dict())[:300], 'wrong_keys': repr(bad)}
                continue
            if not eq(got, want):
                return {'batch': bi, 'got': repr(got)[:300], 'pandas': repr(want)[:300]}
    if op['kind'] == 'concat':
        pieces = [p for p in L if p is not None and len(p)]
        got = pd.concat(pieces) if pieces else full.iloc[:0][op.get('col', 'x')]
        want = op['oracle'](full, params)
        if op.get('values_only'):
            gv, wv = list(got.values), list(want.values)
            if len(gv) != len(wv) or not all(eq(a, b) for a, b in zip(gv, wv)):
                return {'got': repr(gv)[:300], 'pandas': repr(wv)[:300], 'lengths': [len(p) for p in L]}
            return None
        if not eq(got, want):
            return {'got': repr(got)[:300], 'pandas': repr(want)[:300], 'lengths': [len(p) for p in L]}
    return None


def run_resume_case(op, xs, ks, sizes):
    """C12: run the whole batch sequence with with_state=True, then for every cut point restart a fresh pipeline from the
    state emitted at the cut (the very object that was emitted, inspected after the first run has finished, so later
    mutation of an emitted state shows) and compare the remaining results."""
    import pandas as pd
    from streamz import Stream
    from streamz.dataframe import DataFrame
    n = len(xs)
    t0 = pd.Timestamp('2020-01-01')
    index = [t0 + pd.Timedelta(seconds=i) for i in range(n)] if op['index'] == 'time' else list(range(n))
    ys = [xs[(i + 1) % n] * 2 for i in range(n)] if n else []
    full = pd.DataFrame({'x': xs, 'y': ys, 'k': ks}, index=index)
    batches, pos = [], 0
    for sz in sizes:
        batches.append(full.iloc[pos:pos + sz])
        pos += sz

    def run(bs, start):
        src = Stream()
        sdf = DataFrame(src, example=full.iloc[:0])
        out = op['build'](sdf, start)
        L = out.stream.sink_to_list()
        for b in bs:
            src.emit(b)
        return L
    try:
        L = run(batches, op['first_start'])
    except Exception as e:
        return {'exception': 'full run: %s: %s' % (type(e).__name__, e)}
    if len(L) != len(batches):
        return None      # nothing to cut (e.g. an operation that does not emit for empty batches)
    for j in range(1, len(batches)):
        state = op['state_of'](L[j - 1])
        try:
            L2 = run(batches[j:], state)
        except Exception as e:
            return {'cut_after_batch': j, 'exception': 'resumed run: %s: %s' % (type(e).__name__, e)}
        want = [op['value_of'](r) for r in L[j:]]
        got = [op['value_of'](r) for r in L2]
        if len(want) != len(got) or not all(eq(a, b) for a, b in zip(got, want)):
            return {'cut_after_batch': j, 'got': repr(got)[:300], 'uninterrupted': repr(want)[:300]}
    return None


def ops_for(pid):
    import pandas as pd
    P = 'per_prefix'

    def red(name, frame=False):
        if name == 'size':
            return {'name': 'x.size', 'kind': P, 'index': 'int', 'build': lambda s, p: s.x.size, 'oracle': lambda d, p: d.x.size}
        if frame:
            return {'name': 'frame[x,y].%s' % name, 'kind': P, 'index': 'int',
                    'build': lambda s, p: getattr(s[['x', 'y']], name)(), 'oracle': lambda d, p: getattr(d[['x', 'y']], name)()}
        return {'name': 'x.%s' % name, 'kind': P, 'index': 'int',
                'build': lambda s, p: getattr(s.x, name)(), 'oracle': lambda d, p: getattr(d.x, name)()}

    def vc(n=None):
        if n is None:
            return {'name': 'k.value_counts', 'kind': P, 'index': 'int', 'present_only': True,
                    'build': lambda s, p: s.k.value_counts(), 'oracle': lambda d, p: d.k.value_counts()}
        return {'name': 'window(n=%d).k.value_counts' % n, 'kind': P, 'index': 'int', 'present_only': True,
                'build': lambda s, p: s.window(n=n).k.value_counts(), 'oracle': lambda d, p: d.k.iloc[-n:].value_counts()}

    def gb_intlabels(name):
        # integer column labels (0 = data, 2 = key): a falsy label must select its column like any other
        return {'name': "int-labelled frame: groupby(2)[0].%s" % name, 'kind': P, 'index': 'int', 'int_labels': True,
                'build': lambda s, p: getattr(s.groupby(2)[0], name)(), 'oracle': lambda d, p: getattr(d.groupby(2)[0], name)()}

    def wingb_array(name, n):
        import numpy as np

        def oracle(d, p):
            w = d.iloc[-n:]
            return getattr(w.groupby(w.k.values).x, name)()
        return {'name': "window(n=%d).groupby(<stream of numpy arrays>).x.%s" % (n, name), 'kind': P, 'index': 'int',
                'build': lambda s, p: getattr(s.window(n=n).groupby(s.k.map_partitions(np.asarray, s.k)).x, name)(), 'oracle': oracle}

    def win_full_local(n):
        # window(n).full() with per-batch RangeIndex: the window is the last n ROWS whatever their labels
        return {'name': 'window(n=%d).full() [per-batch RangeIndex]' % n, 'kind': P, 'index': 'int', 'local_index': True, 'values_only_last': True,
                'build': lambda s, p: s.window(n=n).full(), 'oracle': lambda d, p: d.iloc[-n:]}

    def wingb_intlabels(name, n):
        return {'name': "int-labelled frame: window(n=%d).groupby(2)[0].%s" % (n, name), 'kind': P, 'index': 'int', 'int_labels': True,
                'build': lambda s, p: getattr(s.window(n=n).groupby(2)[0], name)(),
                'oracle': lambda d, p: getattr(d.iloc[-n:].groupby(2)[0], name)()}

    def gb_cat(name, series_grouper=False):
        # pandas (observed=True, the default of pandas 3) reports only the categories that occur
        if series_grouper:
            return {'name': 'groupby(sdf.k).x.%s [categorical key with an unused category]' % name, 'kind': P, 'index': 'int', 'categorical': True,
                    'build': lambda s, p: getattr(s.groupby(s.k).x, name)(), 'oracle': lambda d, p: getattr(d.groupby(d.k, observed=True).x, name)()}
        return {'name': "groupby('k').x.%s [categorical key with an unused category]" % name, 'kind': P, 'index': 'int', 'categorical': True,
                'build': lambda s, p: getattr(s.groupby('k').x, name)(), 'oracle': lambda d, p: getattr(d.groupby('k', observed=True).x, name)()}

    def win_npint(name, n):
        import numpy as np
        # the window size given as a numpy integer, on a time-indexed frame: still a window of n ROWS
        return {'name': 'window(n=numpy.int64(%d)).x.%s [DatetimeIndex]' % (n, name), 'kind': P, 'index': 'time',
                'build': lambda s, p: getattr(s.window(n=np.int64(n)).x, name)(), 'oracle': lambda d, p: getattr(d.x.iloc[-n:], name)()}

    def gb_derived(name):
        # the grouped frame is derived from the source BEFORE the grouper expression is built: per batch the frame reaches the
        # pairing node first, its grouper second -- they must still be paired batch by batch
        def build(s, p):
            pos = s[['x', 'y', 'k']]
            return getattr(pos.groupby(s.k).x, name)()
        return {'name': 'derived frame .groupby(sdf.k).x.%s' % name, 'kind': P, 'index': 'int',
                'build': build, 'oracle': lambda d, p: getattr(d.groupby(d.k).x, name)()}

    def gbd(name, ddof):
        return {'name': "groupby('k').x.%s(ddof=%d)" % (name, ddof), 'kind': P, 'index': 'int',
                'build': lambda s, p: getattr(s.groupby('k').x, name)(ddof=ddof),
                'oracle': lambda d, p: getattr(d.groupby('k').x, name)(ddof=ddof)}

    def wind(name, n, ddof):
        return {'name': 'window(n=%d).x.%s(ddof=%d)' % (n, name, ddof), 'kind': P, 'index': 'int',
                'build': lambda s, p: getattr(s.window(n=n).x, name)(ddof=ddof),
                'oracle': lambda d, p: getattr(d.x.iloc[-n:], name)(ddof=ddof)}

    def wingbd(name, n, ddof):
        def oracle(d, p):
            return getattr(d.iloc[-n:].groupby('k').x, name)(ddof=ddof)
        return {'name': "window(n=%d).groupby('k').x.%s(ddof=%d)" % (n, name, ddof), 'kind': P, 'index': 'int',
                'build': lambda s, p: getattr(s.window(n=n).groupby('k').x, name)(ddof=ddof), 'oracle': oracle}

    def gb(name, series_grouper=False):
        if series_grouper:
            return {'name': 'groupby(sdf.k).x.%s' % name, 'kind': P, 'index': 'int',
                    'build': lambda s, p: getattr(s.groupby(s.k).x, name)(), 'oracle': lambda d, p: getattr(d.groupby(d.k).x, name)()}
        return {'name': "groupby('k').x.%s" % name, 'kind': P, 'index': 'int',
                'build': lambda s, p: getattr(s.groupby('k').x, name)(), 'oracle': lambda d, p: getattr(d.groupby('k').x, name)()}

    def win(name, n):
        if name == 'size':
            return {'name': 'window(n=%d).x.size' % n, 'kind': P, 'index': 'int',
                    'build': lambda s, p: s.window(n=n).x.size, 'oracle': lambda d, p: d.x.iloc[-n:].size}
        return {'name': 'window(n=%d).x.%s' % (n, name), 'kind': P, 'index': 'int',
                'build': lambda s, p: getattr(s.window(n=n).x, name)(), 'oracle': lambda d, p: getattr(d.x.iloc[-n:], name)()}

    def wint(name, secs):
        def oracle(d, p):
            mx = d.index.max()
            return getattr(d.x[d.index > mx - pd.Timedelta(seconds=secs)], name)()
        return {'name': "window(value='%ds').x.%s" % (secs, name), 'kind': P, 'index': 'time',
                'build': lambda s, p: getattr(s.window(value='%ds' % secs).x, name)(), 'oracle': oracle}

    def wingb(name, n):
        def oracle(d, p):
            w = d.iloc[-n:]
            return getattr(w.groupby('k').x, name)()
        return {'name': "window(n=%d).groupby('k').x.%s" % (n, name), 'kind': P, 'index': 'int',
                'build': lambda s, p: getattr(s.window(n=n).groupby('k').x, name)(), 'oracle': oracle}

    def roll(name, w):
        return {'name': 'x.rolling(%d).%s' % (w, name), 'kind': 'concat', 'index': 'int',
                'build': lambda s, p: getattr(s.x.rolling(w), name)(), 'oracle': lambda d, p: getattr(d.x.rolling(w), name)()}

    def roll_t(name, secs):
        return {'name': "x.rolling('%ds').%s" % (secs, name), 'kind': 'concat', 'index': 'time',
                'build': lambda s, p: getattr(s.x.rolling('%ds' % secs), name)(),
                'oracle': lambda d, p: getattr(d.x.rolling('%ds' % secs), name)()}

    def cum_local(name):
        # every batch arrives with its own default RangeIndex (labels repeat across batches): the VALUES must still be those of
        # the one-pass cumulative operation
        return {'name': 'x.%s [per-batch RangeIndex]' % name, 'kind': 'concat', 'index': 'int', 'local_index': True, 'values_only': True,
                'build': lambda s, p: getattr(s.x, name)(), 'oracle': lambda d, p: getattr(d.x, name)()}

    def cumf(name):
        return {'name': 'frame[x,y].%s' % name, 'kind': 'concat', 'index': 'int', 'col': ['x', 'y'],
                'build': lambda s, p: getattr(s[['x', 'y']], name)(), 'oracle': lambda d, p: getattr(d[['x', 'y']], name)()}

    def cum(name):
        return {'name': 'x.%s' % name, 'kind': 'concat', 'index': 'int',
                'build': lambda s, p: getattr(s.x, name)(), 'oracle': lambda d, p: getattr(d.x, name)()}

    def expanding(name):
        return {'name': 'expanding().x.%s' % name, 'kind': P, 'index': 'int',
                'build': lambda s, p: getattr(s.expanding().x, name)(), 'oracle': lambda d, p: getattr(d.x, name)()}

    def expanding_frame(name):
        return {'name': 'expanding()[x,y].%s' % name, 'kind': P, 'index': 'int',
                'build': lambda s, p: getattr(s.expanding()[['x', 'y']], name)(), 'oracle': lambda d, p: getattr(d[['x', 'y']], name)()}

    def expanding_first(name):
        # the selection made before .expanding()
        return {'name': 'x.expanding().%s' % name, 'kind': P, 'index': 'int',
                'build': lambda s, p: getattr(s.x.expanding(), name)(), 'oracle': lambda d, p: getattr(d.x, name)()}

    def ewm_kw(**kw):
        label = ', '.join('%s=%s' % kv for kv in kw.items())

        def oracle(d, p):
            if d.x.isna().any():
                return None
            return d.x.ewm(**kw).mean().iloc[-1]
        return {'name': 'x.ewm(%s).mean' % label, 'kind': P, 'index': 'int', 'build': lambda s, p: s.x.ewm(**kw).mean(),
                'oracle': oracle, 'last_value': True}

    def ewm(com):
        def oracle(d, p):
            if d.x.isna().any():
                return None        # streaming ewm is specified for data without NaN
            return d.x.ewm(com=com).mean().iloc[-1]

        def build(s, p):
            return s.x.ewm(com=com).mean()
        return {'name': 'x.ewm(com=%s).mean' % com, 'kind': P, 'index': 'int', 'build': build, 'oracle': oracle, 'last_value': True}
    def resume(name, build, index='int'):
        return {'name': name + ' [resume from emitted state]', 'kind': 'resume', 'index': index, 'build': build, 'first_start': None,
                'state_of': lambda r: r[0], 'value_of': lambda r: r[1]}

    def resume_total(name, build):
        # no with_state: the running result itself is the state handed to start=
        from streamz.core import no_default
        return {'name': name + ' [resume from running total]', 'kind': 'resume', 'index': 'int',
                'build': lambda s, st: build(s, st), 'first_start': None, 'state_of': lambda r: r, 'value_of': lambda r: r}
    if pid in ('C12', 'C16'):
        # (C16: a failing batch leaves accumulate.state as it was only if the accumulator functions never update the state they
        # are given in place; the resume-from-emitted-state runs detect exactly that)
        return [resume('window(n=2).x.sum', lambda s, st: s.window(n=2, with_state=True, start=st).x.sum()),
                resume('window(n=3).x.mean', lambda s, st: s.window(n=3, with_state=True, start=st).x.mean()),
                resume('window(n=2).x.var', lambda s, st: s.window(n=2, with_state=True, start=st).x.var()),
                resume('window(n=2)[x,y].sum', lambda s, st: s.window(n=2, with_state=True, start=st)[['x', 'y']].sum()),
                resume("window(value='2s').x.sum", lambda s, st: s.window(value='2s', with_state=True, start=st).x.sum(), 'time'),
                resume("window(n=2).groupby('k').x.sum", lambda s, st: s.window(n=2, with_state=True, start=st).groupby('k').x.sum()),
                resume("window(n=3).groupby('k').x.mean", lambda s, st: s.window(n=3, with_state=True, start=st).groupby('k').x.mean()),
                resume("groupby('k').x.mean", lambda s, st: s.groupby('k').x.mean(with_state=True, start=st)),
                resume("window(n=2).groupby(<streaming series k>).x.sum", lambda s, st: s.window(n=2, with_state=True, start=st).groupby(s.k).x.sum()),
                resume("window(n=3).groupby(<streaming series k>).x.count", lambda s, st: s.window(n=3, with_state=True, start=st).groupby(s.k).x.count()),
                resume('window(n=2)[x,y].mean', lambda s, st: s.window(n=2, with_state=True, start=st)[['x', 'y']].mean()),
                resume('window(n=2).x.full', lambda s, st: s.window(n=2, with_state=True, start=st).x.full()),
                resume('window(n=3).x.count', lambda s, st: s.window(n=3, with_state=True, start=st).x.count()),
                resume('window(n=2).x.std', lambda s, st: s.window(n=2, with_state=True, start=st).x.std()),
                resume('window(n=2).k.value_counts', lambda s, st: s.window(n=2, with_state=True, start=st).k.value_counts()),
                resume('(window(n=2).x * 2).sum', lambda s, st: (s.window(n=2, with_state=True, start=st).x * 2).sum()),
                resume('expanding().x.sum', lambda s, st: s.expanding(with_state=True, start=st).x.sum()),
                resume('expanding()[x,y].mean', lambda s, st: s.expanding(with_state=True, start=st)[['x', 'y']].mean()),
                resume('ewm(com=1).x.mean', lambda s, st: s.ewm(com=1, with_state=True, start=st).x.mean()),
                resume('ewm(com=0.5)[x,y].mean', lambda s, st: s.ewm(com=0.5, with_state=True, start=st)[['x', 'y']].mean()),
                resume('x.rolling(2).sum', lambda s, st: s.x.rolling(2, with_state=True, start=st if st is not None else ()).sum()),
                resume_total('x.sum', lambda s, st: s.x.sum(start=st)),
                resume_total('x.count', lambda s, st: s.x.count(start=st)),
                resume_total("groupby('k').x.sum", lambda s, st: s.groupby('k').x.sum(start=st)),
                resume_total("groupby('k').x.count", lambda s, st: s.groupby('k').x.count(start=st))]
    if pid == 'C06':
        return [red('sum'), red('count'), red('mean'), red('size'), red('sum', True), red('mean', True), red('count', True),
                gb('sum'), gb('count'), gb('size'), gb('mean'), gb('var'), gb('std'), gb('sum', True), gb('mean', True),
                gbd('var', 0), gbd('std', 0), vc(), gb_intlabels('sum'), gb_intlabels('mean'), gb_cat('sum'), gb_cat('mean', True), gb_derived('sum'),
                expanding('sum'), expanding('mean'), expanding('count'), expanding_frame('sum'), expanding_first('var')]
    if pid == 'C07':
        return [win('sum', 2), win('mean', 3), win('count', 1), win('var', 3), win('std', 2), win('size', 2),
                wint('sum', 2), wint('mean', 1), wingb('sum', 2), wingb('mean', 3), wingb('count', 2), wingb('size', 3),
                wind('var', 3, 0), wind('std', 3, 0), wingbd('var', 3, 0), wingbd('std', 2, 0), vc(1), vc(3),
                wingb_array('sum', 2), wingb_array('count', 3), win_full_local(4), win_full_local(2), wingb_intlabels('sum', 3),
                win_npint('sum', 2)]
    if pid == 'C11':
        return [roll('sum', 2), roll('mean', 3), roll('max', 1), roll('count', 3), roll_t('sum', 2), roll_t('mean', 3),
                cumf('cumsum'), cumf('cummax'), cum_local('cumsum'), cum_local('cummin'), cum('cumsum'), cum('cumprod'), cum('cummax'),
                cum('cummin'), expanding('sum'), expanding('mean'), ewm(1), ewm(0.5),
                ewm_kw(span=4), ewm_kw(span=2.5), ewm_kw(alpha=0.3), ewm_kw(halflife=2)]
    return []


def main():
    pid, tier, seed = sys.argv[1], sys.argv[2], int(sys.argv[3])
    repo = sys.argv[4] if len(sys.argv) > 4 else '/repo'
    sys.path.insert(0, repo)
    maxbatch = 3 if tier == 'quick' else 4
    tables = make_tables(tier, seed)
    ops = ops_for(pid)
    cases = 0
    distinct = set()
    failures = []
    samples = []
    # non-finite totals (a division by zero upstream): only for the running reductions, whose state is additive.  Windowed
    # aggregations subtract what leaves the window; inf - inf is NaN in floating point, which is outside the real-number reading of
    # the properties (DESIGN section 1) and is not enumerated.
    INF_OPS = {'x.sum', 'x.count', 'x.mean', 'frame[x,y].sum', 'frame[x,y].count', 'groupby(\'k\').x.sum', 'groupby(\'k\').x.count'}
    inf_tables = [([float('inf'), 1.0, 2.0], ['a', 'b', 'a']), ([1.0, float('inf'), 0.0, 2.5], ['a', 'a', 'b', 'a'])]
    for op in ops:
        for xs, ks in tables + (inf_tables if op['name'] in INF_OPS else []):
            for sz in splits(len(xs), maxbatch):
                for sizes in with_empties(sz, maxbatch):
                    cases += 1
                    key = (op['name'], tuple('nan' if v != v else v for v in xs), tuple(ks), tuple(sizes))
                    distinct.add(key)
                    try:
                        if op['kind'] == 'resume':
                            bad = run_resume_case(op, xs, ks, sizes) if len(sizes) > 1 else None
                        else:
                            bad = run_case(op, xs, ks, sizes, {})
                    except Exception as e:
                        bad = {'harness_error': repr(e)}
                    if len(samples) < 3:
                        samples.append({'op': op['name'], 'x': [None if v != v else v for v in xs], 'k': ks, 'batch_sizes': sizes})
                    if bad is not None and 'harness_error' not in bad:
                        bad.update({'op': op['name'], 'x': [None if v != v else v for v in xs], 'k': ks, 'batch_sizes': sizes})
                        failures.append(bad)
                        break
                if failures and failures[-1].get('op') == op['name']:
                    break
            if failures and failures[-1].get('op') == op['name']:
                break
    json.dump({'property': pid, 'cases': cases, 'distinct': len(distinct), 'ops': [o['name'] for o in ops],
               'failures': failures, 'samples': samples,
               'space': 'tables <= 6 rows, values {0,1,2.5,NaN}, keys {a,b,c}; all splits into <= %d batches, one empty batch at any position' % maxbatch},
              sys.stdout, default=repr)


if __name__ == '__main__':
    main()
