#!/bin/sh
# developer convenience: run every property check (quick tier), print one summary line each; exit non-zero if any is non-zero
cd "$(dirname "$0")"
mkdir -p out
rc=0
for i in 01 02 03 04 05 06 07 08 09 10 11 12 13 14 15 16 17 18 19 20; do
  ./check C$i "$@" > out/all_C$i.log 2>&1; r=$?
  echo "C$i exit=$r $(grep -m1 '^C' out/all_C$i.log)"
  grep -E '^(VIOLATION|UNDECIDED|CHECKER-ERROR|KNOWN-FINDING)' out/all_C$i.log | cut -c1-220
  [ $r -ne 0 ] && rc=1
done
exit $rc
