"""C06/C07/C12: the state algebra of the streaming reductions (streamz/dataframe/aggregations.py):
Sum, Count, Size, Mean, Var  x  initial / on_new / on_old, and accumulator()."""
import z3
from pyvc import sym
from pyvc.sym import (VFrame, VVec, VInt, VReal, VBool, VNone, VStr, VTuple, VObj)
from pyvc.state import State
from pyvc.contract import Clause
from pyvc.interp import NONE
from .df_common import DfContract, S, C, N, Q, SeqRowS

# state of each aggregation as a tuple of oracle functions, and its result (oracle over the rows seen)
STATE = {'Sum': ('S',), 'Count': ('C',), 'Size': ('N',), 'Mean': ('S', 'C'), 'Var': ('S', 'Q', 'C')}
H = {'S': S, 'C': C, 'N': N, 'Q': Q}


def state_value(c, agg, rows_t):
    vals = [c.red(H[h](rows_t)) for h in STATE[agg]]
    return vals[0] if len(vals) == 1 else VTuple(vals)


def state_text(agg, rows):
    parts = ['%s(%s)' % (h, rows) for h in STATE[agg]]
    return parts[0] if len(parts) == 1 else '(' + ', '.join(parts) + ')'


def result_clause(agg, rows, res='result[1]'):
    if agg == 'Sum':
        return '%s == S(%s)' % (res, rows)
    if agg == 'Count':
        return '%s == C(%s)' % (res, rows)
    if agg == 'Size':
        return '%s == N(%s)' % (res, rows)
    if agg == 'Mean':
        return 'implies(C(%s) > 0, %s == S(%s) / C(%s))' % (rows, res, rows, rows)
    if agg == 'Var':
        return ('implies(C(%s) > self.ddof and C(%s) > 0, %s == (Q(%s) - S(%s) * S(%s) / C(%s)) / (C(%s) - self.ddof))'
                % (rows, rows, res, rows, rows, rows, rows, rows))


class AggBase(DfContract):
    agg = 'Sum'
    method = 'on_new'
    vector = False
    # C11: expanding() aggregations run on these same accumulators (window_accumulator with diff_expanding)
    props = ['C06', 'C07', 'C11', 'C12']
    inline = ('Var._compute_result',)

    def __init__(self):
        self.qual = '%s.%s' % (self.agg, self.method)
        self.name = '%s[%s]' % (self.qual, 'DataFrame' if self.vector else 'Series')
        DfContract.__init__(self)

    def make_agg(self, I):
        f = {}
        if self.agg == 'Var':
            d = z3.Int('ddof')
            I.st.assume(z3.Or(d == 0, d == 1))
            f['ddof'] = VInt(d)
        return I.st.new_obj(self.agg, f)


class AggInitial(AggBase):
    method = 'initial'

    def build(self, I):
        I.st = State()
        selfv = self.make_agg(I)
        new = self.frame('new')
        self.finish(I, {'self': selfv, 'new': new})
        return selfv, [new], {}

    def clauses(self):
        zero = {1: 'result == 0', 2: 'result[0] == 0 and result[1] == 0', 3: 'result[0] == 0 and result[1] == 0 and result[2] == 0'}
        return [Clause('C06.initial_state_is_neutral_whatever_the_first_batch', ['C06', 'C07', 'C12'],
                       text=zero[len(STATE[self.agg])],
                       note='the state before any row is the neutral element (it is computed from the first batch but must not depend on it)')]


class AggOnNew(AggBase):
    method = 'on_new'

    def build(self, I):
        I.st = State()
        selfv = self.make_agg(I)
        seen, new = self.frame('Seen'), self.frame('new')
        acc = state_value(self, self.agg, seen.t)
        I.st.ghost['Seen'] = seen
        self.finish(I, {'self': selfv, 'acc': acc, 'new': new})
        return selfv, [acc, new], {}

    def clauses(self):
        rows = 'rows(Seen, new)'
        st = state_text(self.agg, rows)
        return [Clause('C06.state_tracks_all_rows_seen', ['C06', 'C11', 'C12'], text='result[0] == ' + st,
                       note='state == (S, C, ...)(Seen ++ new) for every batch, including empty ones'),
                Clause('C06.value_equals_pandas_on_the_prefix', ['C06', 'C11'], text=result_clause(self.agg, rows),
                       note='the emitted value equals the pandas aggregation over the concatenation of all batches so far')]


class AggOnOld(AggBase):
    method = 'on_old'
    props = ['C07', 'C12']

    def build(self, I):
        I.st = State()
        selfv = self.make_agg(I)
        old, rest = self.frame('Old'), self.frame('Rest')
        acc = state_value(self, self.agg, z3.Concat(old.t, rest.t))
        I.st.ghost['Rest'] = rest
        self.finish(I, {'self': selfv, 'acc': acc, 'old': old, 'new': old})
        return selfv, [acc, old], {}

    def clauses(self):
        st = state_text(self.agg, 'Rest')
        return [Clause('C07.state_forgets_exactly_the_rows_that_left', ['C07', 'C12'], text='result[0] == ' + st,
                       note='state(old ++ rest) minus old == state(rest)'),
                Clause('C07.value_equals_pandas_on_the_rows_left', ['C07'], text=result_clause(self.agg, 'Rest'))]


class AccumulatorFirst(AggBase):
    """accumulator(None, new, agg): the very first batch"""
    method = 'accumulator'
    props = ['C06', 'C12']

    def __init__(self):
        AggBase.__init__(self)
        self.qual = 'accumulator'
        self.name = 'accumulator[%s, %s, first batch]' % (self.agg, 'DataFrame' if self.vector else 'Series')
        self.inline = ('Var._compute_result', self.agg + '.initial', self.agg + '.on_new')

    def build(self, I):
        I.st = State()
        agg = self.make_agg(I)
        new = self.frame('new')
        self.finish(I, {'self': agg, 'agg': agg, 'new': new})
        return None, [NONE, new], {'agg': agg}

    def clauses(self):
        return [Clause('C06.first_batch_state', ['C06', 'C12'], text='result[0] == ' + state_text(self.agg, 'new')),
                Clause('C06.first_batch_value', ['C06'], text=result_clause(self.agg, 'new')),
                Clause('C06.never_raises', ['C06', 'C07'], when='raise', text='False', kind='df_stream',
                       replay={'agg': self.agg.lower(), 'vector': self.vector},
                       note='an aggregation must not fail on any batch (an exception ends the stream: no later prefix is ever reported)')]

    def replay_input(self, I, model, outcome):
        from pyvc.decode import Decoder, seq_items
        from .df_common import f_s1, f_c1
        d = Decoder(model)
        rows = seq_items(d.ev(self.pre_args['new'].t))
        vals = []
        for r in rows:
            c = d.ev(f_c1(r))
            v = d.real(f_s1(r))
            vals.append(None if str(c) == '0' else (v if isinstance(v, int) else v[0] / v[1]))
        return {'harness': 'df_harness', 'agg': self.agg.lower(), 'vector': self.vector, 'batches': [vals, [1.0, 2.0, 4.0]]}


def _mk(base, agg, vector):
    name = '%s_%s_%s' % (base.__name__, agg, 'DF' if vector else 'S')
    return type(name, (base,), {'agg': agg, 'vector': vector})


class DfLemmas(AggBase):
    """L-NAN by induction over the rows: C(t) == 0 ==> S(t) == 0 and Q(t) == 0."""
    qual = 'Sum.on_new'
    props = ['C06', 'C07', 'C11', 'C12']

    def __init__(self):
        AggBase.__init__(self)
        self.qual = 'Sum.on_new'
        self.name = 'lemma L-NAN (induction over the rows of a batch)'

    def verify(self, index, props=None, want_models=True):
        from pyvc.contract import Result
        from .df_common import SeqRowS, f_c1
        import time
        P = z3.Const('lem_rows', SeqRowS)
        r = z3.Const('lem_row', sym.Row)
        Pp = z3.Concat(P, z3.Unit(r))
        E = z3.Empty(SeqRowS)

        def lem(t):
            return z3.Implies(C(t) == 0, z3.And(S(t) == 0, Q(t) == 0))
        goals = [('L-NAN.base', [], lem(E)), ('L-NAN.step', [lem(P), C(P) >= 0, f_c1(r) >= 0], lem(Pp))]
        res = []
        for name, assm, goal in goals:
            t0 = time.time()
            fs = list(assm) + [z3.Not(goal)]
            ax = sym._unfold_only(fs)
            s = z3.Solver()
            s.set('timeout', 10000)
            s.add(*fs)
            s.add(*ax)
            rr = s.check()
            res.append(Result('%s/%s' % (self.name, name), self.props, 'proved' if rr == z3.unsat else ('failed' if rr == z3.sat else 'unknown'),
                              'z3', time.time() - t0, path='lemma', contract=self))
        self.outcomes = []
        return res, {'paths': 0, 'seconds': 0, 'branch_checks': 0, 'outcomes': [], 'dropped': [], 'cover': []}


ALL = [DfLemmas]
for _agg in ['Sum', 'Count', 'Size', 'Mean', 'Var']:
    for _vec in (False, True):
        for _base in (AggInitial, AggOnNew, AggOnOld, AccumulatorFirst):
            _c = _mk(_base, _agg, _vec)
            globals()[_c.__name__] = _c
            ALL.append(_c)
