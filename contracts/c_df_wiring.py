"""Wiring of the streaming dataframe API (streamz/dataframe/core.py, streamz/collection.py): each public aggregation method must
hand exactly the documented aggregation, with its parameters (ddof, start, with_state, window, diff function ...), to the
accumulate machinery.  These are thin functions; the contracts run them symbolically with every callee replaced by a
*Herbrand* summary (an uninterpreted function of the callee's name, its arguments and its keyword names), and compare the
result with the term the property prescribes.  (C06 / C07 / C11: which statistic is computed; C12: start / with_state / returns_state
reach Stream.accumulate.)"""
import ast
import z3
from pyvc import sym
from pyvc.sym import (VInt, VReal, VBool, VNone, VStr, VElem, VSeq, VList, VTuple, VRef, VObj, VBuiltin, VFunc, K_ELEM)
from pyvc.state import State, Unsupported
from pyvc.contract import Contract, Clause
from pyvc.interp import NONE

DF = 'streamz/dataframe/core.py'
COLL = 'streamz/collection.py'


def _elem(I, v):
    if isinstance(v, VReal):
        sv = z3.simplify(v.t)
        if z3.is_rational_value(sv):
            return sym.str_elem('real:%s' % sv)
        raise Unsupported('symbolic real as call argument')
    if isinstance(v, VFunc):
        return sym.str_elem('function:' + v.qual)
    if isinstance(v, VBuiltin):
        return sym.str_elem('global:' + v.name)
    if isinstance(v, sym.VClass):
        return sym.str_elem('class:' + v.name)
    return I.as_elem(v)


def herbrand(I, name, recv, args, kwargs):
    """call(name, receiver, positional..., keyword values in sorted keyword order) as one opaque datum"""
    items = []
    if recv is not None:
        items.append(_elem(I, recv))
    for a in args:
        if isinstance(a, tuple):
            raise Unsupported('star-args into a recorded call')
        items.append(_elem(I, a))
    kws = sorted(k for k in kwargs if k != '**')
    for k in kws:
        items.append(_elem(I, kwargs[k]))
    if '**' in kwargs:
        items.append(_elem(I, kwargs['**']))
        kws.append('**')
    fname = 'call:%s(%d|%s)' % (name, len(items) - len(kws), ','.join(kws))
    if not items:
        return VElem(sym.str_elem(fname))
    return VElem(sym.user_func(fname, len(items))(*items))


def canonical(I, qual, args, kwargs):
    """positional arguments of a call to a repository function are renamed to keyword arguments after the callee's signature, so
    that f(a, b) and f(a, y=b) are the same Herbrand term (passing an argument by position or by keyword is not a change)"""
    try:
        rel, node = I.index.function(qual)
    except KeyError:
        return list(args), dict(kwargs)
    params = [p.arg for p in node.args.posonlyargs + node.args.args]
    if params and params[0] in ('self', 'cls'):
        params = params[1:]
    if len(args) > len(params) or any(isinstance(a, tuple) for a in args):
        return list(args), dict(kwargs)
    kw = dict(kwargs)
    for p, a in zip(params, args):
        if p in kw:
            return list(args), dict(kwargs)
        kw[p] = a
    # defaults that are spelled out explicitly equal to the default are NOT normalised away (kept as given)
    return [], kw


class Wire(Contract):
    """cls.method run with symbolic parameters and self-fields; `expect` is the prescribed result term (specification text)."""
    file = DF
    files = [DF, COLL]
    cls = None
    method = None
    fields = ()          # names of self attributes (opaque values)
    ref_fields = ()      # self attributes that are objects with methods (e.g. root)
    params = ()          # parameter names (opaque values)
    expect = None
    is_property = False
    props = ['C06']
    extra_clauses = ()
    assumptions = ('callees of the API methods (aggregation constructors, accumulate_partitions, Stream.accumulate, _accumulate ...) are '
                   'summarised as uninterpreted functions of their name, arguments and keyword names: the contract fixes WHICH '
                   'callee gets WHICH arguments, the callees have their own contracts / bounded checks',)

    def __init__(self):
        self.qual = '%s.%s' % (self.cls, self.method)
        self.name = getattr(self, 'name', None) or self.qual
        Contract.__init__(self)

    def build(self, I):
        st = State()
        I.st = st
        f = {n: VElem(z3.Const('self_' + n, sym.Elem)) for n in self.fields}
        for n in self.ref_fields:
            f[n] = VRef(z3.Const('self_' + n, sym.Obj), 'Streaming')
        f.update(self.concrete_fields())
        selfv = st.new_obj(self.cls, f)
        args = {p: VElem(z3.Const('arg_' + p, sym.Elem)) for p in self.params}
        self.pre_args = dict(args, self=selfv)
        self.pre_state = st.snapshot()
        st.ghost['_pre'] = (self.pre_state, self.pre_args)
        I.contract_pre = self.pre_state
        I.contract_pre_frame = self.pre_frame(I)
        return selfv, [], dict(args)

    def concrete_fields(self):
        # Streaming.map_partitions = staticmethod(map_partitions): a class attribute, not a method definition
        return {'map_partitions': VBuiltin('map_partitions')} if self.cls in ('BaseFrame', 'Frame', 'Series', 'DataFrame') else {}

    def globals(self):
        return {'aggregations': VBuiltin('aggregations'), 'core': VBuiltin('core'), 'np': VBuiltin('np'), 'pd': VBuiltin('pd'),
                'M': VBuiltin('M'), '_cumulative_accumulator': VBuiltin('_cumulative_accumulator')}

    def spec_funcs(self):
        def call_default(I, kind, name, recv, args, kwargs):
            if kind == 'function':
                # a method of the class under contract: recorded under its simple name, the receiver is part of the term
                args, kwargs = canonical(I, name, args, kwargs)
                name = 'self.' + name.split('.')[-1]
            elif kind == 'method':
                name = '.' + name.split('.')[-1]
            elif kind == 'constructor':
                pass
            return herbrand(I, name, recv, args, kwargs)

        def binop_default(I, op, a, b):
            return VElem(sym.user_func('op:' + type(op).__name__, 2)(_elem(I, a), _elem(I, b)))

        def call_(I, name, *args, **kwargs):
            n = name.s
            recv = None
            if n.startswith('self.') or n.startswith('.'):
                recv, args = args[0], args[1:]
            args = list(args)
            if n.startswith('self.'):
                m = I.index.find_method(self.cls, n[5:])
                if m is not None:
                    args, kwargs = canonical(I, m[0], args, kwargs)
            return herbrand(I, n, recv, args, kwargs)

        def op_(I, opname, a, b):
            return VElem(sym.user_func('op:' + opname.s, 2)(_elem(I, a), _elem(I, b)))

        def glob(I, name):
            return VBuiltin(name.s)

        def map_partitions(I, args, kwargs, fr):
            return herbrand(I, 'map_partitions', None, list(args), kwargs)

        def attr_(I, v, name):
            return VElem(sym.user_func('attr:' + name.s, 1)(_elem(I, v)))

        def attr_default(I, v, name):
            return VElem(sym.user_func('attr:' + name, 1)(_elem(I, v)))

        def type_default(I, v):
            # type(self): the concrete class of the receiver (a subclass such as Expanding must survive re-wrapping)
            if isinstance(v, VObj) and v.loc == self.pre_args['self'].loc:
                return sym.VClass('type(self)')
            return None
        return {'call_default': call_default, 'binop_default': binop_default, 'call': call_, 'op': op_, 'glob': glob,
                'type_default': type_default, 'attr': attr_, 'builtin_map_partitions': map_partitions}

    def unit(self, I, index):
        m = index.find_method(self.cls, self.method)       # the method the class resolves to (may be inherited)
        if m is None:
            raise KeyError('locator does not resolve: %s' % self.qual)
        self.qual_resolved, node = m
        f = VFunc(self.qual_resolved, node, bound=None)

        def run(I):
            recv, args, kwargs = self.build(I)
            self.requires(I, recv)
            f.bound = recv
            frames = []
            v = I.run_function(f, [], {} if self.is_property else kwargs, frame_out=frames)
            return v, frames[0]
        return run

    def requires(self, I, selfv):
        pass

    def clauses(self):
        return [Clause('%s.%s_is_wired_as_documented' % (self.props[0], self.method), list(self.props), when='return',
                       text='result == ' + self.expect),
                Clause('%s.%s_does_not_fail' % (self.props[0], self.method), list(self.props), when='raise', text='False')
                ] + list(self.extra_clauses)


def agg(name, **kw):
    return "call('aggregations.%s'%s)" % (name, ''.join(', %s=%s' % (k, v) for k, v in kw.items()))


def W(cls_, method_, expect_, params_=(), fields_=(), ref_fields_=(), props_=('C06',), prop=False, name_=None, concrete=None, notnone=()):
    d = {'cls': cls_, 'method': method_, 'expect': expect_, 'params': tuple(params_), 'fields': tuple(fields_),
         'ref_fields': tuple(ref_fields_), 'props': list(props_), 'is_property': prop}
    if name_:
        d['name'] = name_
    if concrete is not None:
        d['concrete_fields'] = lambda self: dict(concrete)
    if notnone:
        def requires(self, I, selfv):
            for n in notnone:
                I.st.assume(I.st.heap[selfv.loc].fields[n].t != sym.c_none_elem)
        d['requires'] = requires
    return type('Wire_%s_%s%s' % (cls_, method_, ('_' + name_.split('[')[-1].strip(']').replace(' ', '_').replace('=', '_')) if name_ else ''), (Wire,), d)


ALL = [
    # ---- Frame: whole-stream reductions (C06; start reaches the accumulator: C12)
    W('Frame', 'sum', "call('self.aggregate', self, %s, start)" % agg('Sum'), ['start'], props_=('C06', 'C12')),
    W('Frame', 'count', "call('self.aggregate', self, %s, start)" % agg('Count'), ['start'], props_=('C06', 'C12')),
    W('Frame', 'mean', "call('self.aggregate', self, %s, start)" % agg('Mean'), ['start'], props_=('C06', 'C12')),
    W('Frame', 'size', "call('self.aggregate', self, %s)" % agg('Size'), prop=True),
    W('Frame', 'aggregate', "call('self.accumulate_partitions', self, glob('aggregations.accumulator'), agg=aggregation, start=start, "
                            "stream_type='updating', returns_state=True)", ['aggregation', 'start'], props_=('C06', 'C12')),
    # ---- Window (C07): which aggregation, ddof, and the window parameters
    W('Window', 'sum', "call('self.aggregate', self, %s)" % agg('Sum'), props_=('C07',)),
    W('Window', 'count', "call('self.aggregate', self, %s)" % agg('Count'), props_=('C07',)),
    W('Window', 'mean', "call('self.aggregate', self, %s)" % agg('Mean'), props_=('C07',)),
    W('Window', 'var', "call('self.aggregate', self, %s)" % agg('Var', ddof='ddof'), ['ddof'], props_=('C07',)),
    W('Window', 'std', "op('Pow', call('self.var', self, ddof=ddof), 0.5)", ['ddof'], props_=('C07',)),
    W('Window', 'size', "call('self.aggregate', self, %s)" % agg('Size'), props_=('C07',), prop=True),
    W('Window', 'value_counts', "call('self.aggregate', self, %s)" % agg('ValueCounts'), props_=('C07',)),
    W('Window', 'full', "call('self.aggregate', self, %s)" % agg('Full'), props_=('C07',)),
    W('Window', 'aggregate', "call('.accumulate_partitions', self.root, glob('aggregations.window_accumulator'), diff=glob('aggregations.diff_iloc'), "
                             "window=self.n, agg=agg, start=self.start, returns_state=True, stream_type='updating', with_state=self.with_state)",
      ['agg'], ['n', 'value', 'start', 'with_state'], ['root'], props_=('C07', 'C12'), name_='Window.aggregate[n given]', notnone=['n']),
    W('Window', 'aggregate', "call('.accumulate_partitions', self.root, glob('aggregations.window_accumulator'), diff=glob('aggregations.diff_loc'), "
                             "window=self.value, agg=agg, start=self.start, returns_state=True, stream_type='updating', with_state=self.with_state)",
      ['agg'], ['value', 'start', 'with_state'], ['root'], props_=('C07', 'C12'), name_='Window.aggregate[value given]',
      concrete={'n': NONE}, notnone=['value']),
    W('Window', 'groupby', "call('WindowedGroupBy', self.root, other, None, self.n, self.value, self.with_state, self.start)",
      ['other'], ['n', 'value', 'start', 'with_state'], ['root'], props_=('C07', 'C12')),
    # ---- GroupBy (C06)
    W('GroupBy', 'count', "call('self._accumulate', self, glob('aggregations.GroupbyCount'), start=start)", ['start'], props_=('C06', 'C12')),
    W('GroupBy', 'sum', "call('self._accumulate', self, glob('aggregations.GroupbySum'), start=start)", ['start'], props_=('C06', 'C12')),
    W('GroupBy', 'mean', "call('self._accumulate', self, glob('aggregations.GroupbyMean'), with_state=with_state, start=start)",
      ['with_state', 'start'], props_=('C06', 'C12')),
    W('GroupBy', 'size', "call('self._accumulate', self, glob('aggregations.GroupbySize'))"),
    W('GroupBy', 'var', "call('self._accumulate', self, glob('aggregations.GroupbyVar'), ddof=ddof)", ['ddof']),
    W('GroupBy', 'std', "op('Pow', call('self.var', self, ddof=ddof), 0.5)", ['ddof']),
    # the windowed variants inherit these methods: the same contracts hold for WindowedGroupBy (C07)
    W('WindowedGroupBy', 'var', "call('self._accumulate', self, glob('aggregations.GroupbyVar'), ddof=ddof)", ['ddof'], props_=('C07',)),
    W('WindowedGroupBy', 'std', "op('Pow', call('self.var', self, ddof=ddof), 0.5)", ['ddof'], props_=('C07',)),
    W('WindowedGroupBy', 'mean', "call('self._accumulate', self, glob('aggregations.GroupbyMean'), with_state=with_state, start=start)",
      ['with_state', 'start'], props_=('C07',)),
    W('WindowedGroupBy', 'sum', "call('self._accumulate', self, glob('aggregations.GroupbySum'), start=start)", ['start'], props_=('C07',)),
    W('WindowedGroupBy', 'count', "call('self._accumulate', self, glob('aggregations.GroupbyCount'), start=start)", ['start'], props_=('C07',)),
    W('WindowedGroupBy', 'size', "call('self._accumulate', self, glob('aggregations.GroupbySize'))", props_=('C07',)),
]

for _C in ALL:
    assert _C.__name__ not in globals(), _C.__name__
    globals()[_C.__name__] = _C


# ---- re-wrapping of a window (column selection, elementwise operations): every window parameter, the resume state and the
# concrete window class survive (C07: n / value; C11: the class (Expanding, EWM); C12: start / with_state)
_REWRAP = ("call('type(self)', %s, n=self.n, value=self.value, with_state=self.with_state, start=self.start)")
ALL += [
    W('Window', '__getitem__', _REWRAP % "call('.__getitem__', self.root, key)", ['key'], ['n', 'value', 'start', 'with_state'], ['root'],
      props_=('C07', 'C11', 'C12')),
    W('Window', 'map_partitions', _REWRAP % "call('.map_partitions', self.root, func, **kwargs)", ['func'], ['n', 'value', 'start', 'with_state'], ['root'],
      props_=('C07', 'C11', 'C12'), name_='Window.map_partitions[no further positional operands]'),
]
for _C in ALL[-2:]:
    assert _C.__name__ not in globals(), _C.__name__
    globals()[_C.__name__] = _C


# ---- the remaining thin wrappers: every parameter the caller gives reaches the pandas method / the accumulator it is meant for
# (C06: elementwise operations and reductions; C07 / C11: window and rolling parameters; C12: start / with_state)
_MORE = [
    W('BaseFrame', 'round', "call('map_partitions', glob('M.round'), self, decimals=decimals)", ['decimals']),
    W('BaseFrame', 'reset_index', "call('map_partitions', glob('M.reset_index'), self)"),
    W('BaseFrame', 'tail', "call('map_partitions', glob('M.tail'), self, n=n)", ['n']),
    W('BaseFrame', 'astype', "call('map_partitions', glob('M.astype'), self, dt)", ['dt']),
    W('BaseFrame', 'map', "call('map_partitions', glob('_subtype.map'), self, func, na_action=na_action)",
      ['func', 'na_action'], concrete={'_subtype': VBuiltin('_subtype'), 'map_partitions': VBuiltin('map_partitions')}),
    W('Frame', 'groupby', "call('GroupBy', self, other)", ['other']),
    W('Frame', 'rolling', "call('Rolling', self, window, min_periods, with_state, start)", ['window', 'min_periods', 'with_state', 'start'],
      props_=('C11', 'C12')),
    W('Frame', 'window', "call('Window', self, n=n, value=value, with_state=with_state, start=start)", ['n', 'value', 'with_state', 'start'],
      props_=('C07', 'C12')),
    W('Frame', 'expanding', "call('Expanding', self, n=1, with_state=with_state, start=start)", ['with_state', 'start'],
      props_=('C11', 'C12')),
    W('Frame', 'ewm', "call('EWM', self, n=1, com=com, span=span, halflife=halflife, alpha=alpha, with_state=with_state, start=start)",
      ['com', 'span', 'halflife', 'alpha', 'with_state', 'start'], props_=('C11', 'C12')),
    W('Frame', '_cumulative_aggregation', "call('self.accumulate_partitions', self, glob('_cumulative_accumulator'), returns_state=True, "
                                          "start=(), op=op)", ['op'], props_=('C11',)),
    W('Frame', 'cumsum', "call('self._cumulative_aggregation', self, op='cumsum')", props_=('C11',)),
    W('Frame', 'cumprod', "call('self._cumulative_aggregation', self, op='cumprod')", props_=('C11',)),
    W('Frame', 'cummin', "call('self._cumulative_aggregation', self, op='cummin')", props_=('C11',)),
    W('Frame', 'cummax', "call('self._cumulative_aggregation', self, op='cummax')", props_=('C11',)),
    W('Series', 'value_counts', "call('self.accumulate_partitions', self, glob('aggregations.accumulator'), agg=%s, start=None, "
                                "stream_type='updating', returns_state=True)" % agg('ValueCounts')),
    W('Rolling', '__getitem__', "call('Rolling', call('.__getitem__', self.root, key), self.window, self.min_periods, self.with_state, self.start)",
      ['key'], ['window', 'min_periods', 'with_state', 'start'], ['root'], props_=('C11', 'C12')),
    W('Rolling', 'sum', "call('self._known_aggregation', self, 'sum')", props_=('C11',)),
    W('Rolling', 'mean', "call('self._known_aggregation', self, 'mean')", props_=('C11',)),
    W('Rolling', 'min', "call('self._known_aggregation', self, 'min')", props_=('C11',)),
    W('Rolling', 'max', "call('self._known_aggregation', self, 'max')", props_=('C11',)),
    W('Rolling', 'median', "call('self._known_aggregation', self, 'median')", props_=('C11',)),
]
for _C in _MORE:
    assert _C.__name__ not in globals(), _C.__name__
    globals()[_C.__name__] = _C
ALL += _MORE


# ---- round 7: re-wrapping of an exponentially weighted window, and column access of a streaming dataframe
_EWM_REWRAP = ("call('type(self)', call('.__getitem__', self.root, key), n=self.n, value=self.value, with_state=self.with_state, "
               "start=self.start, com=self.com, span=self.span, halflife=self.halflife, alpha=self.alpha)")


class _WireGetattr(Wire):
    """sdf.<column>: every access builds the selection from the frame AS IT IS NOW (sdf[...] = ... rebinds the stream of the
    frame in place, so a selection handed out earlier describes the frame before the assignment)"""
    def clauses(self):
        return [Clause('C06.column_access_selects_from_the_current_frame', ['C06'], when='return', text='result == ' + self.expect,
                       note='no cached accessor: the result is built from self at the time of the access'),
                Clause('C06.unknown_attribute_is_an_AttributeError', ['C06'], when='raise', fn=lambda self_, I, o, fr: z3.BoolVal(o.value.cls == 'AttributeError'))]


_R7 = [
    W('EWM', '__getitem__', _EWM_REWRAP, ['key'], ['n', 'value', 'start', 'with_state', 'com', 'span', 'halflife', 'alpha', '_com'], ['root'],
      props_=('C11', 'C12')),
    W('_DataFrameMixin', '__getitem__', "call('map_partitions', glob('operator.getitem'), self, index)", ['index'],
      concrete={'map_partitions': VBuiltin('map_partitions')}),
]
_g = W('_DataFrameMixin', '__getattr__', "call('map_partitions', glob('getattr'), self, key)", ['key'],
       concrete={'map_partitions': VBuiltin('map_partitions'), 'columns': sym.VSeq(z3.Const('frame_columns', sym.SeqElemS), sym.K_ELEM)})
_g = type(_g.__name__, (_WireGetattr,), {k: v for k, v in vars(_g).items() if not k.startswith('__') or k in ('__doc__',)})
_R7.append(_g)
for _C in _R7:
    assert _C.__name__ not in globals(), _C.__name__
    globals()[_C.__name__] = _C
ALL += _R7


# ---- round 8 (audit of functions without a contract): the remaining thin wrappers of the rolling / ewm / group-by API
_R8 = [
    W('Rolling', 'std', "call('self._known_aggregation', self, 'std')", props_=('C11',)),
    W('Rolling', 'var', "call('self._known_aggregation', self, 'var')", props_=('C11',)),
    W('Rolling', 'count', "call('self._known_aggregation', self, 'count')", props_=('C11',)),
    W('EWM', 'mean', "call('self.aggregate', self, call('aggregations.EWMean', self._com))", (), ['_com'], props_=('C11', 'C12')),
    W('GroupBy', '__getitem__', "call('GroupBy', self.root, self.grouper, index)", ['index'], ['grouper'], ['root']),
    W('WindowedGroupBy', '__getitem__', "call('WindowedGroupBy', self.root, self.grouper, index, self.n, self.value, self.with_state, self.start)",
      ['index'], ['grouper', 'n', 'value', 'with_state', 'start'], ['root'], props_=('C07', 'C12')),
]
for _C in _R8:
    assert _C.__name__ not in globals(), _C.__name__
    globals()[_C.__name__] = _C
ALL += _R8
