"""Syntactic frame obligations over the node classes (streamz/core.py, streamz/sinks.py).

The step / segment contracts prove that each contracted method preserves the invariant of its node *from a pre-state satisfying it*.
That carries over to every history (lemma L-TRACE) only if nothing else writes the state the invariants speak about.  Two
side conditions of that argument are checked here on the current source text, for every class that has a contract:

  F1  the data fields of a node (the fields its contracts declare as `data_fields`, plus the fields the constructor contract
      pins down) are assigned / mutated only by `__init__` and by methods that are themselves under contract.  A new method that
      resets `self.next`, an override of `start()` that clears a buffer, ... is a write the invariants know nothing about.
  F2  no constructor of a node class has a mutable default argument (`cache=deque()`, `buffer=[]`): the default is evaluated
      once, so every node built without that argument would share ONE container with all the others.
"""
import ast
import importlib
import time
from pyvc.contract import Contract, Result

CORE = 'streamz/core.py'
SINKS = 'streamz/sinks.py'
MODULES = ['contracts.c_nodes_simple', 'contracts.c_nodes_buffered', 'contracts.c_nodes_keyed', 'contracts.c_async',
           'contracts.c_nodes_combine', 'contracts.c_topology', 'contracts.c_init', 'contracts.c_emit']
MUTATORS = {'append', 'appendleft', 'extend', 'extendleft', 'insert', 'pop', 'popleft', 'popitem', 'clear', 'remove', 'update', 'add',
            'discard', 'setdefault', 'put', 'put_nowait', 'get_nowait', 'sort', 'reverse', 'rotate'}


def contracted():
    """class name -> (set of contracted method names, set of data fields)"""
    out = {}
    for m in MODULES:
        mod = importlib.import_module(m)
        for C in mod.ALL:
            cls = getattr(C, 'cls', None)
            if not cls:
                q = getattr(C, 'qual', '') or ''
                if '.' in q:
                    cls = q.split('.')[0]
            if not cls:
                continue
            meths, fields = out.setdefault(cls, (set(), set()))
            meth = getattr(C, 'method', None) or (getattr(C, 'qual', '') or '').split('.')[-1]
            if meth:
                meths.add(meth)
            for i in getattr(C, 'inline', ()) or ():
                if i.startswith(cls + '.'):
                    meths.add(i.split('.', 1)[1])
            fields.update(getattr(C, 'data_fields', ()) or ())
            if m == 'contracts.c_init':
                fields.update((getattr(C, 'fields', {}) or {}).keys())
    return out


def writes_of(fn):
    """names of self.<field> that the function assigns, deletes, augments or mutates through a container method"""
    out = {}

    def field_of(node):
        # self.f, self.f[...], self.f[...][...]
        while isinstance(node, ast.Subscript):
            node = node.value
        if isinstance(node, ast.Attribute) and isinstance(node.value, ast.Name) and node.value.id == 'self':
            return node.attr
        return None
    for n in ast.walk(fn):
        targets = []
        if isinstance(n, ast.Assign):
            targets = n.targets
        elif isinstance(n, (ast.AugAssign, ast.AnnAssign)):
            targets = [n.target]
        elif isinstance(n, ast.Delete):
            targets = n.targets
        for t in targets:
            for el in (t.elts if isinstance(t, (ast.Tuple, ast.List)) else [t]):
                f = field_of(el)
                if f:
                    out.setdefault(f, n.lineno)
        if isinstance(n, ast.Call) and isinstance(n.func, ast.Attribute) and n.func.attr in MUTATORS:
            f = field_of(n.func.value)
            if f:
                out.setdefault(f, n.lineno)
    return out


class NodeFrames(Contract):
    file = CORE
    files = [CORE, SINKS]
    qual = 'Stream.__init__'
    name = 'frame of the node state'
    props = ['C01', 'C02', 'C05', 'C08', 'C10', 'C13', 'C14', 'C15']

    def verify(self, index, props=None, want_models=True):
        t0 = time.time()
        res = []
        con = contracted()
        classes = {}
        for rel in (CORE, SINKS):
            src, tree = index.files[rel]
            for n in tree.body:
                if isinstance(n, ast.ClassDef):
                    classes.setdefault(n.name, n)
        checked = 0
        for cls, (meths, fields) in sorted(con.items()):
            node = classes.get(cls)
            if node is None or not fields:
                continue
            checked += 1
            bad = []
            for m in node.body:
                if not isinstance(m, (ast.FunctionDef, ast.AsyncFunctionDef)) or m.name == '__init__' or m.name in meths:
                    continue
                for f, line in writes_of(m).items():
                    if f in fields:
                        bad.append('%s.%s writes self.%s (line %d)' % (cls, m.name, f, line))
            res.append(Result('%s/F1.%s_state_is_written_only_by_methods_under_contract' % (self.name, cls), self.props,
                              'proved' if not bad else 'failed', 'syntactic', time.time() - t0, path='ast', contract=self,
                              detail='; '.join(bad)))
        res.append(Result(self.name + '/F1.classes_checked', self.props, 'proved' if checked >= 10 else 'failed', 'syntactic',
                          time.time() - t0, path='ast', contract=self, detail='' if checked >= 10 else 'only %d classes with declared state' % checked))
        # F2: mutable defaults of constructors of Stream subclasses (any class of the two files that defines update or __init__)
        bad = []
        n_ctor = 0
        for cls, node in sorted(classes.items()):
            for m in node.body:
                if isinstance(m, ast.FunctionDef) and m.name == '__init__':
                    n_ctor += 1
                    for d in list(m.args.defaults) + [d for d in m.args.kw_defaults if d is not None]:
                        mutable = isinstance(d, (ast.List, ast.Dict, ast.Set, ast.ListComp, ast.DictComp, ast.SetComp)) or (
                            isinstance(d, ast.Call) and isinstance(d.func, ast.Name)
                            and d.func.id in ('deque', 'list', 'dict', 'set', 'defaultdict', 'OrderedDict', 'OrderedWeakrefSet', 'Queue'))
                        if mutable:
                            bad.append('%s.__init__ has the mutable default %s (line %d)' % (cls, ast.unparse(d), d.lineno))
        res.append(Result(self.name + '/F2.no_constructor_shares_a_mutable_default_between_nodes', self.props,
                          'proved' if not bad and n_ctor >= 10 else 'failed', 'syntactic', time.time() - t0, path='ast', contract=self,
                          detail='; '.join(bad) if bad else ('' if n_ctor >= 10 else 'only %d constructors found' % n_ctor)))
        self.outcomes = []
        return res, {'paths': 0, 'seconds': 0, 'branch_checks': 0, 'outcomes': [], 'dropped': [], 'cover': []}


ALL = [NodeFrames]


class NoClosureOverLoopVariable(Contract):
    """Syntactic obligation on streamz/sources.py and streamz/core.py: a closure created inside a `for` loop (lambda or nested def)
    must not refer to the loop variable as a free variable -- Python binds it late, so every closure created by the loop sees the
    value of the LAST iteration when it finally runs.  For the Kafka source this is the completion callback of a batch
    (`RefCounter(cb=lambda: commit(part))` inside `for part in out:` would commit some other batch's offset).  Passing the value as an
    argument (`loop.add_callback(checkpoint_emit, part)`), as a default (`lambda p=part: ...`) or through functools.partial is fine."""
    file = 'streamz/sources.py'
    files = ['streamz/sources.py', CORE]
    qual = 'FromKafkaBatched.poll_kafka'
    name = 'no closure over a loop variable'
    props = ['C09']

    def verify(self, index, props=None, want_models=True):
        t0 = time.time()
        bad = []
        n_loops = 0
        for rel in self.files:
            src, tree = index.files[rel]
            for loop in [n for n in ast.walk(tree) if isinstance(n, (ast.For, ast.AsyncFor))]:
                n_loops += 1
                targets = set(n.id for n in ast.walk(loop.target) if isinstance(n, ast.Name))
                for node in loop.body:
                    for c in ast.walk(node):
                        if isinstance(c, (ast.Lambda, ast.FunctionDef, ast.AsyncFunctionDef)):
                            a = c.args
                            params = set(x.arg for x in a.args + a.kwonlyargs + getattr(a, 'posonlyargs', [])) | \
                                set(x.arg for x in (a.vararg, a.kwarg) if x is not None)
                            body = c.body if isinstance(c.body, list) else [c.body]
                            assigned = set(n.id for b in body for n in ast.walk(b) if isinstance(n, ast.Name) and isinstance(n.ctx, ast.Store))
                            free = set(n.id for b in body for n in ast.walk(b) if isinstance(n, ast.Name) and isinstance(n.ctx, ast.Load))
                            hit = (free & targets) - params - assigned
                            if hit:
                                bad.append('%s line %d: closure refers to the loop variable %s' % (rel, c.lineno, ', '.join(sorted(hit))))
        res = [Result(self.name + '/C09.completion_callbacks_bind_their_batch_when_they_are_created', self.props,
                      'proved' if not bad and n_loops > 10 else 'failed', 'syntactic', time.time() - t0, path='ast', contract=self,
                      detail='; '.join(bad) if bad else ('' if n_loops > 10 else 'only %d loops found' % n_loops))]
        self.outcomes = []
        return res, {'paths': 0, 'seconds': 0, 'branch_checks': 0, 'outcomes': [], 'dropped': [], 'cover': []}


ALL += [NoClosureOverLoopVariable]
