"""Step contracts of the combining nodes: combine_latest, zip_latest, zip (streamz/core.py)."""
import z3
from pyvc import sym
from pyvc.sym import (VInt, VBool, VNone, VStr, VElem, VSeq, VList, VTuple, VRef, VCallable, VAw,
                      K_ELEM, K_MDE, K_MD, K_AW, K_INT, K_OBJ, K_OBJS)
from pyvc.state import ListCell, DictCell, SetCell, PyRaise
from pyvc.contract import Clause
from pyvc.interp import NONE
from pyvc.loops import LoopSpec
from .core_common import NodeUpdate, R
from .c_nodes_simple import downstream_raise_clauses

ObjBoolArr = z3.ArraySort(sym.Obj, z3.BoolSort())


class IndexedInputs:
    """Pre-state shared by combine_latest / zip_latest: upstreams U (distinct), `who` at index idx;
    last == Lp ++ [l_old] ++ Ls,  metadata == Mp ++ [m_old] ++ Ms  with len(Lp) == len(Mp) == idx."""

    def declare_inputs(self, I, first_is_who=None):
        U = z3.Const('U', sym.SeqObjS)
        Up = z3.Const('Up', sym.SeqObjS)
        Us = z3.Const('Us', sym.SeqObjS)
        who = z3.Const('who', sym.Obj)
        st = I.st
        st.assume(U == z3.Concat(Up, z3.Unit(who), Us))
        st.assume(z3.Not(z3.Contains(Up, z3.Unit(who))))
        st.assume(z3.Not(z3.Contains(Us, z3.Unit(who))))
        idx = z3.Length(Up)
        L0 = z3.Const('last0', sym.SeqElemS)
        Lp, Ls = z3.Const('Lp', sym.SeqElemS), z3.Const('Ls', sym.SeqElemS)
        l_old = z3.Const('l_old', sym.Elem)
        M0 = z3.Const('mdl0', sym.SeqSeqMdS)
        Mp, Ms = z3.Const('Mp', sym.SeqSeqMdS), z3.Const('Ms', sym.SeqSeqMdS)
        m_old = z3.Const('m_old', sym.SeqMdS)
        st.assume(L0 == z3.Concat(Lp, z3.Unit(l_old), Ls))
        st.assume(M0 == z3.Concat(Mp, z3.Unit(m_old), Ms))
        st.assume(z3.Length(Lp) == idx)
        st.assume(z3.Length(Mp) == idx)
        st.assume(z3.Length(L0) == z3.Length(U))
        st.assume(z3.Length(M0) == z3.Length(U))
        last = st.new_list(L0, K_ELEM)
        mdl = st.new_list(M0, K_MD)
        g = st.ghost
        # the code computes idx as upstreams.index(who) = IndexOf(U, [who]); equal to len(Up) because who is not in Up
        io = z3.IndexOf(U, z3.Unit(who), 0)
        st.assume(io == idx)
        g['_index_hints'] = [(L0, io, Lp, l_old, Ls), (M0, io, Mp, m_old, Ms)]
        for n, v in (('Lp', VSeq(Lp, K_ELEM)), ('Ls', VSeq(Ls, K_ELEM)), ('Mp', VSeq(Mp, K_MD)), ('Ms', VSeq(Ms, K_MD)),
                     ('m_old', VSeq(m_old, K_MDE)), ('l_old', VElem(l_old))):
            g[n] = v
        missing = z3.Const('missing0', ObjBoolArr)
        card = z3.Int('missing_card0')
        st.assume(card >= 0)
        any_o = z3.Const('any_o', sym.Obj)
        # only the cardinality and the membership of `who` matter to update()
        st.assume(z3.Implies(z3.Select(missing, who), card >= 1))
        mset = st.new_set(SetCell(missing, K_OBJ, card))
        g['who_missing'] = VBool(z3.Select(missing, who))
        g['card0'] = VInt(card)
        self._io = (U, who, idx)
        return {'upstreams': st.new_list(U, K_OBJ), 'last': last, 'metadata': mdl, 'missing': mset}

    def call_args(self, I):
        x = VElem(z3.Const('x', sym.Elem))
        md = VSeq(z3.Const('md', sym.SeqMdS), K_MDE)
        who = VRef(z3.Const('who', sym.Obj), 'Stream')
        return x, who, md


# --------------------------------------------------------------------------- combine_latest
class CombineLatestUpdate(IndexedInputs, NodeUpdate):
    cls = 'combine_latest'
    props = ['C01', 'C03', 'C04', 'C05', 'C10', 'C15']
    data_fields = ('last',)
    held_text = 'occ(list(self.metadata))'
    assumptions = ('inputs that have not delivered yet have no metadata entry (None is modelled as the empty list)',
                   'missing is the set of inputs that have not delivered; its cardinality is tracked symbolically')

    def make_self(self, I):
        f = self.declare_inputs(I)
        E = z3.Const('emit_on0', sym.SeqObjS)
        f['emit_on'] = VSeq(E, K_OBJ, 'tuple')
        return f

    def clauses(self):
        all_seen = '(card0 == 0 or (card0 == 1 and who_missing))'
        emits = '(%s and who in self.emit_on)' % all_seen
        return [
            Clause('C01.remembers_latest_per_input', ['C01', 'C15'], text='list(self.last) == Lp + [x] + Ls'),
            Clause('C01.emits_tuple_of_latest_when_all_seen_and_emit_on', ['C01'],
                   text='emitted == ([tup(Lp + [x] + Ls)] if %s else [])' % emits,
                   note='an arrival emits the tuple of the latest values iff every input has delivered and the input is in emit_on'),
            Clause('C10.metadata_of_all_current_values_in_input_order', ['C10'],
                   text='emitted_md == ([flat(Mp + [metadata] + Ms)] if %s else [])' % emits),
            Clause('C10.metadata_slot_replaced', ['C10', 'C05'], text='list(self.metadata) == Mp + [metadata] + Ms'),
            Clause('C03.returns_emit_result', ['C03'], text='implies(%s, result == emit_rets[0])' % emits),
            Clause('C01.missing_updated', ['C01', 'C15'], text='len(self.missing) == (card0 - 1 if who_missing else card0)'),
        ] + self.standard_clauses() + downstream_raise_clauses(self)


ALL = [CombineLatestUpdate]


# --------------------------------------------------------------------------- zip_latest
zl_out = sym.SpecFun('zl_out', [sym.SeqElemS], sym.SeqElemS, sym.SeqElemS,
                     zero=lambda rest: z3.Empty(sym.SeqElemS),
                     one=lambda rest, p: z3.Unit(sym.f_tup(z3.Concat(z3.Unit(sym.f_mdpair_x(p)), rest))),
                     plus=lambda a, b: z3.Concat(a, b))
zl_md = sym.SpecFun('zl_md', [sym.SeqMdS], sym.SeqElemS, sym.SeqSeqMdS,
                    zero=lambda rest: z3.Empty(sym.SeqSeqMdS),
                    one=lambda rest, p: z3.Unit(z3.Concat(sym.f_mdpair_md(p), rest)),
                    plus=lambda a, b: z3.Concat(a, b))


class ZipLatestUpdate(IndexedInputs, NodeUpdate):
    cls = 'zip_latest'
    props = ['C01', 'C03', 'C04', 'C05', 'C10']
    data_fields = ()
    held_text = 'occ(mds_of(list(self.lossless_buffer))) + occ(list(self.metadata)) - occ(self.metadata[0])'
    assumptions = ('the lossless input is upstreams[0] (constructor); inputs are pairwise distinct',
                   'inputs that have not delivered yet have no metadata entry (None is modelled as the empty list)')

    def make_self(self, I):
        f = self.declare_inputs(I)
        st = I.st
        U, who, idx = self._io
        lossless = z3.Const('lossless', sym.Obj)
        Urest = z3.Const('Urest', sym.SeqObjS)
        st.assume(U == z3.Concat(z3.Unit(lossless), Urest))
        st.assume((who == lossless) == (idx == 0))
        L0, M0 = z3.Const('last0', sym.SeqElemS), z3.Const('mdl0', sym.SeqSeqMdS)
        l0, Lrest0 = z3.Const('l0', sym.Elem), z3.Const('Lrest0', sym.SeqElemS)
        m0, Mrest0 = z3.Const('m0', sym.SeqMdS), z3.Const('Mrest0', sym.SeqSeqMdS)
        Lp1, Mp1 = z3.Const('Lp1', sym.SeqElemS), z3.Const('Mp1', sym.SeqSeqMdS)
        st.assume(L0 == z3.Concat(z3.Unit(l0), Lrest0))
        st.assume(M0 == z3.Concat(z3.Unit(m0), Mrest0))
        st.assume(z3.Implies(idx > 0, z3.And(z3.Const('Lp', sym.SeqElemS) == z3.Concat(z3.Unit(l0), Lp1),
                                             z3.Const('Mp', sym.SeqSeqMdS) == z3.Concat(z3.Unit(m0), Mp1))))
        B0 = z3.Const('B0', sym.SeqElemS)
        g = st.ghost
        g['who_is_lossless'] = VBool(who == lossless)
        for n, v in (('Lrest0', VSeq(Lrest0, K_ELEM)), ('Mrest0', VSeq(Mrest0, K_MD)), ('Lp1', VSeq(Lp1, K_ELEM)),
                     ('Mp1', VSeq(Mp1, K_MD))):
            g[n] = v
        g['l_cur'] = VElem(z3.Const('l_cur0', sym.Elem))
        g['m_cur'] = VSeq(z3.Const('m_cur0', sym.SeqMdS), K_MDE)
        # the lossless slot of `metadata` holds no reference of its own once the element was emitted
        f['lossless'] = VRef(lossless, 'Stream')
        f['lossless_buffer'] = st.new_list(B0, K_ELEM, 'deque')
        return f

    def spec_funcs(self):
        d = NodeUpdate.spec_funcs(self)

        def unpack_elem(I, v, n):
            if n == 2:
                return [VElem(sym.f_mdpair_x(v.t)), VSeq(sym.f_mdpair_md(v.t), K_MDE)]
            return None

        def zl_out_(I, rest, pairs):
            return VSeq(zl_out(I.seq_term(rest)[0], I.seq_term(pairs)[0]), K_ELEM)

        def zl_md_(I, rest, pairs):
            return VSeq(zl_md(I.seq_term(rest)[0], I.seq_term(pairs)[0]), K_MD)

        def mds_of(I, s):
            t, k = I.seq_term(s)
            return VSeq(sym.mds_of(t), K_MD)

        def pair(I, x, md):
            return VElem(sym.f_mdpair(I.as_elem(x), I.seq_term(md)[0]))

        def flat_aw(I, v):
            t, k = I.seq_term(v)
            return VSeq(sym.flat_aw(t), K_AW)
        def aw_list(I, v):
            # the awaitables a node hands back: None stands for "nothing to wait for"
            if isinstance(v, VNone):
                return VSeq(z3.Empty(sym.SeqAwS), K_AW)
            t, k = I.seq_term(v)
            return VSeq(t, k)
        d.update({'unpack_elem': unpack_elem, 'zl_out': zl_out_, 'zl_md': zl_md_, 'mds_of': mds_of, 'pair': pair,
                  'flat_aw': flat_aw, 'aw_list': aw_list})
        return d

    LTAIL = '(Lrest0 if who_is_lossless else Lp1 + [x] + Ls)'
    MTAIL = '(Mrest0 if who_is_lossless else Mp1 + [metadata] + Ms)'

    def loop_specs(self):
        return {('zip_latest.update', 0): LoopSpec(
            drain='self.lossless_buffer',
            modifies=['self.lossless_buffer', 'local:L', 'local:md', 'ghost:emitted',
                      'ghost:emitted_md', 'ghost:emit_rets', 'ghost:delta', 'ghost:l_cur', 'ghost:m_cur',
                      'self.current_value', 'self.current_metadata'],
            entry_ghost={'last_tail': self.LTAIL, 'md_tail': self.MTAIL, 'delta_entry': 'delta'},
            defines={'self.last': '[l_cur] + last_tail', 'self.metadata': '[m_cur] + md_tail'},
            invariant=[('other_inputs_untouched', 'list(self.last) == [self.last[0]] + last_tail and '
                                                  'list(self.metadata) == [self.metadata[0]] + md_tail'),
                       ('one_tuple_per_lossless_element', 'emitted == zl_out(last_tail, _P)'),
                       ('metadata_per_tuple', 'emitted_md == zl_md(flat(md_tail), _P)'),
                       ('released_what_was_emitted', 'delta == delta_entry - occ(mds_of(_P))'),
                       ('awaitables_collected', 'L == flat_aw(emit_rets)')],
            typed_locals={'L': K_AW}, props=['C01', 'C03', 'C05', 'C10'], name='drain')}

    def base_fields(self):
        f = NodeUpdate.base_fields(self)
        f['current_value'] = VElem(z3.Const('cv0', sym.Elem))
        f['current_metadata'] = VSeq(z3.Const('cm0', sym.SeqMdS), K_MDE)
        return f

    def clauses(self):
        all_seen = '(card0 == 0 or (card0 == 1 and who_missing))'
        B_all = '(old(list(self.lossless_buffer)) + [pair(x, metadata)] if who_is_lossless else old(list(self.lossless_buffer)))'
        ltail, mtail = self.LTAIL, self.MTAIL
        return [
            Clause('C01.every_lossless_element_once_in_order_with_current_others', ['C01'],
                   text='emitted == (zl_out(%s, %s) if %s else [])' % (ltail, B_all, all_seen),
                   note='nothing is emitted before every input has delivered; then each buffered lossless element is emitted '
                        'exactly once, in order, paired with the current values of the other inputs'),
                Clause('C01.lossless_buffer_after_step', ['C01'],
                       text='list(self.lossless_buffer) == ([] if %s else %s)' % (all_seen, B_all)),
            Clause('C10.metadata_of_tuple_members', ['C10'],
                   text='emitted_md == (zl_md(flat(%s), %s) if %s else [])' % (mtail, B_all, all_seen)),
            Clause('C03.returns_flat_list_of_all_awaitables', ['C03'],
                   text='implies(%s, aw_list(result) == flat_aw(emit_rets))' % all_seen,
                   note='the emitter must receive a flat list of awaitables (gen.convert_yielded / asyncio.gather)'),
        ] + self.standard_clauses()


ALL += [ZipLatestUpdate]


# --------------------------------------------------------------------------- zip.update
from pyvc.state import Unsupported
from pyvc.loops import LoopSpec as _LoopSpec
import ast as _ast

PairArr = z3.ArraySort(sym.Obj, sym.SeqElemS)
heads_of = sym.SpecFun('heads_of', [PairArr], sym.SeqObjS, sym.SeqElemS, zero=lambda a: z3.Empty(sym.SeqElemS),
                       one=lambda a, u: z3.Unit(sym.sel(a, u)[0]), plus=lambda x, y: z3.Concat(x, y), store_frame=True)
held_zip = sym.SpecFun('held_zip', [PairArr, sym.Obj], sym.SeqObjS, z3.IntSort(), zero=lambda a, r: z3.IntVal(0),
                       one=lambda a, r, u: sym.occs(r, sym.mds_of(sym.sel(a, u))), plus=lambda x, y: x + y,
                       nonneg=True, store_frame=True)


class PopAllLoop:
    """`for buf in self.buffers.values(): buf.popleft()` summarised by its pointwise effect: every buffer loses its head.
    The body is checked syntactically to be exactly `buf.popleft()`; each iteration touches only its own buffer, so the
    order of iteration is irrelevant (frame-style loop contract)."""

    def __init__(self, contract):
        self.c = contract

    def run_for(self, I, node, it, fr):
        tgt = node.target.id if isinstance(node.target, _ast.Name) else None
        # (the loop variable may have any name)
        if tgt and len(node.body) == 1 and _ast.unparse(node.body[0]) == tgt + '.pop()' \
                and _ast.unparse(node.iter) == 'self.buffers.values()':
            # the entries just emitted are the HEADS (oldest) of the buffers; pop() removes the newest entry instead
            I.oblige('zip.consumes_the_oldest_entry_of_every_buffer', False, kind='callsite',
                     note='deque.pop() removes from the right end; the tuple was built from the left ends')
            I.st.obligations[-1].props = ['C01', 'C02']
        elif not (tgt and len(node.body) == 1 and _ast.unparse(node.body[0]) == tgt + '.popleft()'
                  and _ast.unparse(node.iter) == 'self.buffers.values()'):
            raise Unsupported('the pop-all loop of zip.update has changed shape: ' + _ast.unparse(node))
        selfv = fr.locals['self']
        dv = I.get_attr(selfv, 'buffers', fr)
        c = I.st.heap[dv.loc]
        eff = self.c.effective_vals(I, dv)
        V2 = z3.Const(sym.fresh_name('vals_after_pop'), eff.sort())
        k = z3.Const(sym.fresh_name('k'), sym.Obj)
        # precondition of popleft on every buffer: non-empty (established by the all(...) test)
        I.oblige('every_buffer_non_empty_before_pop', I.st.ghost['all_nonempty_flag'].t, kind='callsite')
        I.st.obligations[-1].props = ['C01', 'C03']
        # pointwise effect, instantiated for the inputs the obligations talk about (who, the arbitrary u0, ...); the
        # universally quantified form is only needed by lemma L-ZIP below
        for u in self.c.skolems(I):
            I.st.assume(z3.Select(eff, u) == z3.Concat(z3.Unit(z3.Select(eff, u)[0]), z3.Select(V2, u)))
        # cut: the arrival added exactly its own holds to the buffers (proved here, then used)
        U, who, bv, u0, e0, Up, Us = self.c._t
        md_t = self.c.pre_args['metadata'].t
        fact = held_zip(eff, R, c.keys) == held_zip(bv, R, c.keys) + sym.occ(R, md_t)
        I.oblige('arrival_adds_exactly_its_own_holds', fact, kind='callsite')
        I.st.obligations[-1].props = ['C05']
        I.st.assume(fact)
        # lemma L-ZIP (proved by induction in ZipLemmas): holds of all buffers = holds after the pop + holds of the heads
        I.st.assume(held_zip(eff, R, c.keys) == held_zip(V2, R, c.keys) + sym.occs(R, sym.mds_of(heads_of(eff, c.keys))))
        I.st.ghost['eff_before_pop'] = eff
        c2 = c.replace(vals=V2)
        c2.aliases = ()
        I.st.heap[dv.loc] = c2
        # aliases (the local L) now see the popped content
        for ak, loc in c.aliases:
            I.st.set_list_term(loc, z3.Select(V2, ak))


class ZipUpdate(NodeUpdate):
    cls = 'zip'
    # C06/C07/C11/C12: operations between two streaming dataframes (map_partitions with several streams) go through `zip`
    props = ['C01', 'C02', 'C03', 'C04', 'C05', 'C10', 'C06', 'C07', 'C11', 'C12']
    data_fields = ()
    inline = ('zip.condition',)
    abstracted = ('zip.update: the loop `for buf in self.buffers.values(): buf.popleft()` is summarised by its pointwise effect '
                  '(body checked syntactically)',)
    assumptions = ('zip without literal arguments (pack_literals is not under contract)', 'inputs are pairwise distinct streams; '
                   'keys(buffers) == upstreams (invariant T2 of C15)',
                   'lemma L-ZIP (induction over the inputs, proved in ZipLemmas)')

    def make_self(self, I):
        st = I.st
        U = z3.Const('U', sym.SeqObjS)
        Up, Us = z3.Const('Up', sym.SeqObjS), z3.Const('Us', sym.SeqObjS)
        who = z3.Const('who', sym.Obj)
        st.assume(U == z3.Concat(Up, z3.Unit(who), Us))
        st.assume(z3.Not(z3.Contains(Up, z3.Unit(who))))
        st.assume(z3.Not(z3.Contains(Us, z3.Unit(who))))
        bv = z3.Const('bufvals0', PairArr)
        u0 = z3.Const('u0', sym.Obj)
        st.assume(z3.Contains(U, z3.Unit(u0)))
        e0 = z3.Const('e0', sym.Obj)           # node invariant: some buffer is empty
        st.assume(z3.Contains(U, z3.Unit(e0)))
        st.assume(z3.Length(z3.Select(bv, e0)) == 0)
        m = z3.Int('maxsize')
        st.assume(m >= 1)
        g = st.ghost
        g['u0'] = VRef(u0, 'Stream')
        g['notify_all_calls'] = VInt(0)
        g['notify_one_calls'] = VInt(0)
        g['notified_before_emit'] = VBool(True)
        g['all_nonempty_flag'] = VBool(False)
        g['eff_before_pop'] = bv
        g['empty_witness'] = VRef(z3.Const('no_witness', sym.Obj), 'Stream')
        g['wait_future'] = VAw(z3.Const('no_wait_future', sym.Aw))
        g['_split_hints'] = [(U, who, Up, Us)]
        self._t = (U, who, bv, u0, e0, Up, Us)
        bufs = st.new_dict(DictCell(U, bv, K_OBJ, sym.K_ELEMS, vlist=K_ELEM, vpytype='deque'))
        return {'buffers': bufs, 'upstreams': st.new_list(U, K_OBJ), 'maxsize': VInt(m), 'literals': VTuple([]),
                '_condition': VRef(z3.Const('cond', sym.Obj), 'Condition')}

    held_text = 'held_all()'

    def skolems(self, I):
        U, who, bv, u0, e0, Up, Us = self._t
        out = [who, u0, e0]
        w = I.st.ghost.get('empty_witness')
        if w is not None:
            out.append(w.t)
        return out

    def effective_vals(self, I, dv):
        """the buffers as one array, with the list objects handed out through aliases written back"""
        c = I.st.heap[dv.loc]
        eff = c.vals
        for ak, loc in c.aliases:
            eff = z3.Store(eff, ak, I.st.heap[loc].term)
        return eff

    def summaries(self):
        d = NodeUpdate.summaries(self)

        def notify_all(I, recv, args, kwargs):
            g = I.st.ghost
            g['notify_all_calls'] = VInt(g['notify_all_calls'].t + 1)
            g['notified_before_emit'] = VBool(z3.And(g['notified_before_emit'].t, z3.Length(g['emitted'].t) == 0))
            return NONE

        def notify(I, recv, args, kwargs):
            g = I.st.ghost
            g['notify_one_calls'] = VInt(g['notify_one_calls'].t + 1)
            return NONE

        def wait(I, recv, args, kwargs):
            g = I.st.ghost
            a = VAw(z3.Const('wait_future', sym.Aw))
            g['wait_future'] = a
            return a
        d.update({'Condition.notify_all': notify_all, 'Condition.notify': notify, 'Condition.wait': wait})
        return d

    def loop_specs(self):
        return {('zip.update', 0): PopAllLoop(self)}

    def spec_funcs(self):
        d = NodeUpdate.spec_funcs(self)
        U, who, bv, u0, e0, Up, Us = None, None, None, None, None, None, None

        def dict_values(I, dv):
            r = sym.VBuiltin('dictvalues')
            r.dv = dv
            return r

        def all_(I, v):
            if not (isinstance(v, sym.VBuiltin) and v.name == 'dictvalues'):
                raise Unsupported('all() over %r' % (v,))
            c = I.st.heap[v.dv.loc]
            eff = self.effective_vals(I, v.dv)
            b = z3.Bool(sym.fresh_name('all_buffers_nonempty'))
            k = z3.Const(sym.fresh_name('k'), sym.Obj)
            w = z3.Const(sym.fresh_name('empty_witness'), sym.Obj)
            for u in self.skolems(I):
                I.st.assume(z3.Implies(b, z3.Length(z3.Select(eff, u)) > 0))
            I.st.assume(z3.Implies(z3.Not(b), z3.And(z3.Contains(c.keys, z3.Unit(w)), z3.Length(z3.Select(eff, w)) == 0)))
            I.st.ghost['all_nonempty_flag'] = VBool(b)
            I.st.ghost['empty_witness'] = VRef(w, 'Stream')
            return VBool(b)

        def comprehension(I, e, fr):
            if _ast.unparse(e) == '[self.buffers[up][0] for up in self.upstreams]':
                selfv = fr.locals['self']
                dv = I.get_attr(selfv, 'buffers', fr)
                c = I.st.heap[dv.loc]
                ups = I.get_attr(selfv, 'upstreams', fr)
                ut, _k = I.seq_term(ups)
                eff = self.effective_vals(I, dv)
                return VSeq(heads_of(eff, ut), K_ELEM)
            return None

        def zip_(I, args, kwargs, fr):
            if len(args) == 1 and isinstance(args[0], tuple):
                t, k = I.seq_term(args[0][1])
                return VTuple([VSeq(sym.xs_of(t), K_ELEM, 'tuple'), VSeq(sym.mds_of(t), K_MD, 'tuple')])
            raise Unsupported('zip(...)')

        def unpack_elem(I, v, n):
            return None

        def heads(I):
            """heads of all buffers (after the arrival was appended) in upstreams order, as recorded before the pop"""
            g = I.st.ghost
            return VSeq(heads_of(g['eff_before_pop'], self._t[0]), K_ELEM)

        def heads_elem(I, u):
            return VElem(z3.Select(I.st.ghost['eff_before_pop'], u.t)[0])

        def xs_of(I, s):
            return VSeq(sym.xs_of(I.seq_term(s)[0]), K_ELEM)

        def mds_of(I, s):
            return VSeq(sym.mds_of(I.seq_term(s)[0]), K_MD)

        def pair(I, x, md):
            return VElem(sym.f_mdpair(I.as_elem(x), I.seq_term(md)[0]))

        def old_buf(I, u):
            return VSeq(z3.Select(self._t[2], u.t), K_ELEM)

        def buf(I, u):
            selfv = self.pre_args['self']
            dv = I.st.heap[selfv.loc].fields['buffers']
            eff = self.effective_vals(I, dv)
            return VSeq(z3.Select(eff, u.t), K_ELEM)

        def held_all(I):
            selfv = self.pre_args['self']
            dv = I.st.heap[selfv.loc].fields['buffers']
            c = I.st.heap[dv.loc]
            return VInt(held_zip(self.effective_vals(I, dv), R, c.keys))

        def others_nonempty(I):
            """pre-state: every input other than `who` has a buffered element"""
            U, who, bv, u0, e0, Up, Us = self._t
            k = z3.Const(sym.fresh_name('k'), sym.Obj)
            return VBool(z3.ForAll([k], z3.Implies(z3.And(z3.Contains(U, z3.Unit(k)), k != who), z3.Length(z3.Select(bv, k)) > 0)))
        d.update({'dict_values': dict_values, 'all': all_, 'comprehension': comprehension, 'builtin_zip': zip_, 'heads': heads, 'heads_elem': heads_elem,
                  'xs_of': xs_of, 'mds_of': mds_of, 'pair': pair, 'buf': buf, 'old_buf': old_buf, 'held_all': held_all,
                  'others_nonempty': others_nonempty})
        return d

    def make_interp(self, index):
        I = NodeUpdate.make_interp(self, index)
        orig = I.dict_method

        def dict_method(recv, name, args, kwargs):
            if name == 'values' and I.st.heap[recv.loc].vlist is not None:
                return self.spec_funcs()['dict_values'](I, recv)
            return orig(recv, name, args, kwargs)
        I.dict_method = dict_method
        return I

    def requires(self, I, selfv, x, who, md):
        NodeUpdate.requires(self, I, selfv, x, who, md)

    def clauses(self):
        return [
            Clause('C01.emits_only_when_every_input_has_an_element', ['C01', 'C02'], when='return',
                   text='len(emitted) <= 1 and implies(len(emitted) == 1, old(len(buf(who))) == 0 and '
                        'implies(u0 is not who, old(len(buf(u0))) > 0))',
                   note='for an arbitrary other input u0: a tuple is emitted only if u0 has a buffered element (and the arrival filled the last gap)'),
            Clause('C01.emits_as_soon_as_every_input_has_an_element', ['C01', 'C02'], when='return',
                   text='implies(len(emitted) == 0, old(len(buf(who))) > 0 or '
                        '(empty_witness in self.upstreams and empty_witness is not who and len(old_buf(empty_witness)) == 0))',
                   note='if nothing is emitted some input is still missing its element: the node never sits on a complete tuple'),
            Clause('C01.tuple_is_the_heads_in_input_order', ['C01', 'C02'], when='return',
                   text='implies(len(emitted) == 1, emitted == [tup(xs_of(heads()))])',
                   note='the oldest unconsumed element of every input, in the order of the inputs'),
            Clause('C10.metadata_of_the_tuple_members_in_input_order', ['C10'], when='return',
                   text='implies(len(emitted) == 1, emitted_md == [flat(mds_of(heads()))])'),
            Clause('C01.buffers_after_step', ['C01', 'C02'], when='return',
                   text='implies(len(emitted) == 0, buf(u0) == (old(buf(u0)) + [pair(x, metadata)] if u0 is who else old(buf(u0)))) and '
                        'implies(len(emitted) == 1, [heads_elem(u0)] + buf(u0) == (old(buf(u0)) + [pair(x, metadata)] if u0 is who else old(buf(u0))))',
                   note='for an arbitrary input u0: the arrival is appended to its own buffer; an emission consumes exactly the head of every buffer'),
            Clause('C03.wakes_every_blocked_producer_before_emitting', ['C03'], when='return',
                   text='implies(len(emitted) == 1, notify_all_calls == 1 and notified_before_emit)',
                   note='all inputs share one condition: every producer blocked on a full buffer must be woken when the buffers shrink'),
            Clause('C03.blocks_the_producer_only_beyond_maxsize', ['C03'], when='return',
                   text='implies(len(emitted) == 0, (result is None) == (len(buf(who)) <= self.maxsize)) and '
                        'implies(len(emitted) == 0 and len(buf(who)) > self.maxsize, result == wait_future)'),
            Clause('C03.returns_emit_result', ['C03'], when='return', text='implies(len(emitted) == 1, result == emit_rets[0])'),
        ] + self.standard_clauses() + downstream_raise_clauses(self)


ALL += [ZipUpdate]
