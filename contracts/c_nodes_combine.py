"""Step contracts of the combining nodes: combine_latest, zip_latest, zip (streamz/core.py)."""
import z3
from pyvc import sym
from pyvc.sym import (VInt, VBool, VNone, VStr, VElem, VSeq, VList, VTuple, VRef, VCallable, VAw,
                      K_ELEM, K_MDE, K_MD, K_AW, K_INT, K_OBJ, K_OBJS)
from pyvc.state import ListCell, DictCell, SetCell, PyRaise
from pyvc.contract import Clause
from pyvc.interp import NONE
from pyvc.loops import LoopSpec
from .core_common import NodeUpdate, R
from .c_nodes_simple import downstream_raise_clauses

ObjBoolArr = z3.ArraySort(sym.Obj, z3.BoolSort())


class IndexedInputs:
    """Pre-state shared by combine_latest / zip_latest: upstreams U (distinct), `who` at index idx;
    last == Lp ++ [l_old] ++ Ls,  metadata == Mp ++ [m_old] ++ Ms  with len(Lp) == len(Mp) == idx."""

    def declare_inputs(self, I, first_is_who=None):
        U = z3.Const('U', sym.SeqObjS)
        Up = z3.Const('Up', sym.SeqObjS)
        Us = z3.Const('Us', sym.SeqObjS)
        who = z3.Const('who', sym.Obj)
        st = I.st
        st.assume(U == z3.Concat(Up, z3.Unit(who), Us))
        st.assume(z3.Not(z3.Contains(Up, z3.Unit(who))))
        st.assume(z3.Not(z3.Contains(Us, z3.Unit(who))))
        idx = z3.Length(Up)
        L0 = z3.Const('last0', sym.SeqElemS)
        Lp, Ls = z3.Const('Lp', sym.SeqElemS), z3.Const('Ls', sym.SeqElemS)
        l_old = z3.Const('l_old', sym.Elem)
        M0 = z3.Const('mdl0', sym.SeqSeqMdS)
        Mp, Ms = z3.Const('Mp', sym.SeqSeqMdS), z3.Const('Ms', sym.SeqSeqMdS)
        m_old = z3.Const('m_old', sym.SeqMdS)
        st.assume(L0 == z3.Concat(Lp, z3.Unit(l_old), Ls))
        st.assume(M0 == z3.Concat(Mp, z3.Unit(m_old), Ms))
        st.assume(z3.Length(Lp) == idx)
        st.assume(z3.Length(Mp) == idx)
        st.assume(z3.Length(L0) == z3.Length(U))
        st.assume(z3.Length(M0) == z3.Length(U))
        last = st.new_list(L0, K_ELEM)
        mdl = st.new_list(M0, K_MD)
        g = st.ghost
        # the code computes idx as upstreams.index(who) = IndexOf(U, [who]); equal to len(Up) because who is not in Up
        io = z3.IndexOf(U, z3.Unit(who), 0)
        st.assume(io == idx)
        g['_index_hints'] = [(L0, io, Lp, l_old, Ls), (M0, io, Mp, m_old, Ms)]
        for n, v in (('Lp', VSeq(Lp, K_ELEM)), ('Ls', VSeq(Ls, K_ELEM)), ('Mp', VSeq(Mp, K_MD)), ('Ms', VSeq(Ms, K_MD)),
                     ('m_old', VSeq(m_old, K_MDE)), ('l_old', VElem(l_old))):
            g[n] = v
        missing = z3.Const('missing0', ObjBoolArr)
        card = z3.Int('missing_card0')
        st.assume(card >= 0)
        any_o = z3.Const('any_o', sym.Obj)
        # only the cardinality and the membership of `who` matter to update()
        st.assume(z3.Implies(z3.Select(missing, who), card >= 1))
        mset = st.new_set(SetCell(missing, K_OBJ, card))
        g['who_missing'] = VBool(z3.Select(missing, who))
        g['card0'] = VInt(card)
        self._io = (U, who, idx)
        return {'upstreams': st.new_list(U, K_OBJ), 'last': last, 'metadata': mdl, 'missing': mset}

    def call_args(self, I):
        x = VElem(z3.Const('x', sym.Elem))
        md = VSeq(z3.Const('md', sym.SeqMdS), K_MDE)
        who = VRef(z3.Const('who', sym.Obj), 'Stream')
        return x, who, md


# --------------------------------------------------------------------------- combine_latest
class CombineLatestUpdate(IndexedInputs, NodeUpdate):
    cls = 'combine_latest'
    props = ['C01', 'C03', 'C04', 'C05', 'C10', 'C15']
    data_fields = ('last',)
    held_text = 'occ(list(self.metadata))'
    assumptions = ('inputs that have not delivered yet have no metadata entry (None is modelled as the empty list)',
                   'missing is the set of inputs that have not delivered; its cardinality is tracked symbolically')

    def make_self(self, I):
        f = self.declare_inputs(I)
        E = z3.Const('emit_on0', sym.SeqObjS)
        f['emit_on'] = VSeq(E, K_OBJ, 'tuple')
        return f

    def clauses(self):
        all_seen = '(card0 == 0 or (card0 == 1 and who_missing))'
        emits = '(%s and who in self.emit_on)' % all_seen
        return [
            Clause('C01.remembers_latest_per_input', ['C01', 'C15'], text='list(self.last) == Lp + [x] + Ls'),
            Clause('C01.emits_tuple_of_latest_when_all_seen_and_emit_on', ['C01'],
                   text='emitted == ([tup(Lp + [x] + Ls)] if %s else [])' % emits,
                   note='an arrival emits the tuple of the latest values iff every input has delivered and the input is in emit_on'),
            Clause('C10.metadata_of_all_current_values_in_input_order', ['C10'],
                   text='emitted_md == ([flat(Mp + [metadata] + Ms)] if %s else [])' % emits),
            Clause('C10.metadata_slot_replaced', ['C10', 'C05'], text='list(self.metadata) == Mp + [metadata] + Ms'),
            Clause('C03.returns_emit_result', ['C03'], text='implies(%s, result == emit_rets[0])' % emits),
            Clause('C01.missing_updated', ['C01', 'C15'], text='len(self.missing) == (card0 - 1 if who_missing else card0)'),
        ] + self.standard_clauses() + downstream_raise_clauses(self)


ALL = [CombineLatestUpdate]


# --------------------------------------------------------------------------- zip_latest
zl_out = sym.SpecFun('zl_out', [sym.SeqElemS], sym.SeqElemS, sym.SeqElemS,
                     zero=lambda rest: z3.Empty(sym.SeqElemS),
                     one=lambda rest, p: z3.Unit(sym.f_tup(z3.Concat(z3.Unit(sym.f_mdpair_x(p)), rest))),
                     plus=lambda a, b: z3.Concat(a, b))
zl_md = sym.SpecFun('zl_md', [sym.SeqMdS], sym.SeqElemS, sym.SeqSeqMdS,
                    zero=lambda rest: z3.Empty(sym.SeqSeqMdS),
                    one=lambda rest, p: z3.Unit(z3.Concat(sym.f_mdpair_md(p), rest)),
                    plus=lambda a, b: z3.Concat(a, b))


class ZipLatestUpdate(IndexedInputs, NodeUpdate):
    cls = 'zip_latest'
    props = ['C01', 'C03', 'C04', 'C05', 'C10']
    data_fields = ()
    held_text = 'occ(mds_of(list(self.lossless_buffer))) + occ(list(self.metadata)) - occ(self.metadata[0])'
    assumptions = ('the lossless input is upstreams[0] (constructor); inputs are pairwise distinct',
                   'inputs that have not delivered yet have no metadata entry (None is modelled as the empty list)')

    def make_self(self, I):
        f = self.declare_inputs(I)
        st = I.st
        U, who, idx = self._io
        lossless = z3.Const('lossless', sym.Obj)
        Urest = z3.Const('Urest', sym.SeqObjS)
        st.assume(U == z3.Concat(z3.Unit(lossless), Urest))
        st.assume((who == lossless) == (idx == 0))
        L0, M0 = z3.Const('last0', sym.SeqElemS), z3.Const('mdl0', sym.SeqSeqMdS)
        l0, Lrest0 = z3.Const('l0', sym.Elem), z3.Const('Lrest0', sym.SeqElemS)
        m0, Mrest0 = z3.Const('m0', sym.SeqMdS), z3.Const('Mrest0', sym.SeqSeqMdS)
        Lp1, Mp1 = z3.Const('Lp1', sym.SeqElemS), z3.Const('Mp1', sym.SeqSeqMdS)
        st.assume(L0 == z3.Concat(z3.Unit(l0), Lrest0))
        st.assume(M0 == z3.Concat(z3.Unit(m0), Mrest0))
        st.assume(z3.Implies(idx > 0, z3.And(z3.Const('Lp', sym.SeqElemS) == z3.Concat(z3.Unit(l0), Lp1),
                                             z3.Const('Mp', sym.SeqSeqMdS) == z3.Concat(z3.Unit(m0), Mp1))))
        B0 = z3.Const('B0', sym.SeqElemS)
        g = st.ghost
        g['who_is_lossless'] = VBool(who == lossless)
        for n, v in (('Lrest0', VSeq(Lrest0, K_ELEM)), ('Mrest0', VSeq(Mrest0, K_MD)), ('Lp1', VSeq(Lp1, K_ELEM)),
                     ('Mp1', VSeq(Mp1, K_MD))):
            g[n] = v
        g['Done'] = VSeq(z3.Empty(sym.SeqElemS), K_ELEM)
        g['l_cur'] = VElem(z3.Const('l_cur0', sym.Elem))
        g['m_cur'] = VSeq(z3.Const('m_cur0', sym.SeqMdS), K_MDE)
        # the lossless slot of `metadata` holds no reference of its own once the element was emitted
        f['lossless'] = VRef(lossless, 'Stream')
        f['lossless_buffer'] = st.new_list(B0, K_ELEM, 'deque')
        return f

    def spec_funcs(self):
        d = NodeUpdate.spec_funcs(self)

        def unpack_elem(I, v, n):
            if n == 2:
                return [VElem(sym.f_mdpair_x(v.t)), VSeq(sym.f_mdpair_md(v.t), K_MDE)]
            return None

        def zl_out_(I, rest, pairs):
            return VSeq(zl_out(I.seq_term(rest)[0], I.seq_term(pairs)[0]), K_ELEM)

        def zl_md_(I, rest, pairs):
            return VSeq(zl_md(I.seq_term(rest)[0], I.seq_term(pairs)[0]), K_MD)

        def mds_of(I, s):
            t, k = I.seq_term(s)
            return VSeq(sym.mds_of(t), K_MD)

        def pair(I, x, md):
            return VElem(sym.f_mdpair(I.as_elem(x), I.seq_term(md)[0]))

        def flat_aw(I, v):
            t, k = I.seq_term(v)
            return VSeq(sym.flat_aw(t), K_AW)
        d.update({'unpack_elem': unpack_elem, 'zl_out': zl_out_, 'zl_md': zl_md_, 'mds_of': mds_of, 'pair': pair,
                  'flat_aw': flat_aw})
        return d

    LTAIL = '(Lrest0 if who_is_lossless else Lp1 + [x] + Ls)'
    MTAIL = '(Mrest0 if who_is_lossless else Mp1 + [metadata] + Ms)'

    def loop_specs(self):
        return {('zip_latest.update', 0): LoopSpec(
            modifies=['self.lossless_buffer', 'local:L', 'local:md', 'ghost:emitted',
                      'ghost:emitted_md', 'ghost:emit_rets', 'ghost:delta', 'ghost:Done', 'ghost:l_cur', 'ghost:m_cur',
                      'self.current_value', 'self.current_metadata'],
            entry_ghost={'B_entry': 'list(self.lossless_buffer)', 'last_tail': self.LTAIL, 'md_tail': self.MTAIL,
                         'delta_entry': 'delta'},
            defines={'self.last': '[l_cur] + last_tail', 'self.metadata': '[m_cur] + md_tail'},
            invariant=[('lossless_elements_consumed_in_order', 'B_entry == Done + list(self.lossless_buffer)'),
                       ('other_inputs_untouched', 'list(self.last) == [self.last[0]] + last_tail and '
                                                  'list(self.metadata) == [self.metadata[0]] + md_tail'),
                       ('one_tuple_per_lossless_element', 'emitted == zl_out(last_tail, Done)'),
                       ('metadata_per_tuple', 'emitted_md == zl_md(flat(md_tail), Done)'),
                       ('released_what_was_emitted', 'delta == delta_entry - occ(mds_of(Done))'),
                       ('awaitables_collected', 'L == flat_aw(emit_rets)')],
            typed_locals={'L': K_AW}, props=['C01', 'C03', 'C05', 'C10'], name='drain')}

    def base_fields(self):
        f = NodeUpdate.base_fields(self)
        f['current_value'] = VElem(z3.Const('cv0', sym.Elem))
        f['current_metadata'] = VSeq(z3.Const('cm0', sym.SeqMdS), K_MDE)
        return f

    def clauses(self):
        all_seen = '(card0 == 0 or (card0 == 1 and who_missing))'
        B_all = '(old(list(self.lossless_buffer)) + [pair(x, metadata)] if who_is_lossless else old(list(self.lossless_buffer)))'
        ltail, mtail = self.LTAIL, self.MTAIL
        return [
            Clause('C01.every_lossless_element_once_in_order_with_current_others', ['C01'],
                   text='emitted == (zl_out(%s, %s) if %s else [])' % (ltail, B_all, all_seen),
                   note='nothing is emitted before every input has delivered; then each buffered lossless element is emitted '
                        'exactly once, in order, paired with the current values of the other inputs'),
                Clause('C01.lossless_buffer_after_step', ['C01'],
                       text='list(self.lossless_buffer) == ([] if %s else %s)' % (all_seen, B_all)),
            Clause('C10.metadata_of_tuple_members', ['C10'],
                   text='emitted_md == (zl_md(flat(%s), %s) if %s else [])' % (mtail, B_all, all_seen)),
            Clause('C03.returns_flat_list_of_all_awaitables', ['C03'],
                   text='implies(%s, list(result) == flat_aw(emit_rets))' % all_seen,
                   note='the emitter must receive a flat list of awaitables (gen.convert_yielded / asyncio.gather)'),
        ] + self.standard_clauses()


ALL_PARKED = [ZipLatestUpdate]     # too slow in its present form; see DESIGN
