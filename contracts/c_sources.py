"""C18: source lifecycle (streamz/sources.py: Source.start/stop/run, from_iterable.run, from_periodic._run, from_q._run)."""
import z3
from pyvc import sym
from pyvc.sym import (VInt, VReal, VBool, VNone, VStr, VElem, VSeq, VList, VTuple, VRef, VObj, VBuiltin, VAw, VCallable,
                      K_ELEM, K_AW)
from pyvc.state import State, PyRaise, Unsupported
from pyvc.contract import Contract, Clause
from pyvc.interp import NONE, Frame, Resume
from .async_common import Segment

SRC = 'streamz/sources.py'


class SourceSeg(Segment):
    """Ghost: live = number of run() coroutines that have been scheduled and have not exited.
    Invariant (P1): live <= 1, and a source that is not stopped has exactly one."""
    file = SRC
    files = [SRC, 'streamz/core.py']
    cls = 'Source'
    harness = 'source_harness'
    inline = ('Source.start', 'Source.stop')
    assumptions = ('loop.add_callback(f) runs f exactly once in a later segment (trusted)',)

    def make_self(self, I):
        g = I.st.ghost
        g['live'] = VInt(z3.Int('live0'))
        g['run_calls'] = VInt(0)
        g['gathered'] = VTuple([])        # what the last asyncio.gather of this segment was given (nothing yet)
        stopped = z3.Bool('stopped0')
        I.st.assume(z3.And(g['live'].t >= 0, g['live'].t <= 1))
        I.st.assume(z3.Implies(z3.Not(stopped), g['live'].t == 1))
        return {'stopped': VBool(stopped), 'started': VBool(z3.Bool('started0'))}

    def make_locals(self, I, selfv):
        return {'self': selfv}

    def globals(self):
        # module-level names of streamz/sources.py
        return {'asyncio': VBuiltin('asyncio'), 'gen': VBuiltin('gen'), 'isawaitable': VBuiltin('inspect.isawaitable')}

    def summaries(self):
        d = Segment.summaries(self)

        def get_io_loop(I, recv, args, kwargs):
            # core.get_io_loop (own contract: c_loop.py): SOME event loop -- the current one, a dask client's, or the shared
            # background loop; nothing says it is the loop this pipeline is bound to
            return VRef(z3.Const(sym.fresh_name('some_io_loop'), sym.Obj), 'IOLoop')
        d['get_io_loop'] = get_io_loop

        def _run(I, recv, args, kwargs):
            g = I.st.ghost
            g['run_calls'] = VInt(g['run_calls'].t + 1)
            return VAw(z3.Const(sym.fresh_name('_run_coro'), sym.Aw))
        d[self.cls + '._run'] = _run
        d['Source._run'] = _run

        def seek(I, recv, args, kwargs):
            g = I.st.ghost
            g['seeks'] = VInt(g.get('seeks', VInt(0)).t + 1)
            return NONE
        d['File.seek'] = seek

        def base_init(I, recv, args, kwargs):
            if recv is None:
                recv, args = args[0], args[1:]
            I.set_attr(recv, 'loop', VRef(z3.Const('loop', sym.Obj), 'IOLoop'))
            I.st.ghost['base_init_kwargs'] = VTuple([VStr(k) for k in sorted(kwargs) if k != '**'])
            return NONE
        d['Stream.__init__'] = base_init
        return d

    def spec_funcs(self):
        d = Segment.spec_funcs(self)

        def gather(I, args, kwargs, fr):
            I.st.ghost['gathered'] = VTuple([a[1] if isinstance(a, tuple) else a for a in args])
            return VAw(z3.Const(sym.fresh_name('gather'), sym.Aw))
        d['builtin_asyncio.gather'] = gather

        def schedules_run(I):
            """number of add_callback(self.run) registrations made in this segment"""
            n = 0
            for cb in I.st.ghost['callbacks'].items:
                f = cb.items[0]
                if isinstance(f, sym.VFunc) and f.qual.endswith('.run'):
                    n += 1
            return VInt(n)
        d['schedules_run'] = schedules_run
        return d


class SourceStart(SourceSeg):
    method = 'start'
    props = ['C18']

    def make_self(self, I):
        f = SourceSeg.make_self(self, I)
        if self.cls == 'from_iterable':
            f['_iterable'] = VSeq(z3.Const('iterable0', sym.SeqElemS), K_ELEM)
        if self.cls == 'from_textfile':
            f['file'] = VRef(z3.Const('file', sym.Obj), 'File')
            f['from_end'] = VBool(z3.Bool('from_end'))
            f['buffer'] = sym.VString(z3.String('buffer0'))
        I.st.ghost['seeks'] = VInt(0)
        return f

    def unchanged_clause(self):
        def fn(self_, I, o, fr):
            pre = self.pre_state.heap[self.pre_args['self'].loc]
            post = o.state.heap[self.pre_args['self'].loc]
            from .core_common import values_equal_across
            if set(pre.fields) != set(post.fields):
                return z3.BoolVal(False)        # an attribute appeared or disappeared
            fs = [values_equal_across(I, self.pre_state, pre.fields[f], o.state, post.fields[f]) for f in pre.fields]
            return z3.Implies(z3.Not(I.truth(pre.fields['stopped'])), z3.And(fs) if fs else z3.BoolVal(True))
        return fn

    def clauses(self):
        return [
            Clause('C18.start_of_a_started_source_changes_nothing', ['C18'], when='return', fn=self.unchanged_clause(),
                   kind='protocol', note='P3: no attribute of a started source is touched by another start()'),
            Clause('C19.starting_never_moves_the_source_to_another_loop', ['C19', 'C18'], when='return', text='self.loop is old(self.loop)',
                   note='one event loop per pipeline: the loop is fixed when the node is built (Stream.__init__, percolated to the '
                        'neighbours); a (re)start that re-resolves it would leave the downstream nodes on the old loop'),
            Clause('C18.at_most_one_polling_loop', ['C18'], when='return', text='live + schedules_run() <= 1',
                   kind='protocol', replay={'scenario': 'source_restart_two_loops'},
                   note='P1: starting must not create a second polling loop while an earlier one is still alive'),
            Clause('C18.start_of_a_started_source_has_no_effect', ['C18'], when='return',
                   text='implies(not old(self.stopped), schedules_run() == 0 and not self.stopped)'),
            Clause('C18.start_schedules_exactly_one_loop', ['C18'], when='return',
                   text='implies(old(self.stopped), schedules_run() == 1 and not self.stopped)'),
            Clause('C18.start_of_a_started_source_does_not_move_the_read_position', ['C18', 'C17'], when='return',
                   text='implies(not old(self.stopped), seeks == 0)',
                   note='a redundant start() (e.g. through a downstream node) must not skip unread data'),
        ]


class SourceInit(SourceSeg):
    """Source.__init__(start=...): with start=True the source IS started when the constructor returns (a stop() right after it
    must find a started source), with start=False nothing is scheduled."""
    method = '__init__'
    props = ['C18']
    name = 'Source.__init__'
    reentrancy_generic = False

    def make_locals(self, I, selfv):
        return {'self': selfv, 'start': VBool(z3.Bool('start_arg')), 'kwargs': VStr('__kwargs__')}

    def clauses(self):
        return [Clause('C18.start_true_starts_before_the_constructor_returns', ['C18'], when='return',
                       text='implies(start, not self.stopped and self.started and schedules_run() == 1)',
                       note='history [construct with start=True, stop()]: stop must see a started source'),
                Clause('C18.start_false_schedules_nothing', ['C18'], when='return',
                       text='implies(not start, self.stopped and not self.started and schedules_run() == 0 and len(callbacks) == 0)'),
                Clause('C19.source_asks_for_an_io_loop', ['C18', 'C19'], when='return', text="'ensure_io_loop' in base_init_kwargs")]


class SourceStop(SourceSeg):
    method = 'stop'
    props = ['C18']

    def make_self(self, I):
        f = SourceSeg.make_self(self, I)
        if self.cls == 'from_iterable':
            f['_iterable'] = VSeq(z3.Const('iterable0', sym.SeqElemS), K_ELEM)
        return f

    def clauses(self):
        return [Clause('C18.stop_only_sets_the_flag', ['C18'], when='return',
                       text='self.stopped and schedules_run() == 0 and run_calls == 0',
                       note='stopping a stopped source has no effect; stop never starts anything')]


class SourceRunHead(SourceSeg):
    """run(): the loop head at entry and after each completed cycle"""
    method = 'run'
    start = 0
    props = ['C18']

    def clauses(self):
        return [
            Clause('C18.no_new_cycle_after_stop', ['C18'], when='any',
                   text='implies(old(self.stopped), run_calls == 0)', kind='protocol',
                   note='P2: after stop the cycle in progress may finish but no new cycle begins'),
            Clause('C18.exits_only_when_stopped', ['C18'], when='return', text='old(self.stopped)'),
            Clause('C18.one_cycle_at_a_time', ['C18'], when='yield:1', text='run_calls == 1 and not old(self.stopped)'),
        ]


class SourceRunAfterCycle(SourceRunHead):
    start = 1
    name = 'Source.run@1'


# --------------------------------------------------------------------------- from_iterable.run
class FromIterableRun(SourceSeg):
    cls = 'from_iterable'
    method = 'run'
    start = 0
    props = ['C18', 'C03']
    emit_may_raise = False

    def make_self(self, I):
        f = SourceSeg.make_self(self, I)
        f['_iterable'] = VSeq(z3.Const('iterable0', sym.SeqElemS), K_ELEM)
        return f

    def clauses(self):
        return [
            Clause('C18.emits_next_item_only', ['C18'], when='yield:1',
                   text='len(emitted) == 1 and emitted[0] == old(self._iterable)[0] and len(old(self._iterable)) >= 1 and not old(self.stopped)',
                   note='P4: one item per cycle, in order'),
            Clause('C03.waits_for_downstream_before_next_item', ['C03', 'C18'], when='yield:1',
                   text='len(gathered) == 1 and gathered[0] == emit_rets[0]',
                   note='the awaitables of the emission are awaited before the next item is taken'),
            Clause('C18.nothing_emitted_after_stop_or_exhaustion', ['C18'], when='return',
                   text='emitted == [] and self.stopped'),
        ]


class FromIterableRunResumed(FromIterableRun):
    start = 1
    name = 'from_iterable.run@1'

    def make_locals(self, I, selfv):
        rem = VSeq(z3.Const('remaining', sym.SeqElemS), K_ELEM)
        I.st.ghost['remaining'] = rem
        return {'self': selfv, 'x': VElem(z3.Const('x_prev', sym.Elem)), '__iter_0': rem}

    def clauses(self):
        return [
            Clause('C18.emits_next_item_only', ['C18'], when='yield:1',
                   text='len(emitted) == 1 and emitted[0] == remaining[0] and len(remaining) >= 1 and not old(self.stopped)'),
            Clause('C03.waits_for_downstream_before_next_item', ['C03', 'C18'], when='yield:1',
                   text='len(gathered) == 1 and gathered[0] == emit_rets[0]'),
            Clause('C18.nothing_emitted_after_stop_or_exhaustion', ['C18'], when='return',
                   text='emitted == [] and self.stopped and (old(self.stopped) or len(remaining) == 0)'),
        ]


# --------------------------------------------------------------------------- from_periodic._run
class FromPeriodicRun(SourceSeg):
    cls = 'from_periodic'
    method = '_run'
    start = 0
    props = ['C18', 'C03']
    emit_may_raise = False

    def make_self(self, I):
        f = SourceSeg.make_self(self, I)
        f['_cb'] = VCallable('callback', may_raise=False)
        f['_poll'] = VReal(z3.Real('poll'))
        return f

    def clauses(self):
        return [Clause('C18.one_emission_per_cycle_then_waits_for_downstream', ['C18', 'C03'], when='normal',
                       note='wherever the coroutine first suspends (or if it returns): it has emitted once and is waiting for exactly that emission',
                       text='len(emitted) == 1 and len(gathered) == 1 and gathered[0] == emit_rets[0] and len(sleeps) == 0')]


class FromPeriodicRunSleep(FromPeriodicRun):
    start = 1
    name = 'from_periodic._run@1'

    def clauses(self):
        return [Clause('C18.sleeps_one_poll_interval_after_downstream_completed', ['C18'], when='yield:2',
                       text='emitted == [] and len(sleeps) == 1 and sleeps[0] == self._poll')]


class ServerSourceStop(SourceSeg):
    """stop() of the socket-server sources (from_tcp, from_http_server): stopping a started source stops its server exactly once and
    marks it stopped; stopping a stopped source has no effect (it must not touch the server that is already gone)."""
    method = 'stop'
    props = ['C18']
    reentrancy_generic = False

    def make_self(self, I):
        f = SourceSeg.make_self(self, I)
        I.st.ghost['server_stops'] = VInt(0)
        stopped = I.truth(f['stopped'])
        # a stopped source has no server any more (stop() sets it to None, the constructor starts without one)
        srv = VRef(z3.Const('server', sym.Obj), 'Server')
        I.st.ghost['had_server'] = VBool(z3.Not(stopped))
        f['server'] = srv
        return f

    def summaries(self):
        d = SourceSeg.summaries(self)

        def server_stop(I, recv, args, kwargs):
            g = I.st.ghost
            # calling stop() on the server of a source that is already stopped means calling it on None
            if I.branch(z3.Not(I.truth(g['had_server']))):
                raise PyRaise(sym.VExc('AttributeError'))
            g['server_stops'] = VInt(g['server_stops'].t + 1)
            return NONE
        d['Server.stop'] = server_stop
        return d

    def clauses(self):
        return [Clause('C18.stop_of_a_started_server_source_stops_the_server_once', ['C18'], when='return',
                       text='implies(not old(self.stopped), self.stopped and server_stops == 1 and self.server is None)'),
                Clause('C18.stopping_a_stopped_source_has_no_effect', ['C18'], when='return',
                       text='implies(old(self.stopped), self.stopped and server_stops == 0)'),
                Clause('C18.stop_never_fails', ['C18'], when='raise', text='False',
                       note='e.g. a second stop() reaching the source through two branches of the graph')]


class FromQRun(SourceSeg):
    """from_q._run: one cycle polls the queue at most once; after the emission of a polled item has been awaited the cycle is over
    (run() re-checks `stopped` before the next one)."""
    cls = 'from_q'
    method = '_run'
    props = ['C18', 'C03']
    reentrancy_generic = False
    emission_must_be_awaited = False
    assumptions = SourceSeg.assumptions + ('queue.Queue.get_nowait returns the oldest item or raises queue.Empty (trusted)',)

    def make_self(self, I):
        f = SourceSeg.make_self(self, I)
        f['q'] = VRef(z3.Const('q', sym.Obj), 'PyQueue')
        f['sleep'] = VReal(z3.Real('sleep_time'))
        I.st.ghost['polls'] = VInt(0)
        I.st.ghost['emits'] = VInt(0)
        return f

    def globals(self):
        d = SourceSeg.globals(self)
        d['queue'] = VBuiltin('queue')
        return d

    def summaries(self):
        d = SourceSeg.summaries(self)

        def get_nowait(I, recv, args, kwargs):
            g = I.st.ghost
            g['polls'] = VInt(g['polls'].t + 1)
            if I.branch(z3.Bool(sym.fresh_name('queue_empty'))):
                raise PyRaise(sym.VExc('Empty'))
            return VElem(z3.Const(sym.fresh_name('item'), sym.Elem))

        def emit(I, recv, args, kwargs):
            g = I.st.ghost
            g['emits'] = VInt(g['emits'].t + 1)
            return VAw(z3.Const(sym.fresh_name('emit_aw'), sym.Aw))
        d['PyQueue.get_nowait'] = get_nowait
        d['from_q.emit'] = emit
        d['Stream.emit'] = emit
        return d

    def clauses(self):
        return [Clause('C18.one_poll_per_cycle', ['C18'], when='normal', text='polls <= 1 and emits <= polls',
                       note='a cycle takes at most one item; whether another cycle begins is decided by run() looking at `stopped`'),
                Clause('C03.a_cycle_that_emits_suspends_until_downstream_is_done', ['C03', 'C18'], when='return', text='emits == 0',
                       note='the item is pushed with emit(asynchronous=True) and that awaitable is awaited: the source does not take '
                            'the next item while a consumer (a full buffer, a slow sink) is still busy with this one'),
                Clause('C03.suspends_on_the_emission_or_on_the_idle_sleep', ['C03', 'C18'], when='yield',
                       text='(emits == 1 and len(sleeps) == 0) or (emits == 0 and len(sleeps) == 1)')]


class FromQRunResumed(FromQRun):
    start = 1
    name = 'from_q._run@1'

    def clauses(self):
        return [Clause('C18.cycle_ends_once_the_emission_has_been_awaited', ['C18'], when='normal',
                       text='polls == 0 and emits == 0',
                       note='no further item is taken inside the same cycle: after stop() nothing more is emitted'),
                Clause('C18.cycle_ends_by_returning', ['C18'], when='yield', text='False')]


def _per_source(base, cls):
    """the lifecycle contract re-proved for the start/stop a concrete source class resolves to (an override is verified,
    not assumed)"""
    return type('%s_%s' % (base.__name__, cls), (base,), {'cls': cls, 'name': '%s.%s@0' % (cls, base.method)})


SUBCLASS_LIFECYCLE = [_per_source(b, c) for c in ('from_iterable', 'from_periodic', 'from_textfile', 'filenames')
                      for b in (SourceStart, SourceStop)]
SUBCLASS_LIFECYCLE += [_per_source(ServerSourceStop, c) for c in ('from_tcp', 'from_http_server')]
for _c in SUBCLASS_LIFECYCLE:
    globals()[_c.__name__] = _c

class FromQRunAfterSleep(FromQRunResumed):
    """resumed after the idle sleep (inside the `except queue.Empty` handler): the cycle is over"""
    start = 2
    name = 'from_q._run@2'


class FromPeriodicRunEnd(FromPeriodicRun):
    start = 2
    name = 'from_periodic._run@2'

    def clauses(self):
        return [Clause('C18.cycle_ends_after_the_sleep', ['C18'], when='normal', text='emitted == [] and len(sleeps) == 0'),
                Clause('C18.cycle_ends_by_returning', ['C18'], when='yield', text='False')]


ALL = SUBCLASS_LIFECYCLE + [FromQRunAfterSleep, FromPeriodicRunEnd, FromQRun, FromQRunResumed, SourceInit, SourceStart, SourceStop, SourceRunHead, SourceRunAfterCycle, FromIterableRun, FromIterableRunResumed,
       FromPeriodicRun, FromPeriodicRunSleep]


# --------------------------------------------------------------------------- from_tcp: the per-connection handler
class TcpHandler(SourceSeg):
    """`EmitServer.handle_stream` (a coroutine method of a class defined inside from_tcp.run): one cycle = one read_until + one
    emission.  A new read begins only while the source is running (a connection that stays open across stop() may finish the read
    it is suspended in, nothing more)."""
    cls = 'from_tcp'
    method = 'run'
    start = 0
    props = ['C18']
    harness = None
    resume_exc = False
    reentrancy_generic = False
    assumptions = SourceSeg.assumptions + (
        'IOStream.read_until(delimiter) is an opaque awaitable yielding the next delimiter-terminated chunk or raising '
        'StreamClosedError (tornado, trusted)',)

    def __init__(self):
        SourceSeg.__init__(self)
        self.name = 'from_tcp.run.<locals>.EmitServer.handle_stream@%d%s' % (self.start, '[connection closed]' if self.resume_exc else '')

    def make_self(self, I):
        f = SourceSeg.make_self(self, I)
        f['delimiter'] = VElem(z3.Const('delimiter', sym.Elem))
        f['server'] = VRef(z3.Const('server', sym.Obj), 'Server')
        I.st.ghost['reads'] = VTuple([])
        return f

    def unit(self, I, index):
        from pyvc.repoindex import locate_nested
        rel, fnode = index.function('from_tcp.run')
        fn = locate_nested(fnode, 'handle_stream')
        self.qual_resolved = 'from_tcp.run'
        f = sym.VFunc('from_tcp.run.<locals>.EmitServer.handle_stream', fn)

        def run(I):
            st = State()
            I.st = st
            self.init_ghost(st)
            self.init_async_ghost(st)
            fields = self.base_fields()
            fields.update(self.make_self(I))
            src = st.new_obj('from_tcp', fields)
            server = st.new_obj('EmitServer', {'source': src})
            stream = VRef(z3.Const('stream', sym.Obj), 'IOStream')
            loc = {'self': server, 'stream': stream, 'address': VElem(z3.Const('address', sym.Elem))}
            data = VElem(z3.Const('data', sym.Elem))
            st.ghost['data'] = data
            st.ghost['source'] = src
            self.pre_args = dict(loc)
            self.pre_state = st.snapshot()
            st.ghost['_pre'] = (self.pre_state, self.pre_args)
            I.contract_pre = self.pre_state
            I.contract_pre_frame = self.pre_frame(I)
            fr = Frame(f.qual, loc)
            outer = Frame('from_tcp.run', {'self': src, 'StreamClosedError': sym.VClass('StreamClosedError'),
                                           'TCPServer': sym.VClass('TCPServer')})
            fr.closure = outer
            if self.start == 0:
                res = None
            elif self.resume_exc:
                res = Resume(exc=sym.VExc('StreamClosedError'))
            else:
                res = Resume(data)
            try:
                v = I.run_segment(f, fr, self.start, res)
            except Exception as e:
                if hasattr(e, 'frame') and getattr(e, 'frame', None) is None:
                    e.frame = fr
                raise
            return v, fr
        return run

    def globals(self):
        d = SourceSeg.globals(self)
        d['isawaitable'] = VBuiltin('inspect.isawaitable')
        return d

    def summaries(self):
        d = SourceSeg.summaries(self)

        def read_until(I, recv, args, kwargs):
            g = I.st.ghost
            g['reads'] = VTuple(g['reads'].items + [args[0]])
            return VAw(z3.Const(sym.fresh_name('read'), sym.Aw))
        d['IOStream.read_until'] = read_until
        return d

    def spec_funcs(self):
        d = SourceSeg.spec_funcs(self)

        def call_default(I, kind, name, recv, args, kwargs):
            if kind == 'method' and isinstance(recv, VRef) and recv.cls == 'IOStream':
                # any other query of the connection (closed(), reading(), ...): an unknown answer
                return VElem(z3.Const(sym.fresh_name('stream_' + name.split('.')[-1]), sym.Elem))
            raise Unsupported('call of %s %s in the connection handler' % (kind, name))
        d['call_default'] = call_default
        return d

    def clauses(self):
        out = [Clause('C18.a_new_read_begins_only_while_the_source_is_running', ['C18'], when='yield:1',
                      text='not source.stopped and len(reads) == 1 and reads[0] == source.delimiter',
                      note='P2: after stop() the read in progress may complete, no further read (cycle) is started on the connection'),
               Clause('C18.handler_ends_when_the_source_is_stopped_or_the_connection_closed', ['C18'], when='return',
                      text='len(reads) == 0 and (source.stopped or %s)' % ('True' if self.resume_exc else 'False'))]
        if self.start == 1 and not self.resume_exc:
            out.append(Clause('C18.one_emission_per_completed_read', ['C18'], when='any', text='emitted == [data]'))
            # C03 (sources wait for the consumers of a record before they read the next one): the generic segment clauses
            # "a coroutine that emits suspends on what it has just emitted"
            out += [c for c in self.segment_clauses() if c.name.startswith('C03.')]
        else:
            out.append(Clause('C18.nothing_emitted_without_a_completed_read', ['C18'], when='any', text='emitted == []'))
        return out


class TcpHandlerResumed(TcpHandler):
    start = 1


class TcpHandlerClosed(TcpHandler):
    start = 1
    resume_exc = True


class TcpHandlerAfterEmission(TcpHandler):
    """resumed after the consumers of the record have finished: back to the head of the loop (a new read only while running)"""
    start = 2


ALL_TCP = [TcpHandler, TcpHandlerResumed, TcpHandlerClosed, TcpHandlerAfterEmission]
ALL = ALL + ALL_TCP


# --------------------------------------------------------------------------- from_process.run: the read / emit loop
class ProcessRun(SourceSeg):
    """from_process.run resumed with a line read from the child: the line is emitted (the read in progress when stop() was called may
    finish), and a stop request is never withdrawn by the loop itself; after the emission a new read begins only while the source is
    running."""
    cls = 'from_process'
    method = 'run'
    start = 2
    props = ['C18']
    reentrancy_generic = False
    assumptions = SourceSeg.assumptions + (
        'asyncio subprocess: stdout.readuntil is an opaque awaitable yielding the next line or raising IncompleteReadError; '
        'returncode is None while the child runs (trusted)', 'the set-up of the child process (segments 0 and 1) is not under contract')

    def make_self(self, I):
        f = SourceSeg.make_self(self, I)
        f['with_end'] = VBool(z3.Bool('with_end'))
        I.st.ghost['reads'] = VInt(0)
        return f

    def make_locals(self, I, selfv):
        proc = I.st.new_obj('Process', {'returncode': VElem(z3.Const('returncode', sym.Elem)),
                                        'stdout': VRef(z3.Const('child_stdout', sym.Obj), 'StreamReader')})
        loc = {'self': selfv, 'process': proc}
        if self.start == 3:
            loc['out'] = VElem(z3.Const('line_prev', sym.Elem))
        I.st.ghost['line'] = VElem(z3.Const('line', sym.Elem))
        return loc

    def resume(self, I, loc):
        return Resume(I.st.ghost['line']) if self.start == 2 else Resume(NONE)

    def summaries(self):
        d = SourceSeg.summaries(self)

        def readuntil(I, recv, args, kwargs):
            g = I.st.ghost
            g['reads'] = VInt(g['reads'].t + 1)
            return VAw(z3.Const(sym.fresh_name('readline'), sym.Aw))
        d['StreamReader.readuntil'] = readuntil
        d['Process.terminate'] = lambda I, recv, args, kwargs: NONE
        d['Process.wait'] = lambda I, recv, args, kwargs: VAw(z3.Const(sym.fresh_name('proc_wait'), sym.Aw))
        return d

    def clauses(self):
        if self.start == 2:
            return [Clause('C18.a_completed_read_is_emitted_and_never_withdraws_a_stop_request', ['C18'], when='yield:3',
                           text='emitted == [line] and implies(old(self.stopped), self.stopped) and reads == 0',
                           note='stop() during the read: the line in flight is delivered, the source stays stopped'),
                    Clause('C18.no_other_outcome', ['C18'], when='return', text='False')]
        return [Clause('C18.a_new_read_begins_only_while_the_source_is_running', ['C18'], when='yield:2',
                       text='not old(self.stopped) and reads == 1 and emitted == []'),
                Clause('C18.the_loop_ends_when_the_source_is_stopped', ['C18'], when='yield:4', text='old(self.stopped) and reads == 0 and emitted == []'),
                Clause('C18.the_loop_ends_when_the_source_is_stopped', ['C18'], when='return', text='old(self.stopped) and reads == 0 and emitted == []')]


class ProcessRunAfterEmission(ProcessRun):
    start = 3


ALL = ALL + [ProcessRun, ProcessRunAfterEmission]
