"""C20: Dask-backed nodes refine the step contracts of their core counterparts under the abstraction
val(future) (streamz/dask.py).  dask.distributed is a trusted dependency:
  client.submit(f, *a, **k)  returns a future whose value is f(*values(a), **k)
  client.scatter([x])[0]     has value x ; client.gather(fut) returns the value of fut."""
import ast
import time
import z3
from pyvc import sym
from pyvc.sym import (VInt, VBool, VNone, VStr, VElem, VSeq, VList, VTuple, VRef, VObj, VCallable, VBuiltin, VAw, VExc,
                      K_ELEM, K_MDE, K_AW)
from pyvc.state import State, PyRaise, Unsupported
from pyvc.contract import Contract, Clause, Result
from pyvc.interp import NONE, Frame, Resume
from .core_common import NodeUpdate, R
from .async_common import Segment
from .c_nodes_simple import PASS_THROUGH_PLUMBING, ARGS, KWARGS, downstream_raise_clauses

DASK = 'streamz/dask.py'
f_val = z3.Function('val', sym.Elem, sym.Elem)      # value of a (future or plain) datum


class DaskMixin:
    file = DASK
    files = [DASK, 'streamz/core.py']
    assumptions = ('dask.distributed: client.submit(f, *a, **k) returns a future whose value is f applied to the values of '
                   'its arguments; scatter([x])[0] has value x; gather(fut) returns the value of fut (trusted; evidence for '
                   'the cluster itself is only the existing test_dask.py)',
                   'user functions do not raise inside the cluster (a failing task surfaces at gather, outside this contract)')

    def dask_globals(self, I=None):
        return {'getitem': VStr('getitem'), 'apply': VStr('apply'), 'gen': VBuiltin('gen')}

    def dask_spec_funcs(self, d):
        def default_client(I, args, kwargs, fr):
            return I.st.new_obj('Client', {})

        def val(I, v):
            return VElem(f_val(I.as_elem(v)))

        def gen_return(I, args, kwargs, fr):
            return VExc('Return', payload=args[0] if args else NONE)
        d.update({'builtin_default_client': default_client, 'val': val, 'builtin_gen.Return': gen_return})
        return d

    def dask_summaries(self, d):
        def submit(I, recv, args, kwargs):
            f = args[0]
            fut = z3.Const(sym.fresh_name('fut'), sym.Elem)
            rest = list(args[1:])
            if isinstance(f, VStr) and f.s == 'getitem':
                res, idx = rest
                i = z3.simplify(I.num(idx)).as_long()
                I.st.assume(f_val(fut) == sym.f_untup(f_val(I.as_elem(res)))[i])
            elif isinstance(f, VStr) and f.s == 'apply':
                func, x, kw = rest
                flat = [f_val(I.as_elem(x)), I.as_elem(kw)]
                I.st.assume(f_val(fut) == sym.user_func(func.name, len(flat))(*flat))
            elif isinstance(f, VCallable):
                flat = []
                for a in rest:
                    if isinstance(a, tuple) and a[0] == '*':
                        flat.append(I.as_elem(a[1]))
                    else:
                        flat.append(f_val(I.as_elem(a)))
                for k in sorted(kwargs):
                    flat.append(I.as_elem(kwargs[k]))
                I.st.assume(f_val(fut) == sym.user_func(f.name, len(flat))(*flat))
            else:
                raise Unsupported('client.submit of %r' % (f,))
            I.st.ghost['submitted'] = VInt(I.st.ghost.get('submitted', VInt(0)).t + 1)
            return VElem(fut)

        def scatter(I, recv, args, kwargs):
            I.st.ghost['scattered'] = args[0]
            return VAw(z3.Const(sym.fresh_name('scatter_aw'), sym.Aw))

        def gather(I, recv, args, kwargs):
            I.st.ghost['gather_arg'] = args[0]
            return VAw(z3.Const(sym.fresh_name('gather_aw'), sym.Aw))
        d.update({'Client.submit': submit, 'Client.scatter': scatter, 'Client.gather': gather})
        return d


class DaskMap(DaskMixin, NodeUpdate):
    cls = 'map'
    name = 'dask.map.update'
    props = ['C20']
    emit_may_raise = False

    def make_self(self, I):
        return {'func': VCallable('func', may_raise=False), 'args': ARGS, 'kwargs': KWARGS}

    def globals(self):
        return self.dask_globals()

    def spec_funcs(self):
        return self.dask_spec_funcs(NodeUpdate.spec_funcs(self))

    def summaries(self):
        return self.dask_summaries(NodeUpdate.summaries(self))

    def clauses(self):
        return [Clause('C20.same_step_as_core_map_under_val', ['C20'],
                       text='len(emitted) == 1 and val(emitted[0]) == self.func(val(x), *self.args, **self.kwargs)',
                       note='one emission per input whose value is func(value of the input, *args, **kwargs)'),
                Clause('C20.metadata_unchanged', ['C20'], text='emitted_md == [metadata]'),
                Clause('C20.counters_untouched_like_core_map', ['C20'], text='delta == 0'),
                ] + [Clause('C20.returns_emit_result', ['C20'], text='result == emit_rets[0]')]


class DaskStarmap(DaskMap):
    cls = 'starmap'
    name = 'dask.starmap.update'

    def make_self(self, I):
        return {'func': VCallable('func', may_raise=False), 'kwargs': KWARGS}

    def clauses(self):
        return [Clause('C20.same_step_as_core_starmap_under_val', ['C20'],
                       text='len(emitted) == 1 and val(emitted[0]) == self.func(val(x), self.kwargs)',
                       note='value is func(*value of the input, **kwargs) (apply(func, x, kwargs))'),
                Clause('C20.metadata_unchanged', ['C20'], text='emitted_md == [metadata]'),
                Clause('C20.counters_untouched_like_core_starmap', ['C20'], text='delta == 0'),
                Clause('C20.returns_emit_result', ['C20'], text='result == emit_rets[0]')]


class DaskAccumulate(DaskMap):
    cls = 'accumulate'
    name = 'dask.accumulate.update'
    data_fields = ('state',)

    def make_self(self, I):
        return {'func': VCallable('func', may_raise=False), 'kwargs': KWARGS,
                'state': VElem(z3.Const('state0', sym.Elem)),
                'returns_state': VBool(z3.Bool('returns_state')), 'with_state': VBool(z3.Bool('with_state'))}

    def globals(self):
        g = self.dask_globals()
        return g

    def make_interp(self, index):
        I = NodeUpdate.make_interp(self, index)
        orig = I.get_attr

        def get_attr(obj, name, fr=None):
            if isinstance(obj, VBuiltin) and obj.name == 'core' and name == 'no_default':
                return VElem(sym.str_elem('--no-default--'))
            return orig(obj, name, fr)
        I.get_attr = get_attr
        I.globals['core'] = VBuiltin('core')
        I.globals['no_default'] = VElem(sym.str_elem('--no-default--'))
        return I

    def clauses(self):
        nd = "old(self.state is no_default)"
        f = "self.func(val(old(self.state)), val(x), **self.kwargs)"
        new_state_val = "(val(x) if %s else (fst(%s) if self.returns_state else %s))" % (nd, f, f)
        res_val = "(val(x) if %s else (snd(%s) if self.returns_state else %s))" % (nd, f, f)
        return [
            Clause('C20.state_is_fold_under_val', ['C20'], text='val(self.state) == ' + new_state_val,
                   note='same state/result selection as core.accumulate (returns_state, with_state, no_default)'),
            Clause('C20.emits_fold_value_under_val', ['C20'],
                   text='len(emitted) == 1 and implies(not self.with_state, val(emitted[0]) == %s) and '
                        'implies(self.with_state, fst(emitted[0]) == self.state and val(snd(emitted[0])) == %s)' % (res_val, res_val)),
            Clause('C20.metadata_unchanged', ['C20'], text='emitted_md == [metadata]'),
            Clause('C20.counters_untouched_like_core_accumulate', ['C20'], text='delta == 0'),
            Clause('C20.returns_emit_result', ['C20'], text='result == emit_rets[0]'),
            Clause('C20.state_set_before_emission', ['C20'], fn=self.reentrancy_clause(), when='return', kind='reentrancy'),
        ]


# --------------------------------------------------------------------------- scatter / gather (coroutines)
class DaskSeg(DaskMixin, Segment):
    emit_may_raise = False

    def globals(self):
        return self.dask_globals()

    def spec_funcs(self):
        return self.dask_spec_funcs(Segment.spec_funcs(self))

    def summaries(self):
        return self.dask_summaries(Segment.summaries(self))


class ScatterS0(DaskSeg):
    cls = 'scatter'
    method = 'update'
    start = 0
    props = ['C20', 'C04', 'C09']
    inflight_post = {'yield:1': 'occ(metadata)'}

    def clauses(self):
        return [Clause('C20.retains_before_suspending', ['C20', 'C04'], when='yield:1',
                       text='delta == occ(metadata) and emitted == []',
                       note='the element is held while it is being scattered'),
                Clause('C20.scatters_exactly_the_element', ['C20'], when='yield:1', text='scattered == [x]'),
                ] + self.segment_clauses()


class ScatterS1(DaskSeg):
    cls = 'scatter'
    method = 'update'
    start = 1
    props = ['C20', 'C04', 'C09']
    inflight_pre = 'occ(metadata)'
    inflight_post = {'yield:2': 'occ(metadata)'}

    def make_locals(self, I, selfv):
        loc = Segment.make_locals(self, I, selfv)
        loc['client'] = I.st.new_obj('Client', {})
        return loc

    def resume(self, I, loc):
        fut = z3.Const('scattered_future', sym.Elem)
        I.st.assume(f_val(fut) == loc['x'].t)           # trusted: scatter([x])[0] has value x
        I.st.ghost['fut'] = VElem(fut)
        return Resume(VTuple([VElem(fut)]))

    def clauses(self):
        return [Clause('C20.emits_a_future_whose_value_is_the_element', ['C20'], when='yield:2',
                       text='emitted == [fut] and val(emitted[0]) == x and emitted_md == [metadata] and delta == 0'),
                ] + self.segment_clauses()


class ScatterS2(DaskSeg):
    cls = 'scatter'
    method = 'update'
    start = 2
    props = ['C20', 'C04', 'C05', 'C09']
    inflight_pre = 'occ(metadata)'

    def make_locals(self, I, selfv):
        loc = Segment.make_locals(self, I, selfv)
        loc['client'] = I.st.new_obj('Client', {})
        loc['future'] = VElem(z3.Const('future_l', sym.Elem))
        loc['future_as_list'] = VTuple([loc['future']])
        return loc

    def resume(self, I, loc):
        return Resume(I.st.new_list(z3.Const('f_l', sym.SeqAwS), K_AW))

    def clauses(self):
        return [Clause('C20.releases_after_the_awaited_emission', ['C20', 'C04', 'C05'], when='raise:Return',
                       text='delta == -occ(metadata) and emitted == []')]

    def cover(self, outcomes):
        return [('segment ends with gen.Return', any(o.kind == 'raise' and o.value.cls == 'Return' for o in outcomes))]


class GatherS0(ScatterS0):
    cls = 'gather'
    name = 'dask.gather.update@0'

    def clauses(self):
        return [Clause('C20.retains_before_suspending', ['C20', 'C04'], when='yield:1',
                       text='delta == occ(metadata) and emitted == []'),
                Clause('C20.gathers_exactly_the_element', ['C20'], when='yield:1', text='gather_arg == x'),
                ] + self.segment_clauses()


class GatherS1(ScatterS1):
    cls = 'gather'
    name = 'dask.gather.update@1'

    def resume(self, I, loc):
        res = VElem(f_val(loc['x'].t))          # trusted: gather(fut) returns the value of fut
        return Resume(res)

    def clauses(self):
        return [Clause('C20.emits_the_value_of_the_future', ['C20'], when='yield:2',
                       text='len(emitted) == 1 and emitted[0] == val(x) and emitted_md == [metadata] and delta == 0'),
                ] + self.segment_clauses()


class GatherS2(ScatterS2):
    cls = 'gather'
    name = 'dask.gather.update@2'

    def make_locals(self, I, selfv):
        loc = Segment.make_locals(self, I, selfv)
        loc['client'] = I.st.new_obj('Client', {})
        loc['result'] = VElem(z3.Const('result_l', sym.Elem))
        return loc




class GatherS1Failed(GatherS1):
    """the future handed to gather failed: the failure reaches whoever awaits update(), nothing is emitted and the element is NOT
    released (C04/C16: a failed element never reaches count 0, i.e. is never checkpointed)"""
    name = 'dask.gather.update@1[future failed]'
    props = ['C20', 'C04', 'C16']

    def resume(self, I, loc):
        return Resume(exc=VExc('UserError', payload='remote'))

    def clauses(self):
        return [Clause('C16.failed_future_keeps_the_hold_and_emits_nothing', ['C16', 'C04', 'C20'], when='raise',
                       text='delta == 0 and emitted == []')]

    def cover(self, outcomes):
        return [('the failure propagates', any(o.kind == 'raise' for o in outcomes))]


class GatherS2Failed(GatherS2):
    """the downstream emission failed: the hold stays"""
    name = 'dask.gather.update@2[downstream failed]'
    props = ['C20', 'C04', 'C16']

    def resume(self, I, loc):
        return Resume(exc=VExc('DownstreamError'))

    def clauses(self):
        return [Clause('C16.failed_downstream_keeps_the_hold', ['C16', 'C04', 'C20'], when='raise:DownstreamError',
                       text='delta == 0 and emitted == []')]

    def cover(self, outcomes):
        return [('the failure propagates', any(o.kind == 'raise' for o in outcomes))]


class ScatterS1Failed(ScatterS1):
    name = 'scatter.update@1[scatter failed]'
    props = ['C20', 'C04', 'C16']

    def resume(self, I, loc):
        return Resume(exc=VExc('UserError', payload='remote'))

    def clauses(self):
        return [Clause('C16.failed_scatter_keeps_the_hold_and_emits_nothing', ['C16', 'C04', 'C20'], when='raise',
                       text='delta == 0 and emitted == []')]

    def cover(self, outcomes):
        return [('the failure propagates', any(o.kind == 'raise' for o in outcomes))]


class ScatterS2Failed(ScatterS2):
    name = 'scatter.update@2[downstream failed]'
    props = ['C20', 'C04', 'C16']

    def resume(self, I, loc):
        return Resume(exc=VExc('DownstreamError'))

    def clauses(self):
        return [Clause('C16.failed_downstream_keeps_the_hold', ['C16', 'C04', 'C20'], when='raise:DownstreamError',
                       text='delta == 0 and emitted == []')]

    def cover(self, outcomes):
        return [('the failure propagates', any(o.kind == 'raise' for o in outcomes))]


# --------------------------------------------------------------------------- the mixin classes inherit the core update
class DaskMixinsInheritCore(Contract):
    """Syntactic obligation: every class  X(DaskStream, core.X)  of dask.py has an empty body, and DaskStream does not
    define update/_emit, so X.update is core.X.update (whose contracts are proved for C01..C10)."""
    file = DASK
    files = [DASK, 'streamz/core.py']
    qual = 'DaskStream.__init__'
    name = 'dask mixin classes inherit the core step'
    # the Dask variants of the nodes carry the properties of their core classes (rate_limit: C13, latest: C14, partition /
    # timed_window: C08, buffer / delay: C02, C03, zip / union / combine_latest / sliding_window: C01)
    props = ['C20', 'C13', 'C14', 'C08', 'C01', 'C02', 'C03']
    MIXINS = ['buffer', 'combine_latest', 'delay', 'latest', 'partition', 'rate_limit', 'sliding_window', 'timed_window',
              'union', 'zip']

    def verify(self, index, props=None, want_models=True):
        src, tree = index.files[DASK]
        classes = {n.name: n for n in tree.body if isinstance(n, ast.ClassDef)}
        res = []
        t0 = time.time()
        ds = classes.get('DaskStream')
        ok = ds is not None and not any(isinstance(m, (ast.FunctionDef, ast.AsyncFunctionDef)) and m.name in ('update', '_emit', 'emit')
                                        for m in ds.body)
        res.append(Result(self.name + '/DaskStream_defines_no_update_or_emit', self.props, 'proved' if ok else 'failed',
                          'syntactic', time.time() - t0, path='ast', contract=self))
        for name in self.MIXINS:
            c = classes.get(name)
            good = False
            if c is not None:
                bases = [ast.unparse(b) for b in c.bases]
                body_ok = all(isinstance(s, ast.Pass) or (isinstance(s, ast.Expr) and isinstance(s.value, ast.Constant)) for s in c.body)
                good = bases == ['DaskStream', 'core.' + name] and body_ok
            res.append(Result('%s/%s_is_core_%s' % (self.name, name, name), self.props, 'proved' if good else 'failed',
                              'syntactic', time.time() - t0, path='ast', contract=self,
                              detail='' if good else 'class %s of dask.py is not `class %s(DaskStream, core.%s): pass`' % (name, name, name)))
        # gather() ends the Dask part: it is a core Stream, so that nodes attached behind it resolve to the core classes (a
        # DaskStream would hand .map / .starmap / .accumulate to the Dask variants again, which expect futures); scatter() starts it
        g, sc = classes.get('gather'), classes.get('scatter')
        g_ok = g is not None and [ast.unparse(b) for b in g.bases] == ['core.Stream']
        res.append(Result(self.name + '/gather_is_a_core_stream_the_pipeline_is_local_again_behind_it', self.props,
                          'proved' if g_ok else 'failed', 'syntactic', time.time() - t0, path='ast', contract=self,
                          detail='' if g_ok else 'class gather of dask.py does not derive from core.Stream alone'))
        s_ok = sc is not None and [ast.unparse(b) for b in sc.bases] == ['DaskStream']
        res.append(Result(self.name + '/scatter_is_a_DaskStream', self.props, 'proved' if s_ok else 'failed', 'syntactic',
                          time.time() - t0, path='ast', contract=self,
                          detail='' if s_ok else 'class scatter of dask.py does not derive from DaskStream'))
        for name in ('map', 'starmap', 'accumulate'):
            c = classes.get(name)
            good = c is not None and [ast.unparse(b) for b in c.bases] == ['DaskStream']
            res.append(Result('%s/dask_%s_is_a_DaskStream' % (self.name, name), self.props, 'proved' if good else 'failed', 'syntactic',
                              time.time() - t0, path='ast', contract=self,
                              detail='' if good else 'class %s of dask.py does not derive from DaskStream' % name))
        self.outcomes = []
        return res, {'paths': 0, 'seconds': 0, 'branch_checks': 0, 'outcomes': [], 'dropped': [], 'cover': []}


class DaskSubmitKeys(Contract):
    """Syntactic obligation on every `client.submit(...)` of dask.py: dask identifies a task by its key -- two submissions with the
    same key are ONE task, the second caller gets the first one's future.  Left to dask, the key is a token of the function and of
    all arguments.  A key chosen by the caller (`key=...`) must therefore depend on everything the task's result depends on: every
    name / attribute the other arguments of the call mention must also be mentioned by the key expression (through local
    assignments).  No `key=` at all satisfies the obligation."""
    file = DASK
    files = [DASK, 'streamz/core.py']
    qual = 'DaskStream.__init__'
    name = 'dask task keys determine the task'
    props = ['C20']

    @staticmethod
    def _refs(expr, env, depth=0):
        out = set()
        for n in ast.walk(expr):
            if isinstance(n, ast.Attribute):
                out.add(ast.unparse(n))
            elif isinstance(n, ast.Name):
                if n.id in env and depth < 4:
                    out |= DaskSubmitKeys._refs(env[n.id], env, depth + 1)
                else:
                    out.add(n.id)
        # an attribute chain a.b.c also mentions a.b and a
        return set(r for r in out if not any(o != r and o.startswith(r + '.') for o in out))

    def verify(self, index, props=None, want_models=True):
        src, tree = index.files[DASK]
        res = []
        t0 = time.time()
        n_calls = 0
        for cls in [n for n in tree.body if isinstance(n, ast.ClassDef)]:
            for fn in [m for m in cls.body if isinstance(m, (ast.FunctionDef, ast.AsyncFunctionDef))]:
                env = {}
                for st in ast.walk(fn):
                    if isinstance(st, ast.Assign) and len(st.targets) == 1 and isinstance(st.targets[0], ast.Name):
                        env[st.targets[0].id] = st.value
                for call in [c for c in ast.walk(fn) if isinstance(c, ast.Call) and isinstance(c.func, ast.Attribute) and c.func.attr == 'submit']:
                    n_calls += 1
                    key = [k.value for k in call.keywords if k.arg == 'key']
                    ok, detail = True, ''
                    if key:
                        kenv = {k: v for k, v in env.items()}
                        have = self._refs(key[0], kenv)
                        need = set()
                        for a in list(call.args) + [k.value for k in call.keywords if k.arg not in ('key', 'pure', 'workers', 'retries', 'priority', 'resources')]:
                            need |= self._refs(a.value if isinstance(a, ast.Starred) else a, {})
                        need -= {'apply', 'getitem', 'operator.getitem'}
                        missing = sorted(r for r in need if r not in have)
                        ok = not missing
                        detail = '' if ok else ('%s.%s: the task key does not depend on %s, which the task is given' % (cls.name, fn.name, ', '.join(missing)))
                    res.append(Result('%s/%s.%s_submit_line_%d' % (self.name, cls.name, fn.name, call.lineno), self.props,
                                      'proved' if ok else 'failed', 'syntactic', time.time() - t0, path='ast', contract=self, detail=detail))
        res.append(Result(self.name + '/submit_calls_found', self.props, 'proved' if n_calls >= 3 else 'failed', 'syntactic', time.time() - t0,
                          path='ast', contract=self, detail='' if n_calls >= 3 else 'only %d client.submit calls located in dask.py' % n_calls))
        self.outcomes = []
        return res, {'paths': 0, 'seconds': 0, 'branch_checks': 0, 'outcomes': [], 'dropped': [], 'cover': []}


ALL = [DaskSubmitKeys, DaskMap, DaskStarmap, DaskAccumulate, ScatterS0, ScatterS1, ScatterS2, GatherS0, GatherS1, GatherS2, GatherS1Failed, GatherS2Failed, ScatterS1Failed, ScatterS2Failed,
       DaskMixinsInheritCore]
