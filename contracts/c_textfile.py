"""C17: from_textfile._run and filenames._run (streamz/sources.py) over z3/cvc5 strings."""
import z3
from pyvc import sym
from pyvc.sym import (VInt, VReal, VBool, VNone, VStr, VString, VElem, VSeq, VList, VTuple, VRef, VObj, VBuiltin,
                      VAw, K_STRING, K_ELEM, Kind, KSeq)
from pyvc.state import State, PyRaise, Unsupported
from pyvc.contract import Contract, Clause
from pyvc.interp import NONE, Frame
from pyvc.loops import LoopSpec

SRC = 'streamz/sources.py'
StrS = z3.StringSort()
SeqStrS = z3.SeqSort(StrS)
K_STRINGS = KSeq(K_STRING)

# homomorphisms over a sequence of strings (extra parameter: the delimiter d)
with_delim = sym.SpecFun('with_delim', [StrS], SeqStrS, SeqStrS, zero=lambda d: z3.Empty(SeqStrS),
                         one=lambda d, p: z3.Unit(z3.Concat(p, d)), plus=lambda a, b: z3.Concat(a, b))
cat = sym.SpecFun('cat', [], SeqStrS, StrS, zero=lambda: z3.StringVal(''), one=lambda e: e,
                  plus=lambda a, b: z3.Concat(a, b))
joind = sym.SpecFun('joind', [StrS], SeqStrS, StrS, zero=lambda d: z3.StringVal(''),
                    one=lambda d, p: z3.Concat(p, d), plus=lambda a, b: z3.Concat(a, b))
# leftmost cut: the first occurrence of d in p + d is at offset |p|
cut_ok = sym.SpecFun('cut_ok', [StrS], SeqStrS, z3.BoolSort(), zero=lambda d: z3.BoolVal(True),
                     one=lambda d, p: z3.IndexOf(z3.Concat(p, d), d, 0) == z3.Length(p), plus=lambda a, b: z3.And(a, b))
# L-IDX (string fact, proved by cvc5 in TextLemmas): if the first occurrence of d in p + d is at |p| then d does not occur in p
cut_ok.consequences = [lambda d, p: z3.Implies(z3.IndexOf(z3.Concat(p, d), d, 0) == z3.Length(p), z3.Not(z3.Contains(p, d)))]
# records: each emitted record ends with d and contains d nowhere else
rec_ok = sym.SpecFun('rec_ok', [StrS], SeqStrS, z3.BoolSort(), zero=lambda d: z3.BoolVal(True),
                     one=lambda d, e: z3.And(z3.Length(e) >= z3.Length(d), z3.IndexOf(e, d, 0) == z3.Length(e) - z3.Length(d)),
                     plus=lambda a, b: z3.And(a, b))


def _text_lemmas(formulas):
    """L-JOIN: cat(with_delim(d, s)) == joind(d, s);  L-REC: cut_ok(d, s) ==> rec_ok(d, with_delim(d, s)).
    Both are proved by induction on s in TextLemmas below; here they are instantiated for the with_delim terms at hand."""
    out, seen, apps = [], set(), []
    for f in formulas:
        sym._walk(f, seen, apps)
    for sf, app in apps:
        if sf is with_delim:
            d, s = app.arg(0), app.arg(1)
            out.append(cat(app) == joind(d, s))
            out.append(z3.Implies(cut_ok(d, s), rec_ok(d, app)))
    return out


sym.EXTRA_LEMMAS.append(_text_lemmas)


class TextLemmas(Contract):
    """Induction proofs (base and step, unfolding axioms only) of the two lemmas used by TextfileRun."""
    file = SRC
    files = [SRC]
    qual = 'from_textfile._run'
    name = 'lemmas L-JOIN, L-REC (induction over the parts)'
    props = ['C17']

    def verify(self, index, props=None, want_models=True):
        from pyvc.contract import Result
        import time
        d = z3.String('lem_d')
        P = z3.Const('lem_P', SeqStrS)
        p = z3.String('lem_p')
        Pp = z3.Concat(P, z3.Unit(p))
        E = z3.Empty(SeqStrS)
        goals = [
            ('L-JOIN.base', [], cat(with_delim(d, E)) == joind(d, E)),
            ('L-JOIN.step', [cat(with_delim(d, P)) == joind(d, P)], cat(with_delim(d, Pp)) == joind(d, Pp)),
            ('L-REC.base', [], z3.Implies(cut_ok(d, E), rec_ok(d, with_delim(d, E)))),
            ('L-REC.step', [z3.Implies(cut_ok(d, P), rec_ok(d, with_delim(d, P)))],
             z3.Implies(cut_ok(d, Pp), rec_ok(d, with_delim(d, Pp)))),
        ]
        a_ = z3.String('lem_a')
        goals.append(('L-IDX', [z3.Length(d) >= 1, z3.IndexOf(z3.Concat(a_, d), d, 0) == z3.Length(a_)],
                      z3.Not(z3.Contains(a_, d))))
        res = []
        for name, assm, goal in goals:
            t0 = time.time()
            fs = list(assm) + [z3.Not(goal)]
            ax = sym._unfold_only(fs)
            s = z3.Solver()
            s.set('timeout', 3000 if name == 'L-IDX' else 20000)
            s.add(*fs)
            s.add(*ax)
            r = s.check()
            backend = 'z3'
            status = 'proved' if r == z3.unsat else ('failed' if r == z3.sat else 'unknown')
            if r == z3.unknown:
                from pyvc.contract import run_cvc5
                rc = run_cvc5(s.to_smt2().replace('(check-sat)', ''), 60)
                backend = 'cvc5'
                status = 'proved' if rc == 'unsat' else ('failed' if rc == 'sat' else 'unknown')
            res.append(Result('%s/%s' % (self.name, name), self.props, status, backend, time.time() - t0, path='lemma',
                              contract=self))
        self.outcomes = []
        return res, {'paths': 0, 'seconds': 0, 'branch_checks': 0, 'outcomes': [], 'dropped': [], 'cover': []}


class TextfileRun(Contract):
    file = SRC
    files = [SRC, 'streamz/core.py']
    qual = 'from_textfile._run'
    props = ['C17']
    harness = 'textfile_harness'
    assumptions = ("str.split(d) for |d| >= 1 (trusted): parts is non-empty, d.join(parts) == s, every part p is cut at the "
                   "leftmost delimiter (the first occurrence of d in p + d is at offset |p|)",
                   'file.read() returns exactly the text appended since the previous read (text mode, append-only writer)',
                   'only one _run is active at a time (C18), so the awaits inside _run are not interference points for self.buffer')

    binary = False      # True: the source opened the file itself (bytes, decoded incrementally); False: a text file object was handed in

    def __init__(self):
        Contract.__init__(self)
        self.name = 'from_textfile._run[%s]' % ('file opened by name: bytes decoded incrementally' if self.binary else 'text file object')

    def build(self, I):
        st = State()
        I.st = st
        g = st.ghost
        buf, line, d = z3.String('buffer0'), z3.String('line'), z3.String('delimiter')
        st.assume(z3.Length(d) >= 1)
        st.assume(z3.Not(z3.Contains(buf, d)))      # invariant: the held-back tail contains no delimiter
        g['emitted_s'] = VSeq(z3.Empty(SeqStrS), K_STRING)
        g['sleeps'] = VInt(0)
        g['unawaited'] = VInt(0)         # records pushed downstream whose delivery this coroutine has not awaited yet
        g['line'] = VString(line)
        selfv = st.new_obj('from_textfile', {'buffer': VString(buf), 'delimiter': VString(d),
                                             'file': VRef(z3.Const('file', sym.Obj), 'File'),
                                             '_decoder': VRef(z3.Const('decoder', sym.Obj), 'Decoder'),
                                             'poll_interval': VReal(z3.Real('poll'))})
        self.pre_args = {'self': selfv}
        self.pre_state = st.snapshot()
        g['_pre'] = (self.pre_state, self.pre_args)
        I.contract_pre = self.pre_state
        I.contract_pre_frame = self.pre_frame(I)
        I.segment_mode = True
        return selfv, [], {}

    def globals(self):
        return {'asyncio': VBuiltin('asyncio'), 'bytes': sym.VClass('bytes')}

    def summaries(self):
        outer = self

        def read(I, recv, args, kwargs):
            if outer.binary:
                # the bytes appended since the previous read: an opaque object; only the incremental decoder turns it into text
                b = VBuiltin('bytes_read')
                I.st.ghost['bytes_read'] = b
                return b
            return I.st.ghost['line']

        def decode(I, recv, args, kwargs):
            # TRUSTED contract of codecs' incremental decoders: fed the bytes of every read, in order and exactly once, the
            # pieces returned concatenate to the decoding of the bytes read so far (minus an incomplete trailing character, which
            # is kept inside the decoder).  `line` is the piece of this poll.
            I.oblige('C17.the_decoder_is_fed_exactly_the_bytes_just_read',
                     z3.BoolVal(len(args) == 1 and not kwargs and args[0] is I.st.ghost.get('bytes_read') and not I.st.ghost.get('decoded')),
                     kind='callsite')
            I.st.obligations[-1].props = ['C17']
            I.st.ghost['decoded'] = True
            return I.st.ghost['line']

        def emit(I, recv, args, kwargs):
            g = I.st.ghost
            if 'unawaited' in g:
                I.oblige('C03.previous_record_is_awaited_before_the_next_is_pushed', g['unawaited'].t == 0, kind='callsite',
                         note='sources await the downstream result of each emission before reading / pushing more (backpressure)')
                I.st.obligations[-1].props = ['C03']
                g['unawaited'] = VInt(g['unawaited'].t + 1)
            g['emitted_s'] = VSeq(z3.Concat(g['emitted_s'].t, z3.Unit(I.string_term(args[0]))), K_STRING)
            t = z3.Const(sym.fresh_name('aws'), sym.SeqAwS)
            g['last_emit_term'] = t
            return I.st.new_list(t, sym.K_AW)

        def split(I, recv, args, kwargs):
            s = I.string_term(recv)
            d = I.string_term(args[0])
            parts = z3.Const(sym.fresh_name('parts'), SeqStrS)
            init = z3.Const(sym.fresh_name('parts_init'), SeqStrS)
            last = z3.String(sym.fresh_name('parts_last'))
            # TRUSTED contract of str.split
            I.st.assume(parts == z3.Concat(init, z3.Unit(last)))
            I.st.assume(z3.Concat(s, d) == joind(d, parts))
            I.st.assume(cut_ok(d, parts))
            return I.st.new_list(parts, K_STRING)
        return {'File.read': read, 'Decoder.decode': decode, 'Stream._emit': emit, 'str.split': split}

    def spec_funcs(self):
        def isinstance_hook(I, v, n):
            if n == 'bytes':
                return isinstance(v, VBuiltin) and v.name == 'bytes_read'
            raise Unsupported('isinstance(..., %s)' % n)

        def gather(I, args, kwargs, fr):
            a = VAw(z3.Const(sym.fresh_name('gather'), sym.Aw))
            last = I.st.ghost.get('last_emit_term')
            a.covers_last_emit = False
            for x in args:
                v = x[1] if isinstance(x, tuple) else x
                try:
                    t, k = I.seq_term(v)
                except Unsupported:
                    continue
                if last is not None and t is not None and t.eq(last):
                    a.covers_last_emit = True
            return a

        def sleep(I, args, kwargs, fr):
            I.st.ghost['sleeps'] = VInt(I.st.ghost['sleeps'].t + 1)
            return VAw(z3.Const(sym.fresh_name('sleep'), sym.Aw))

        def yield_(I, v, node, fr):
            if getattr(v, 'covers_last_emit', False) and 'unawaited' in I.st.ghost:
                I.st.ghost['unawaited'] = VInt(0)
            return NONE

        def cat_(I, s):
            return VString(cat(I.seq_term(s)[0]))

        def with_delim_(I, s):
            d = I.st.heap[self.pre_args['self'].loc].fields['delimiter'].t
            return VSeq(with_delim(d, I.seq_term(s)[0]), K_STRING)

        def rec_ok_(I, s):
            d = I.st.heap[self.pre_args['self'].loc].fields['delimiter'].t
            return VBool(rec_ok(d, I.seq_term(s)[0]))

        def implies_(I, a, b):
            return VBool(z3.Implies(I.truth(a), I.truth(b)))
        return {'builtin_asyncio.gather': gather, 'builtin_asyncio.sleep': sleep, 'yield': yield_, 'cat': cat_,
                'with_delim': with_delim_, 'rec_ok': rec_ok_, 'implies': implies_, 'isinstance': isinstance_hook}

    def loop_specs(self):
        return {('from_textfile._run', 0): LoopSpec(
            modifies=['ghost:emitted_s', 'ghost:unawaited'],
            invariant=[('one_record_per_processed_part', 'emitted_s == with_delim(_P)'),
                       ('every_pushed_record_has_been_awaited', 'unawaited == 0')],
            props=['C17', 'C03'], name='parts')}

    def clauses(self):
        return [
            Clause('C17.text_is_conserved', ['C17'], when='return',
                   text='old(self.buffer) + line == cat(emitted_s) + self.buffer',
                   note='what was held back plus what was read == the emitted records (in order, unmodified) plus the new tail'),
            Clause('C03.every_pushed_record_has_been_awaited', ['C03'], when='return', text='unawaited == 0',
                   note='the source reads more only after everything it pushed has been consumed downstream'),
            Clause('C17.tail_has_no_delimiter', ['C17'], when='return', text='not (self.delimiter in self.buffer)',
                   note='an unterminated tail is held back; a terminated record never stays in the buffer'),
            Clause('C17.records_are_cut_at_the_leftmost_delimiter', ['C17'], when='return', text='rec_ok(emitted_s)',
                   note='every emitted record ends with the delimiter and contains it nowhere else: the emitted records are '
                        'exactly the leftmost split of the whole text, however it was chunked into reads'),
            Clause('C17.idle_poll_sleeps', ['C17'], when='return',
                   text='implies(len(line) == 0, sleeps == 1 and len(emitted_s) == 0 and self.buffer == old(self.buffer))'),
        ]


class TextfileRunBytes(TextfileRun):
    binary = True
    assumptions = TextfileRun.assumptions + (
        'codecs incremental decoder (trusted; exercised by the bounded byte-level enumeration on a real file): fed the bytes of '
        'every read in order, the returned pieces concatenate to the decoded text, an incomplete trailing character is kept back',)

    def clauses(self):
        return TextfileRun.clauses(self) + [
            Clause('C17.bytes_read_are_decoded_before_use', ['C17'], when='return', fn=lambda self_, I, o, fr: z3.BoolVal(bool(o.state.ghost.get('decoded'))),
                   note='what is read from a file opened by name is bytes: it goes through the incremental decoder, once')]


ALL = [TextLemmas, TextfileRun, TextfileRunBytes]


# --------------------------------------------------------------------------- filenames._run
from pyvc.state import SetCell
StrBoolArr = z3.ArraySort(StrS, z3.BoolSort())
f_sorted = z3.Function('sorted_distinct', SeqStrS, z3.BoolSort())


class FilenamesRun(Contract):
    file = SRC
    files = [SRC, 'streamz/core.py']
    qual = 'filenames._run'
    props = ['C17']
    harness = 'textfile_harness'
    assumptions = ('glob(path) returns the currently existing matching paths (trusted); sorted(s) returns the members of s, '
                   'each once, in ascending order (trusted)',
                   'only one _run is active at a time (C18)')

    def build(self, I):
        st = State()
        I.st = st
        g = st.ghost
        seen0 = z3.Const('seen0', StrBoolArr)
        G = z3.Const('globbed', StrBoolArr)
        g['emitted_s'] = VSeq(z3.Empty(SeqStrS), K_STRING)
        g['sleeps'] = VInt(0)
        g['emitted_before_seen'] = VBool(False)
        g['S'] = VSeq(z3.Const('sorted_listing_never_computed', SeqStrS), K_STRING)     # replaced by the code's own sorted(...)
        self.seen0, self.G = seen0, G
        seen_card = z3.Int('seen_card')
        st.assume(seen_card >= 0)
        selfv = st.new_obj('filenames', {'seen': st.new_set(SetCell(seen0, K_STRING, seen_card)), 'path': VString(z3.String('path')),
                                         'poll_interval': VReal(z3.Real('poll'))})
        self.pre_args = {'self': selfv}
        self.pre_state = st.snapshot()
        g['_pre'] = (self.pre_state, self.pre_args)
        I.contract_pre = self.pre_state
        I.contract_pre_frame = self.pre_frame(I)
        I.segment_mode = True
        return selfv, [], {}

    def globals(self):
        return {'asyncio': VBuiltin('asyncio')}

    def summaries(self):
        def emit(I, recv, args, kwargs):
            g = I.st.ghost
            t = I.string_term(args[0])
            seen = I.st.heap[I.st.heap[recv.loc].fields['seen'].loc].member
            # re-entrancy: the path must already be recorded as seen when it is emitted
            g['emitted_before_seen'] = VBool(z3.Or(g['emitted_before_seen'].t, z3.Not(z3.Select(seen, t))))
            g['emitted_s'] = VSeq(z3.Concat(g['emitted_s'].t, z3.Unit(t)), K_STRING)
            return I.st.new_list(z3.Const(sym.fresh_name('aws'), sym.SeqAwS), sym.K_AW)
        return {'Stream._emit': emit}

    def spec_funcs(self):
        def glob(I, args, kwargs, fr):
            # the listing: some finite set of paths; its size is an unknown number (no relation to the sizes of other sets is
            # assumed, so code that compares sizes instead of contents is not trusted to have compared the contents)
            card = z3.Int('glob_card')
            I.st.assume(card >= 0)
            return I.st.new_set(SetCell(self.G, K_STRING, card))

        def set_(I, args, kwargs, fr):
            return args[0]

        def sorted_(I, args, kwargs, fr):
            c = I.st.heap[args[0].loc]
            S = z3.Const('sorted_new', SeqStrS)
            k = z3.String(sym.fresh_name('k'))
            # TRUSTED contract of sorted() over a set
            I.st.assume(z3.ForAll([k], z3.Contains(S, z3.Unit(k)) == z3.Select(c.member, k)))
            I.st.assume(f_sorted(S))
            I.st.ghost['S'] = VSeq(S, K_STRING)
            return VSeq(S, K_STRING)

        def gather(I, args, kwargs, fr):
            return VAw(z3.Const(sym.fresh_name('gather'), sym.Aw))

        def sleep(I, args, kwargs, fr):
            I.st.ghost['sleeps'] = VInt(I.st.ghost['sleeps'].t + 1)
            return VAw(z3.Const(sym.fresh_name('sleep'), sym.Aw))

        def seen_is(I, prefix):
            """seen == seen0 union set(prefix)"""
            c = I.st.heap[I.st.heap[self.pre_args['self'].loc].fields['seen'].loc]
            t = I.seq_term(prefix)[0]
            k = z3.String(sym.fresh_name('k'))
            return VBool(z3.ForAll([k], z3.Select(c.member, k) == z3.Or(z3.Select(self.seen0, k), z3.Contains(t, z3.Unit(k)))))

        def seen_is_union_glob(I):
            c = I.st.heap[I.st.heap[self.pre_args['self'].loc].fields['seen'].loc]
            k = z3.String(sym.fresh_name('k'))
            return VBool(z3.ForAll([k], z3.Select(c.member, k) == z3.Or(z3.Select(self.seen0, k), z3.Select(self.G, k))))

        def none_seen_before(I, s):
            t = I.seq_term(s)[0]
            k = z3.String(sym.fresh_name('k'))
            return VBool(z3.ForAll([k], z3.Implies(z3.Contains(t, z3.Unit(k)), z3.And(z3.Not(z3.Select(self.seen0, k)), z3.Select(self.G, k)))))

        def is_sorted(I, s):
            return VBool(f_sorted(I.seq_term(s)[0]))
        return {'builtin_glob': glob, 'builtin_set': set_, 'builtin_sorted': sorted_, 'builtin_asyncio.gather': gather,
                'builtin_asyncio.sleep': sleep, 'yield': lambda I, v, node, fr: NONE, 'seen_is': seen_is,
                'seen_is_union_glob': seen_is_union_glob, 'none_seen_before': none_seen_before, 'is_sorted': is_sorted}

    def loop_specs(self):
        return {('filenames._run', 0): LoopSpec(
            modifies=['ghost:emitted_s', 'ghost:emitted_before_seen', 'self.seen'],
            invariant=[('emitted_the_processed_paths', 'emitted_s == _P'),
                       ('seen_tracks_emitted', 'seen_is(_P)'),
                       ('recorded_before_emitting', 'not emitted_before_seen')],
            props=['C17'], name='new_paths')}

    def clauses(self):
        return [
            Clause('C17.emits_new_paths_in_sorted_order', ['C17'], when='return',
                   text='emitted_s == S and is_sorted(emitted_s) and none_seen_before(emitted_s)',
                   note='one poll emits sorted(glob - seen): every new matching path exactly once, in sorted order, none that was emitted before'),
            Clause('C17.remembers_every_emitted_path', ['C17'], when='return', text='seen_is_union_glob()'),
            Clause('C17.path_recorded_before_it_is_emitted', ['C17'], when='return', text='not emitted_before_seen',
                   note='a re-entrant or overlapping poll cannot repeat the path'),
            Clause('C17.sleeps_once_per_poll', ['C17'], when='return', text='sleeps == 1'),
        ]


ALL += [FilenamesRun]


class FilenamesInit(Contract):
    """filenames(path): a directory is turned into the pattern that matches exactly its entries; a pattern, and a path that is no
    directory, are kept as given.  (C17: `filenames` emits every file that appears under the directory the caller named.)"""
    file = SRC
    files = [SRC, 'streamz/core.py']
    qual = 'filenames.__init__'
    props = ['C17']
    assumptions = ('os.path.isdir is an opaque predicate of the path; os.path.sep is "/" (POSIX; the code itself appends "/")',
                   'Source.__init__ is summarised (its own contract: Source.__init__)')

    def build(self, I):
        st = State()
        I.st = st
        g = st.ghost
        g['base_inits'] = VInt(0)
        selfv = st.new_obj('filenames', {})
        path = VString(z3.String('path'))
        poll = VReal(z3.Real('poll'))
        self.isdir = z3.Bool('path_is_a_directory')
        self.pre_args = {'self': selfv, 'path': path, 'poll_interval': poll}
        self.pre_state = st.snapshot()
        g['_pre'] = (self.pre_state, self.pre_args)
        I.contract_pre = self.pre_state
        I.contract_pre_frame = self.pre_frame(I)
        return selfv, [path], {'poll_interval': poll}

    def globals(self):
        return {'os': VBuiltin('os')}

    def summaries(self):
        def endswith(I, recv, args, kwargs):
            a = args[0]
            if isinstance(a, VBuiltin) and a.name == 'os.path.sep':
                a = VStr('/')
            return VBool(z3.SuffixOf(I.string_term(a), I.string_term(recv)))

        def base_init(I, recv, args, kwargs):
            I.st.ghost['base_inits'] = VInt(I.st.ghost['base_inits'].t + 1)
            return NONE
        return {'str.endswith': endswith, 'Source.__init__': base_init, 'Stream.__init__': base_init}

    def spec_funcs(self):
        def isdir(I, args, kwargs, fr):
            return VBool(self.isdir)

        def is_dir(I):
            return VBool(self.isdir)

        def ends_with_sep(I, s):
            return VBool(z3.SuffixOf(z3.StringVal('/'), I.string_term(s)))

        def implies_(I, a, b):
            return VBool(z3.Implies(I.truth(a), I.truth(b)))

        def set_(I, args, kwargs, fr):
            if args:
                raise Unsupported('set(...) with an argument in filenames.__init__')
            return I.st.new_set(SetCell(z3.K(StrS, z3.BoolVal(False)), K_STRING, z3.IntVal(0)))
        return {'builtin_os.path.isdir': isdir, 'is_dir': is_dir, 'ends_with_sep': ends_with_sep, 'implies': implies_,
                'builtin_set': set_}

    def clauses(self):
        return [
            Clause('C17.a_pattern_is_kept_as_given', ['C17'], when='return', text="implies('*' in path, self.path == path)"),
            Clause('C17.a_directory_becomes_the_pattern_matching_its_entries', ['C17'], when='return',
                   text="implies('*' not in path and is_dir(), "
                        "self.path == (path + '*' if ends_with_sep(path) else path + '/' + '*'))",
                   note='also for a directory named with a trailing separator'),
            Clause('C17.anything_else_is_kept_as_given', ['C17'], when='return',
                   text="implies('*' not in path and not is_dir(), self.path == path)"),
            Clause('C17.starts_with_nothing_seen', ['C17'], when='return',
                   text='len(self.seen) == 0 and self.poll_interval == poll_interval and base_inits == 1'),
            Clause('C17.construction_never_fails', ['C17'], when='raise', text='False'),
        ]


ALL += [FilenamesInit]
