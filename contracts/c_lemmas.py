"""Code-independent proof obligations about the specification vocabulary itself (run with every property):

* every homomorphic spec function h (zero, one, plus) is well defined on sequences: `plus` is associative and `zero` is its
  identity, otherwise  h(a ++ b) = plus(h a, h b)  would be inconsistent with associativity of ++ ;
* L-FLAT   occ(r, flat(s)) == occs(r, s)                                  (induction over s, unfolding axioms only);
* L-STORE  k not in s  ==>  vals_of(Store(a, k, v), s) == vals_of(a, s)   (induction over s);
* nonneg   h(s) >= 0 for the spec functions declared nonneg whose unit case is interpreted (occ, occs); for the
           uninterpreted row reductions (count, size, sum of squares) non-negativity of the unit case is an *assumption*.

A lemma that does not go through is a defect of the checker, never a property violation: it is reported as a checker error."""
import importlib
import time
import z3
from pyvc import sym
from pyvc.contract import Contract, Result, run_cvc5

ALL_PROPS = ['C%02d' % i for i in range(1, 21)]


def _valid(assumptions, goal, timeout=10000):
    fs = list(assumptions) + [z3.Not(goal)]
    ax = sym._unfold_only(fs)
    s = z3.Solver()
    s.set('timeout', timeout)
    s.add(*fs)
    s.add(*ax)
    r = s.check()
    if r == z3.unsat:
        return 'proved', 'z3'
    if r == z3.unknown:
        rc = run_cvc5(s.to_smt2().replace('(check-sat)', ''), 60)
        return ('proved' if rc == 'unsat' else ('failed' if rc == 'sat' else 'unknown')), 'cvc5'
    return 'failed', 'z3'


class CoreLemmas(Contract):
    file = 'streamz/core.py'
    files = ['streamz/core.py']
    qual = 'Stream._emit'
    name = 'lemmas about the specification vocabulary (monoid laws, L-FLAT, L-STORE)'
    props = ALL_PROPS
    assumptions = ('unit cases of the row reductions count/size/sum-of-squares are >= 0 (assumed, they are uninterpreted)',)

    def verify(self, index, props=None, want_models=True):
        from contracts import registry
        for m in registry.MODULES:
            importlib.import_module(m)
        sym.vals_of(z3.ArraySort(sym.Elem, sym.Elem))      # L-STORE is sort-generic; make sure one instance is always proved
        goals = []
        for name, sf in sorted(sym.SpecFun.registry.items()):
            rs = sf.f.range()
            ex = [z3.Const('lem_ex_%s_%d' % (name, i), sf.f.domain(i)) for i in range(sf.nextra)]
            a, b, c = [z3.Const('lem_%s_%s' % (name, n), rs) for n in 'abc']
            try:
                z = sf.zero(*ex)
                laws = z3.And(sf.plus(sf.plus(a, b), c) == sf.plus(a, sf.plus(b, c)), sf.plus(z, a) == a, sf.plus(a, z) == a)
            except Exception as e:
                goals.append(('monoid[%s]' % name, None, 'cannot state: %r' % (e,)))
                continue
            goals.append(('monoid[%s]' % name, [], laws))
            if sf.nonneg:
                x = z3.Const('lem_x_%s' % name, sf.seq_sort.basis())
                one = sf.one(*(ex + [x]))
                def _mentions_row(t):
                    if z3.is_app(t) and t.decl().kind() == z3.Z3_OP_UNINTERPRETED and t.decl().name().startswith('row_'):
                        return True
                    return any(_mentions_row(c) for c in t.children())
                interpreted = not _mentions_row(one)
                if interpreted:
                    # h(s) >= 0 by induction: zero >= 0, one >= 0 (given the same for inner nonneg functions), plus keeps it
                    inner = [app >= 0 for sf2, app in _apps(one) if sf2.nonneg]
                    goals.append(('nonneg[%s]' % name, inner, z3.And(z >= 0, one >= 0, z3.Implies(z3.And(a >= 0, b >= 0), sf.plus(a, b) >= 0))))
        r = z3.Const('lem_r', sym.Obj)
        P = z3.Const('lem_P', sym.SeqSeqMdS)
        m = z3.Const('lem_m', sym.SeqMdS)
        E = z3.Empty(sym.SeqSeqMdS)
        Pm = z3.Concat(P, z3.Unit(m))
        goals.append(('L-FLAT.base', [], sym.occ(r, sym.flat(E)) == sym.occs(r, E)))
        goals.append(('L-FLAT.step', [sym.occ(r, sym.flat(P)) == sym.occs(r, P)], sym.occ(r, sym.flat(Pm)) == sym.occs(r, Pm)))
        for key, vf in sorted(sym._vals_of.items()):
            asort = vf.f.domain(0)
            A = z3.Const('lem_A', asort)
            k = z3.Const('lem_k', asort.domain())
            v = z3.Const('lem_v', asort.range())
            S = z3.Const('lem_S', vf.seq_sort)
            x = z3.Const('lem_sx', asort.domain())
            Sx = z3.Concat(S, z3.Unit(x))
            ES = z3.Empty(vf.seq_sort)
            st = z3.Store(A, k, v)
            hyp = z3.Implies(z3.Not(z3.Contains(S, z3.Unit(k))), vf(st, S) == vf(A, S))
            # the unit case is written with z3's own Select here (sym.sel simplifies syntactically)
            goals.append(('L-STORE[%s].base' % vf.name, [], vf(st, ES) == vf(A, ES)))
            goals.append(('L-STORE[%s].step' % vf.name,
                          [hyp, z3.Not(z3.Contains(Sx, z3.Unit(k))), vf(st, z3.Unit(x)) == z3.Unit(z3.Select(st, x)),
                           vf(A, z3.Unit(x)) == z3.Unit(z3.Select(A, x)), vf(st, Sx) == z3.Concat(vf(st, S), vf(st, z3.Unit(x))),
                           vf(A, Sx) == z3.Concat(vf(A, S), vf(A, z3.Unit(x)))],
                          vf(st, Sx) == vf(A, Sx)))
        res = []
        for name, assm, goal in goals:
            t0 = time.time()
            if assm is None:
                res.append(Result('%s/%s' % (self.name, name), self.props, 'error', '-', 0, detail=goal, path='lemma', contract=self))
                continue
            status, backend = _valid(assm, goal)
            if status != 'proved':
                r_ = Result('%s/%s' % (self.name, name), self.props, 'error', backend, time.time() - t0,
                            detail='lemma not proved (%s): the specification vocabulary is unsound or the solver too weak' % status,
                            path='lemma', contract=self)
            else:
                r_ = Result('%s/%s' % (self.name, name), self.props, 'proved', backend, time.time() - t0, path='lemma', contract=self)
            res.append(r_)
        self.outcomes = []
        return res, {'paths': 0, 'seconds': 0, 'branch_checks': 0, 'outcomes': [], 'dropped': [], 'cover': []}


def _apps(e):
    out, seen = [], set()
    sym._walk(e, seen, out)
    return out


ALL = [CoreLemmas]
