"""streamz/orderedweakset.py: OrderedSet, the container behind Stream.downstreams (C01: sibling branches see each element in
attachment order; C15: delivery follows the current links).  OrderedWeakrefSet only swaps WeakSet's `data` for an OrderedSet;
weakref.WeakSet itself (and garbage collection) stays trusted."""
import z3
from pyvc import sym
from pyvc.sym import VRef, VSeq, VNone, K_OBJ, K_ELEM
from pyvc.state import State, DictCell
from pyvc.contract import Contract, Clause
from pyvc.interp import NONE

FILE = 'streamz/orderedweakset.py'
ObjElemArr = z3.ArraySort(sym.Obj, sym.Elem)


class _OS(Contract):
    file = FILE
    files = [FILE]
    props = ['C01', 'C15']
    assumptions = ('collections.OrderedDict behaves like an insertion-ordered dict: assigning to a present key keeps its position, '
                   'a new key goes to the end, pop(k, default) removes k and keeps the order of the others (trusted)',
                   'weakref.WeakSet (used by OrderedWeakrefSet with `data` replaced by an OrderedSet) is trusted')

    def build(self, I):
        st = State()
        I.st = st
        K = z3.Const('K0', sym.SeqObjS)
        od = st.new_dict(DictCell(K, z3.Const('V0', ObjElemArr), K_OBJ, K_ELEM))
        selfv = st.new_obj('OrderedSet', {'_od': od})
        value = VRef(z3.Const('value', sym.Obj), 'Stream')
        # distinct keys, stated at the one key that matters: `value` occurs at most once
        A, B = z3.Const('KA', sym.SeqObjS), z3.Const('KB', sym.SeqObjS)
        u = z3.Unit(value.t)
        st.assume(z3.Implies(z3.Contains(K, u), z3.And(K == z3.Concat(A, u, B), z3.Not(z3.Contains(A, u)), z3.Not(z3.Contains(B, u)))))
        st.ghost['_split_hints'] = [(K, value.t, A, B)]      # removal of `value` reuses this split (no second witness pair)
        st.ghost['KA'] = VSeq(A, K_OBJ)
        st.ghost['KB'] = VSeq(B, K_OBJ)
        self.pre_args = {'self': selfv, 'value': value}
        self.pre_state = st.snapshot()
        st.ghost['_pre'] = (self.pre_state, self.pre_args)
        I.contract_pre = self.pre_state
        I.contract_pre_frame = self.pre_frame(I)
        return selfv, [value], {}

    def spec_funcs(self):
        def members(I, s):
            d = I.get_attr(s, '_od', None)
            c = I.st.heap[d.loc]
            return VSeq(c.keys, K_OBJ)
        return {'members': members}


class OrderedSetAdd(_OS):
    qual = 'OrderedSet.add'

    def clauses(self):
        return [Clause('C01.add_appends_a_new_member_and_keeps_the_position_of_a_present_one', ['C01', 'C15'], when='return',
                       text='members(self) == (old(members(self)) if value in old(members(self)) else old(members(self)) + [value])'),
                Clause('C15.add_never_fails', ['C15'], when='raise', text='False')]


class OrderedSetDiscard(_OS):
    qual = 'OrderedSet.discard'

    def clauses(self):
        return [Clause('C15.discard_removes_the_member_and_keeps_the_order_of_the_others', ['C01', 'C15'], when='return',
                       text='members(self) == (KA + KB if value in old(members(self)) else old(members(self)))'),
                Clause('C15.discard_never_fails', ['C15'], when='raise', text='False')]


class OrderedSetContains(_OS):
    qual = 'OrderedSet.__contains__'

    def clauses(self):
        return [Clause('C15.contains_is_membership', ['C15', 'C01'], when='return', text='result == (value in members(self))'),
                Clause('C15.contains_changes_nothing', ['C15'], when='any', text='members(self) == old(members(self))')]


class OrderedSetLen(_OS):
    qual = 'OrderedSet.__len__'

    def build(self, I):
        selfv, a, k = _OS.build(self, I)
        return selfv, [], {}

    def clauses(self):
        return [Clause('C15.len_is_number_of_members', ['C15', 'C01'], when='return', text='result == len(members(self))')]


ALL = [OrderedSetAdd, OrderedSetDiscard, OrderedSetContains, OrderedSetLen]
