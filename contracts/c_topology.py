"""C15: graph editing (streamz/core.py: Stream.connect/disconnect/destroy, zip/combine_latest _add/_remove_upstream;
streamz/sinks.py: Sink.__init__/destroy)."""
import z3
from pyvc import sym
from pyvc.sym import (VInt, VBool, VNone, VStr, VElem, VSeq, VList, VTuple, VRef, VObj, VBuiltin, VExc,
                      K_ELEM, K_OBJ, K_STREAM, K_MD, K_MDE)
from pyvc.state import State, PyRaise, Unsupported, SetCell, DictCell
from pyvc.contract import Contract, Clause
from pyvc.interp import NONE, Frame
from pyvc.loops import LoopSpec

CORE = 'streamz/core.py'
ObjBoolArr = z3.ArraySort(sym.Obj, z3.BoolSort())
# up[d][u] <=> u in d.upstreams ; down[u][d] <=> d in u.downstreams   (for nodes other than self: ghost relations)
RelArr = z3.ArraySort(sym.Obj, ObjBoolArr)


class TopoBase(Contract):
    file = CORE
    # sinks.py: the node classes defined there override topology methods (Sink.destroy); a call on an arbitrary node may reach them
    files = [CORE, 'streamz/sinks.py']
    harness = 'topology_harness'
    assumptions = ('pipelines without parallel edges (set semantics of the link relations suffice)',
                   'OrderedWeakrefSet.add/remove behave like set add/remove on live members; remove of an absent member '
                   'raises KeyError (trusted)')

    def setup(self, I):
        st = State()
        I.st = st
        g = st.ghost
        g['UP'] = z3.Const('UP0', RelArr)        # upstream sets of the *other* nodes
        g['DOWN'] = z3.Const('DOWN0', RelArr)    # downstream sets of the *other* nodes
        g['calls'] = VTuple([])
        self.me = z3.Const('self_ref', sym.Obj)
        return st

    def finish(self, I, args):
        self.pre_args = args
        self.pre_state = I.st.snapshot()
        I.st.ghost['_pre'] = (self.pre_state, self.pre_args)
        I.contract_pre = self.pre_state
        I.contract_pre_frame = self.pre_frame(I)

    # generic contracts of the link primitives on *other* nodes (dynamic dispatch: any Stream subclass)
    def other_summaries(self):
        def add_upstream(I, recv, args, kwargs):
            g = I.st.ghost
            u = args[0]
            ut = u.t if isinstance(u, VRef) else self.me
            g['UP'] = z3.Store(g['UP'], recv.t, z3.Store(z3.Select(g['UP'], recv.t), ut, True))
            return NONE

        def remove_upstream(I, recv, args, kwargs):
            g = I.st.ghost
            u = args[0]
            ut = u.t if isinstance(u, VRef) else self.me
            cur = z3.Select(g['UP'], recv.t)
            if not I.branch(z3.Select(cur, ut)):
                raise PyRaise(VExc('ValueError'))     # list.remove(x): x not in list
            if getattr(self, 'remove_upstream_may_fail', False) and I.branch(z3.Bool(sym.fresh_name('subclass_fails'))):
                raise PyRaise(VExc('SubclassError'))
            g['UP'] = z3.Store(g['UP'], recv.t, z3.Store(cur, ut, False))
            return NONE

        def add_downstream(I, recv, args, kwargs):
            g = I.st.ghost
            d = args[0]
            dt = d.t if isinstance(d, VRef) else self.me
            g['DOWN'] = z3.Store(g['DOWN'], recv.t, z3.Store(z3.Select(g['DOWN'], recv.t), dt, True))
            return NONE

        def remove_downstream(I, recv, args, kwargs):
            g = I.st.ghost
            d = args[0]
            dt = d.t if isinstance(d, VRef) else self.me
            cur = z3.Select(g['DOWN'], recv.t)
            if not I.branch(z3.Select(cur, dt)):
                raise PyRaise(VExc('KeyError'))
            g['DOWN'] = z3.Store(g['DOWN'], recv.t, z3.Store(cur, dt, False))
            return NONE

        def set_add(I, recv, args, kwargs):
            return I.set_method(recv, 'add', args, kwargs)

        def inform(I, recv, args, kwargs):
            # percolation of a loop / mode through the graph (own contracts: c_loop.py): changes no link; it raises ValueError
            # when the value conflicts with one that is already set somewhere in the pipeline
            if I.branch(z3.Bool(sym.fresh_name('conflicting_loop_or_mode'))):
                raise PyRaise(VExc('ValueError'))
            return NONE
        return {'Stream._add_upstream': add_upstream, 'Stream._remove_upstream': remove_upstream,
                'Stream._add_downstream': add_downstream, 'Stream._remove_downstream': remove_downstream,
                'Stream._inform_loop': inform, 'Stream._inform_asynchronous': inform}

    def spec_funcs(self):
        def up_has(I, d, u):
            g = I.st.ghost
            ut = u.t if isinstance(u, VRef) else self.me
            return VBool(z3.Select(z3.Select(g['UP'], d.t), ut))

        def down_has(I, u, d):
            g = I.st.ghost
            dt = d.t if isinstance(d, VRef) else self.me
            return VBool(z3.Select(z3.Select(g['DOWN'], u.t), dt))

        def implies_(I, a, b):
            return VBool(z3.Implies(I.truth(a), I.truth(b)))

        def iff_(I, a, b):
            return VBool(I.truth(a) == I.truth(b))
        return {'up_has': up_has, 'down_has': down_has, 'implies': implies_, 'iff': iff_}


class StreamConnect(TopoBase):
    """self.connect(d): both link ends are added"""
    qual = 'Stream.connect'
    props = ['C15']
    inline = ('Stream._add_downstream',)

    def build(self, I):
        st = self.setup(I)
        ds = st.new_set(SetCell(z3.Const('mydown0', ObjBoolArr), K_STREAM, None))
        selfv = st.new_obj('Stream', {'downstreams': ds, '__ref__': VRef(self.me, 'Stream')})
        d = VRef(z3.Const('d', sym.Obj), 'Stream')
        st.assume(d.t != self.me)
        # T1 before: d in self.downstreams <=> self in d.upstreams
        st.assume(z3.Select(z3.Const('mydown0', ObjBoolArr), d.t) == z3.Select(z3.Select(st.ghost['UP'], d.t), self.me))
        self.finish(I, {'self': selfv, 'downstream': d})
        return selfv, [d], {}

    def summaries(self):
        return self.other_summaries_for_vref()

    def other_summaries_for_vref(self):
        base = self.other_summaries()

        def dispatch(name):
            def f(I, recv, args, kwargs):
                if isinstance(recv, VObj) and not name.startswith('Stream._inform'):
                    rel, node = I.index.function(name)
                    return I.run_function(sym.VFunc(name, node, bound=recv), args, kwargs)
                return base[name](I, recv, args, kwargs)
            return f
        return {n: dispatch(n) for n in base}

    def own_or_other(self, name, s):
        return s[name]

    def clauses(self):
        return [Clause('C15.T1_link_added_on_both_ends', ['C15'], when='return',
                       text='downstream in self.downstreams and up_has(downstream, self)'),
                Clause('C15.T1_consistent_on_every_exit', ['C15'], when='any',
                       text='iff(downstream in self.downstreams, up_has(downstream, self))',
                       note='an edit happens on both ends or on neither')]


class StreamDisconnect(StreamConnect):
    qual = 'Stream.disconnect'
    inline = ('Stream._remove_downstream',)

    def clauses(self):
        return [Clause('C15.T1_link_removed_on_both_ends', ['C15'], when='return',
                       text='not (downstream in self.downstreams) and not up_has(downstream, self)'),
                Clause('C15.T1_consistent_on_every_exit', ['C15'], when='any',
                       text='iff(downstream in self.downstreams, up_has(downstream, self))',
                       note='an edit happens on both ends or on neither (also when the edit is refused)')]


class StreamDisconnectSubclassMayRefuse(StreamDisconnect):
    """the downstream is a node whose _remove_upstream may refuse (combine_latest raises RuntimeError/KeyError)"""
    name = 'Stream.disconnect[downstream._remove_upstream may raise]'
    remove_upstream_may_fail = True


# all_linked(DOWN, me, seq): every node of seq has `me` among its downstreams
all_linked = sym.SpecFun('all_linked', [RelArr, sym.Obj], sym.SeqObjS, z3.BoolSort(),
                         zero=lambda D, me: z3.BoolVal(True), one=lambda D, me, o: z3.Select(sym.sel(D, o), me),
                         plus=lambda a, b: z3.And(a, b), store_frame=True)


class StreamDestroy(TopoBase):
    """self.destroy(): every upstream link is removed on both ends, nothing else changes, and it does not fail
    (given T1 before and no parallel edges)."""
    qual = 'Stream.destroy'
    props = ['C15']
    inline = ('Stream._remove_upstream',)
    assumptions = TopoBase.assumptions + (
        'precondition: self.upstreams has no duplicates (no parallel edges); used as its instance at the split the loop '
        'rule introduces (upstreams == P ++ [m] ++ R  =>  m not in P and m not in R)',)

    def build(self, I):
        st = self.setup(I)
        U = z3.Const('U', sym.SeqObjS)
        ups = st.new_list(U, K_STREAM)
        selfv = st.new_obj('Stream', {'upstreams': ups, '__ref__': VRef(self.me, 'Stream')})
        g = st.ghost
        g['U'] = VSeq(U, K_STREAM)
        g['u0'] = VRef(z3.Const('u0', sym.Obj), 'Stream')          # an arbitrary former upstream
        g['o1'] = VRef(z3.Const('o1', sym.Obj), 'Stream')          # an arbitrary node
        g['d1'] = VRef(z3.Const('d1', sym.Obj), 'Stream')          # an arbitrary downstream of it
        g['DOWN0'] = g['DOWN']
        st.assume(z3.Contains(U, z3.Unit(g['u0'].t)))
        # T1 before: self is among the downstreams of each of its upstreams
        st.assume(all_linked(g['DOWN'], self.me, U))
        st.assume(z3.Not(z3.Contains(U, z3.Unit(self.me))))
        self.finish(I, {'self': selfv, 'streams': NONE})
        return selfv, [], {}

    def summaries(self):
        return StreamConnect.other_summaries_for_vref(self)

    def spec_funcs(self):
        d = TopoBase.spec_funcs(self)

        def linked_all(I, seq):
            t, k = I.seq_term(seq)
            return VBool(all_linked(I.st.ghost['DOWN'], self.me, t))

        def down_row_unchanged(I, o):
            g = I.st.ghost
            return VBool(z3.Select(g['DOWN'], o.t) == z3.Select(g['DOWN0'], o.t))

        def down_was(I, u, d):
            g = I.st.ghost
            dt = d.t if isinstance(d, VRef) else self.me
            return VBool(z3.Select(z3.Select(g['DOWN0'], u.t), dt))
        d.update({'linked_all': linked_all, 'down_row_unchanged': down_row_unchanged, 'down_was': down_was})
        return d

    def loop_specs(self):
        def nodup(I, fr, P, m, R):
            u = z3.Unit(m)
            return [z3.Not(z3.Contains(P, u)), z3.Not(z3.Contains(R, u))]
        return {('Stream.destroy', 0): LoopSpec(
            modifies=['self.upstreams', 'ghost:DOWN'],
            invariant=[('own_list_is_what_remains', 'self.upstreams == _R'),
                       ('remaining_upstreams_still_linked', 'linked_all(_R)'),
                       ('processed_upstreams_unlinked', 'implies(u0 in _P, not down_has(u0, self))'),
                       ('other_nodes_untouched', 'implies(not (o1 in _P), down_row_unchanged(o1))'),
                       ('other_links_untouched', 'implies(d1 != self, down_has(o1, d1) == down_was(o1, d1))')],
            props=['C15'], name='detach', split_facts=[nodup])}

    def clauses(self):
        return [Clause('C15.T1_destroy_detaches_from_every_upstream_on_both_ends', ['C15'], when='return',
                       text='len(self.upstreams) == 0 and not down_has(u0, self)'),
                Clause('C15.destroy_touches_no_other_link', ['C15'], when='return',
                       text='implies(d1 != self or not (o1 in U), down_has(o1, d1) == down_was(o1, d1))'),
                Clause('C15.destroy_of_a_consistent_node_never_fails', ['C15'], when='raise', text='False',
                       note='a refused edit half-way would leave the remaining links inconsistent')]




class StreamDestroyEmptySelection(StreamDestroy):
    """self.destroy(streams=[]): an explicit, empty selection removes nothing (None means "all", an empty list does not)"""
    name = 'Stream.destroy[streams=[]]'

    def build(self, I):
        selfv, args, kw = StreamDestroy.build(self, I)
        g = I.st.ghost
        # u0 is one of the upstreams: name the split, so that "every upstream is linked" unfolds to "u0 is linked"
        I.st.assume(g['U'].t == z3.Concat(z3.Const('Ua', sym.SeqObjS), z3.Unit(g['u0'].t), z3.Const('Ub', sym.SeqObjS)))
        sel = I.st.new_list(z3.Empty(sym.SeqObjS), K_STREAM)
        self.finish(I, {'self': selfv, 'streams': sel})
        return selfv, [], {'streams': sel}

    def loop_specs(self):
        # with an empty selection the loop does not run; the invariant only has to say that nothing happened so far
        return {('Stream.destroy', 0): LoopSpec(
            modifies=['self.upstreams', 'ghost:DOWN'],
            invariant=[('nothing_removed_while_nothing_was_selected',
                        'implies(len(_P) == 0, list(self.upstreams) == U and down_has(u0, self) and down_has(o1, d1) == down_was(o1, d1))')],
            props=['C15'], name='detach')}

    def clauses(self):
        return [Clause('C15.destroy_of_an_empty_selection_removes_no_link', ['C15'], when='return',
                       text='list(self.upstreams) == U and down_has(u0, self) and down_has(o1, d1) == down_was(o1, d1)',
                       note='elements keep flowing along every edge that was not selected'),
                Clause('C15.destroy_of_a_consistent_node_never_fails', ['C15'], when='raise', text='False')]


ALL = [StreamConnect, StreamDisconnect, StreamDestroy, StreamDestroyEmptySelection]     # StreamDisconnectSubclassMayRefuse: hypothetical (no _remove_upstream in the repository refuses a connected input), not run


# --------------------------------------------------------------------------- combine_latest / zip: _add/_remove_upstream
from .c_nodes_combine import IndexedInputs
from pyvc.sym import K_INT


class CombineLatestRemoveUpstream(IndexedInputs, TopoBase):
    qual = 'combine_latest._remove_upstream'
    # (the per-input slots of last / metadata must stay aligned with the inputs: C01 values, C10 metadata of the tuple members)
    props = ['C15', 'C01', 'C10']
    inline = ('Stream._remove_upstream',)

    def build(self, I):
        st = self.setup(I)
        f = self.declare_inputs(I)
        f['emit_on'] = f['upstreams']
        f['_initial_emit_on'] = NONE
        f['__ref__'] = VRef(self.me, 'Stream')
        selfv = st.new_obj('combine_latest', f)
        U, who, idx = self._io
        up = VRef(who, 'Stream')
        # list.remove(upstream) reuses the split of the inputs at `who` that the pre-state already names (no second witness pair)
        st.ghost['_split_hints'] = list(st.ghost.get('_split_hints', [])) + [
            (U, who, z3.Const('Up', sym.SeqObjS), z3.Const('Us', sym.SeqObjS))]
        other = VRef(z3.Const('other_input', sym.Obj), 'Stream')
        self.finish(I, {'self': selfv, 'upstream': up, 'other': other})
        return selfv, [up], {}

    def summaries(self):
        def refs(I, recv, args, kwargs):
            # _retain_refs / _release_refs (own contracts: c_emit.py): they change reference counts, never the node's slots
            return NONE
        return {'Stream._release_refs': refs, 'Stream._retain_refs': refs}

    def spec_funcs(self):
        d = TopoBase.spec_funcs(self)
        return d

    def clauses(self):
        return [Clause('C15.T3_other_inputs_keep_their_delivered_status', ['C15'], when='return',
                       text='implies(other is not upstream, (other in self.missing) == old(other in self.missing))',
                       note='`other` is an arbitrary node: removing one input does not change what the node knows about the others'),
                Clause('C15.T3_slot_of_the_removed_input_dropped', ['C15'], when='return',
                       text='list(self.last) == Lp + Ls and list(self.metadata) == Mp + Ms and len(self.upstreams) == len(self.last)',
                       note='the node behaves like one built over its current inputs'),
                Clause('C15.T3_removed_input_no_longer_missing', ['C15'], when='return',
                       text='not (upstream in self.missing) and not (upstream in self.upstreams)'),
                Clause('C15.removing_a_connected_input_never_fails', ['C15'], when='raise', text='False',
                       note='an input that is connected can be removed whether or not it has delivered already; a refused edit '
                            'would leave the links inconsistent (disconnect removes the downstream link first)'),
                ]


class CombineLatestAddUpstream(IndexedInputs, TopoBase):
    qual = 'combine_latest._add_upstream'
    props = ['C15', 'C01', 'C10']
    inline = ('Stream._add_upstream',)

    def build(self, I):
        st = self.setup(I)
        f = self.declare_inputs(I)
        f['emit_on'] = f['upstreams']
        f['_initial_emit_on'] = NONE
        selfv = st.new_obj('combine_latest', f)
        new = VRef(z3.Const('new_up', sym.Obj), 'Stream')
        U, who, idx = self._io
        st.assume(z3.Not(z3.Contains(U, z3.Unit(new.t))))
        self.finish(I, {'self': selfv, 'upstream': new, 'who': VRef(who, 'Stream')})
        return selfv, [new], {}

    def clauses(self):
        return [Clause('C15.T3_inputs_that_have_delivered_stay_delivered', ['C15'], when='return',
                       text='(who in self.missing) == old(who in self.missing) and '
                            'list(self.last)[:-1] == old(list(self.last)) and list(self.metadata)[:-1] == old(list(self.metadata))',
                       note='`who` is an arbitrary existing input: the node keeps what its inputs delivered so far'),
                Clause('C15.T3_new_input_gets_an_empty_slot_and_is_missing', ['C15'], when='return',
                       text='len(self.last) == len(self.upstreams) and len(self.metadata) == len(self.upstreams) and '
                            'upstream in self.missing and self.upstreams[-1] is upstream and len(self.upstreams) == old(len(self.upstreams)) + 1',
                       note='like a node built over the current inputs in which the new input has not delivered yet'),
                Clause('C15.emit_on_follows_upstreams_when_not_given', ['C15'], when='return',
                       text='self.emit_on is self.upstreams')]


class CombineLatestAddUpstreamFresh(CombineLatestAddUpstream):
    """the node as the constructor leaves it: without an explicit emit_on, `emit_on` is the tuple of the initial inputs, an object
    of its own (only after the first topology edit it is the `upstreams` list itself)"""
    name = 'combine_latest._add_upstream[first edit after construction]'

    def build(self, I):
        selfv, args, kw = CombineLatestAddUpstream.build(self, I)
        cell = I.st.heap[selfv.loc]
        U, who, idx = self._io
        I.st.heap[selfv.loc] = cell.with_field('emit_on', VSeq(U, K_STREAM))
        self.finish(I, dict(self.pre_args))
        return selfv, args, kw

    def clauses(self):
        return [c for c in CombineLatestAddUpstream.clauses(self) if 'emit_on_follows' not in c.name] + [
            Clause('C15.emit_on_follows_upstreams_when_not_given', ['C15', 'C01'], when='return',
                   text='list(self.emit_on) == list(self.upstreams)',
                   note='a node built without emit_on emits on every input, also on one connected later')]


class CombineLatestRemoveUpstreamFresh(CombineLatestRemoveUpstream):
    name = 'combine_latest._remove_upstream[first edit after construction]'

    def build(self, I):
        selfv, args, kw = CombineLatestRemoveUpstream.build(self, I)
        cell = I.st.heap[selfv.loc]
        U = I.st.list_cell(cell.fields['upstreams'].loc).term
        I.st.heap[selfv.loc] = cell.with_field('emit_on', VSeq(U, K_STREAM))
        self.finish(I, dict(self.pre_args))
        return selfv, args, kw

    def clauses(self):
        return CombineLatestRemoveUpstream.clauses(self) + [
            Clause('C15.emit_on_follows_upstreams_when_not_given', ['C15', 'C01'], when='return',
                   text='list(self.emit_on) == list(self.upstreams)')]


PairArr = z3.ArraySort(sym.Obj, sym.SeqElemS)


class CombineLatestAddUpstreamEmitOnGiven(CombineLatestAddUpstream):
    """the node was built with an explicit emit_on (any value, including falsy ones such as the index 0): topology edits never
    touch the emit_on subset"""
    name = 'combine_latest._add_upstream[emit_on given]'

    def build(self, I):
        selfv, args, kw = CombineLatestAddUpstream.build(self, I)
        cell = I.st.heap[selfv.loc]
        init = VElem(z3.Const('initial_emit_on', sym.Elem))
        I.st.assume(init.t != sym.c_none_elem)
        eo = VSeq(z3.Const('emit_on0', sym.SeqObjS), K_STREAM)
        I.st.heap[selfv.loc] = cell.with_field('_initial_emit_on', init).with_field('emit_on', eo)
        I.st.ghost['emit_on0'] = eo
        self.finish(I, dict(self.pre_args))
        return selfv, args, kw

    def clauses(self):
        return [c for c in CombineLatestAddUpstream.clauses(self) if 'emit_on_follows' not in c.name] + [
            Clause('C15.explicit_emit_on_subset_survives_topology_edits', ['C15', 'C01'], when='return',
                   text='list(self.emit_on) == emit_on0',
                   note='emit_on given at construction (even a falsy value like index 0) is never replaced by "all inputs"')]


class CombineLatestRemoveUpstreamEmitOnGiven(CombineLatestRemoveUpstream):
    name = 'combine_latest._remove_upstream[emit_on given]'

    def build(self, I):
        selfv, args, kw = CombineLatestRemoveUpstream.build(self, I)
        cell = I.st.heap[selfv.loc]
        init = VElem(z3.Const('initial_emit_on', sym.Elem))
        I.st.assume(init.t != sym.c_none_elem)
        eo = VSeq(z3.Const('emit_on0', sym.SeqObjS), K_STREAM)
        I.st.heap[selfv.loc] = cell.with_field('_initial_emit_on', init).with_field('emit_on', eo)
        I.st.ghost['emit_on0'] = eo
        self.finish(I, dict(self.pre_args))
        return selfv, args, kw

    def clauses(self):
        return CombineLatestRemoveUpstream.clauses(self) + [
            Clause('C15.explicit_emit_on_subset_survives_topology_edits', ['C15', 'C01'], when='return',
                   text='list(self.emit_on) == emit_on0')]




class ZipRemoveUpstream(TopoBase):
    qual = 'zip._remove_upstream'
    props = ['C15']
    inline = ('Stream._remove_upstream',)

    def build(self, I):
        st = self.setup(I)
        U = z3.Const('U', sym.SeqObjS)
        Up, Us = z3.Const('Up', sym.SeqObjS), z3.Const('Us', sym.SeqObjS)
        up = z3.Const('upstream', sym.Obj)
        st.assume(U == z3.Concat(Up, z3.Unit(up), Us))
        st.assume(z3.Not(z3.Contains(Up, z3.Unit(up))))
        st.assume(z3.Not(z3.Contains(Us, z3.Unit(up))))
        bv = z3.Const('bufvals0', PairArr)
        bufs = st.new_dict(DictCell(U, bv, K_STREAM, sym.K_ELEMS, vlist=K_ELEM, vpytype='deque'))
        # node invariant before the edit: some input buffer is empty (a tuple is emitted as soon as it can be)
        e = z3.Const('empty_one', sym.Obj)
        st.assume(z3.Contains(U, z3.Unit(e)))
        st.assume(z3.Length(z3.Select(bv, e)) == 0)
        st.ghost['empty_one'] = VRef(e, 'Stream')
        st.ghost['Up'], st.ghost['Us'] = VSeq(Up, K_STREAM), VSeq(Us, K_STREAM)
        st.ghost['_split_hints'] = [(U, up, Up, Us)]
        selfv = st.new_obj('zip', {'upstreams': st.new_list(U, K_STREAM), 'buffers': bufs})
        upv = VRef(up, 'Stream')
        other = z3.Const('other_input', sym.Obj)
        st.assume(z3.Contains(U, z3.Unit(other)))
        st.assume(other != up)
        self.finish(I, {'self': selfv, 'upstream': upv, 'other': VRef(other, 'Stream')})
        return selfv, [upv], {}

    def summaries(self):
        return {}

    def spec_funcs(self):
        d = TopoBase.spec_funcs(self)

        def keys(I, dv):
            c = I.st.heap[dv.loc]
            return VSeq(c.keys, c.kkind)

        def buffer_of(I, dv, k):
            c = I.st.heap[dv.loc]
            return VSeq(I.st.dict_list_term(dv.loc, k.t) if hasattr(I.st, 'dict_list_term') else z3.Select(c.vals, k.t), K_ELEM)
        d['buffer_of'] = buffer_of

        def some_remaining_buffer_empty(I):
            selfv = self.pre_args['self']
            dcell = I.st.heap[I.st.heap[selfv.loc].fields['buffers'].loc]
            w = z3.Const(sym.fresh_name('w'), sym.Obj)
            return VBool(z3.Exists([w], z3.And(z3.Contains(dcell.keys, z3.Unit(w)), z3.Length(z3.Select(dcell.vals, w)) == 0)))
        d.update({'keys': keys, 'some_remaining_buffer_empty': some_remaining_buffer_empty})
        return d

    def clauses(self):
        return [Clause('C15.T2_buffers_follow_upstreams', ['C15'], when='return',
                       text='keys(self.buffers) == Up + Us and list(self.upstreams) == Up + Us'),
                Clause('C15.T2_buffers_of_the_other_inputs_untouched', ['C15'], when='return',
                       text='buffer_of(self.buffers, other) == old(buffer_of(self.buffers, other))',
                       note='`other` is an arbitrary remaining input: what it delivered so far stays buffered'),
                Clause('C15.T2_node_is_in_a_state_a_fresh_zip_could_be_in', ['C15'], when='return',
                       text='len(self.upstreams) == 0 or some_remaining_buffer_empty()',
                       kind='protocol', replay={'scenario': 'zip_remove_upstream_stuck'},
                       note='a zip over the remaining inputs that had received what they delivered would have emitted every '
                            'complete tuple: some remaining buffer must be empty, otherwise the node is stuck forever'),
                Clause('C15.removing_a_connected_input_never_fails', ['C15'], when='raise', text='False')]


class ZipAddUpstream(TopoBase):
    qual = 'zip._add_upstream'
    props = ['C15']
    inline = ('Stream._add_upstream',)

    def build(self, I):
        st = self.setup(I)
        U = z3.Const('U', sym.SeqObjS)
        bv = z3.Const('bufvals0', PairArr)
        bufs = st.new_dict(DictCell(U, bv, K_STREAM, sym.K_ELEMS, vlist=K_ELEM, vpytype='deque'))
        new = VRef(z3.Const('new_up', sym.Obj), 'Stream')
        st.assume(z3.Not(z3.Contains(U, z3.Unit(new.t))))
        selfv = st.new_obj('zip', {'upstreams': st.new_list(U, K_STREAM), 'buffers': bufs})
        self.finish(I, {'self': selfv, 'upstream': new})
        return selfv, [new], {}

    def summaries(self):
        return {}

    spec_funcs = ZipRemoveUpstream.spec_funcs

    def clauses(self):
        return [Clause('C15.T2_new_input_gets_an_empty_buffer', ['C15'], when='return',
                       text='keys(self.buffers) == old(keys(self.buffers)) + [upstream] and len(self.buffers[upstream]) == 0 '
                            'and list(self.upstreams) == old(list(self.upstreams)) + [upstream]')]


ALL += [CombineLatestAddUpstreamFresh, CombineLatestRemoveUpstreamFresh, CombineLatestRemoveUpstream, CombineLatestAddUpstream, CombineLatestAddUpstreamEmitOnGiven,
        CombineLatestRemoveUpstreamEmitOnGiven, ZipRemoveUpstream, ZipAddUpstream]


# --------------------------------------------------------------------------- Sink registry (T4)
class SinkInit(TopoBase):
    file = 'streamz/sinks.py'
    files = ['streamz/sinks.py', 'streamz/core.py']
    qual = 'Sink.__init__'
    props = ['C15']

    def build(self, I):
        st = self.setup(I)
        gs = st.new_set(SetCell(z3.Const('global_sinks0', ObjBoolArr), K_STREAM, None))
        st.ghost['global_sinks'] = gs
        st.ghost['super_calls'] = VTuple([])
        selfv = st.new_obj('Sink', {'__ref__': VRef(self.me, 'Stream')})
        up = VRef(z3.Const('up', sym.Obj), 'Stream')
        self.finish(I, {'self': selfv, 'upstream': up})
        return selfv, [up], {}

    def make_interp(self, index):
        I = TopoBase.make_interp(self, index)
        orig = I.expr_Name

        def expr_Name(e, fr):
            if e.id == '_global_sinks':
                return I.st.ghost['global_sinks']
            return orig(e, fr)
        I.expr_Name = expr_Name
        orig_term = I.term_of

        def term_of(v, kind):
            if isinstance(v, VObj) and kind.sort == sym.Obj:
                return self.me
            return orig_term(v, kind)
        I.term_of = term_of
        return I

    def summaries(self):
        def sup(name):
            def f(I, recv, args, kwargs):
                g = I.st.ghost
                g['super_calls'] = VTuple(g['super_calls'].items + [VStr(name)])
                return NONE
            return f
        return {'Stream.__init__': sup('Stream.__init__'), 'Stream.destroy': sup('Stream.destroy')}

    def spec_funcs(self):
        d = TopoBase.spec_funcs(self)

        def registered(I):
            c = I.st.heap[I.st.ghost['global_sinks'].loc]
            return VBool(z3.Select(c.member, self.me))
        d['registered'] = registered
        return d

    def clauses(self):
        return [Clause('C15.T4_sink_registers_itself', ['C15'], when='return',
                       text="registered() and len(super_calls) == 1 and super_calls[0] == 'Stream.__init__'",
                       note='sinks stay active (are kept alive) until destroyed')]


class SinkDestroy(SinkInit):
    qual = 'Sink.destroy'

    def build(self, I):
        r = SinkInit.build(self, I)
        c = I.st.heap[I.st.ghost['global_sinks'].loc]
        I.st.assume(z3.Select(c.member, self.me))
        self.pre_state = I.st.snapshot()
        I.st.ghost['_pre'] = (self.pre_state, self.pre_args)
        return r[0], [], {}

    def clauses(self):
        return [Clause('C15.T4_destroy_detaches_and_unregisters', ['C15'], when='return',
                       text="not registered() and len(super_calls) == 1 and super_calls[0] == 'Stream.destroy'")]


class SinkDestroyNotRegistered(SinkInit):
    """destroy() of a sink that is not in the registry (it was destroyed once and plugged in again with connect(); the registry is
    only a keep-alive): the sink is still attached to its inputs, and destroy() must detach it whatever it does about the registry."""
    qual = 'Sink.destroy'
    name = 'Sink.destroy[sink attached again after an earlier destroy]'

    def build(self, I):
        r = SinkInit.build(self, I)
        c = I.st.heap[I.st.ghost['global_sinks'].loc]
        I.st.assume(z3.Not(z3.Select(c.member, self.me)))
        self.pre_state = I.st.snapshot()
        I.st.ghost['_pre'] = (self.pre_state, self.pre_args)
        return r[0], [], {}

    def cover(self, outcomes):
        # on the current tree this call ends in KeyError (after the links have been removed): any exit is a reached exit here
        return [('some path reaches an exit of the unit', len(outcomes) > 0)]

    def clauses(self):
        return [Clause('C15.destroy_detaches_the_sink_even_if_it_is_not_registered', ['C15'], when='any',
                       text="len(super_calls) == 1 and super_calls[0] == 'Stream.destroy'",
                       note='delivery follows the edges that exist: after destroy() no edge leads to the sink, registered or not')]


ALL += [SinkInit, SinkDestroy, SinkDestroyNotRegistered]


# --------------------------------------------------------------------------- frame of the sink registry (syntactic)
import ast as _ast
import time as _time
from pyvc.contract import Result as _Result


class SinkRegistryFrame(Contract):
    """Frame condition of T4 ("a sink is registered from construction until destroy()"): the registry `_global_sinks` of
    streamz/sinks.py is touched only where the contracts SinkInit / SinkDestroy look -- `Sink.__init__` adds, `Sink.destroy` removes --
    and no other function or method of the module mentions it.  Without this the two method contracts say nothing about the
    registry between construction and destruction (a topology edit, an override of _remove_upstream, ...)."""
    file = 'streamz/sinks.py'
    files = ['streamz/sinks.py', 'streamz/core.py']
    qual = 'Sink.__init__'
    name = 'sink registry is modified only by Sink.__init__ and Sink.destroy'
    props = ['C15']
    ALLOWED = {'Sink.__init__', 'Sink.destroy'}

    def verify(self, index, props=None, want_models=True):
        src, tree = index.files['streamz/sinks.py']
        t0 = _time.time()
        users = []

        def scan(node, qual):
            for n in _ast.walk(node):
                if isinstance(n, _ast.Name) and n.id == '_global_sinks':
                    users.append((qual, n.lineno))
        for n in tree.body:
            if isinstance(n, _ast.ClassDef):
                for m in n.body:
                    if isinstance(m, (_ast.FunctionDef, _ast.AsyncFunctionDef)):
                        scan(m, n.name + '.' + m.name)
                    elif not (isinstance(m, _ast.Expr) and isinstance(m.value, _ast.Constant)):
                        scan(m, n.name + '.<class body>')
            elif isinstance(n, (_ast.FunctionDef, _ast.AsyncFunctionDef)):
                scan(n, n.name)
            elif isinstance(n, _ast.Assign) and any(isinstance(t, _ast.Name) and t.id == '_global_sinks' for t in n.targets):
                pass                                    # the definition  _global_sinks = set()
            else:
                scan(n, '<module>')
        bad = sorted(set(q for q, _ in users if q not in self.ALLOWED))
        res = [_Result(self.name + '/C15.T4_registry_frame', self.props, 'proved' if not bad else 'failed', 'syntactic',
                       _time.time() - t0, path='ast', contract=self,
                       detail='' if not bad else '_global_sinks is also used in: %s (lines %s)' % (
                           ', '.join(bad), ', '.join(str(l) for q, l in users if q in bad)))]
        self.outcomes = []
        return res, {'paths': 0, 'seconds': 0, 'branch_checks': 0, 'outcomes': [], 'dropped': [], 'cover': []}


ALL += [SinkRegistryFrame]
