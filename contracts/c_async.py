"""Segment contracts of the timing / buffering nodes of streamz/core.py."""
import z3
from pyvc import sym
from pyvc.sym import (VInt, VReal, VBool, VNone, VStr, VElem, VSeq, VList, VTuple, VRef, VObj, VCallable, VAw,
                      VBuiltin, K_ELEM, K_MDE, K_MD, K_AW, K_INT, K_OBJ)
from pyvc.contract import Clause
from pyvc.interp import NONE, Resume
from .async_common import Segment, f_isawaitable
from .core_common import R


# --------------------------------------------------------------------------- rate_limit
class RateLimitS1(Segment):
    """rate_limit.update from entry to its first suspension: slot reservation (C13) and hold discipline (C04)."""
    cls = 'rate_limit'
    method = 'update'
    start = 0
    props = ['C13', 'C04', 'C05', 'C02', 'C10']
    data_fields = ('next',)
    inflight_post = {'yield:1': 'occ(metadata)', 'yield:2': 'occ(metadata)'}
    assumptions = ('time() is read once per call and never runs backwards inside a segment',
                   'timers are punctual in virtual time (C13 order clause): a timer runs before any callback '
                   'scheduled at a later virtual instant; ready callbacks run FIFO')

    def make_self(self, I):
        interval, nxt = z3.Real('interval'), z3.Real('next0')
        I.st.assume(interval >= 0)
        return {'interval': VReal(interval), 'next': VReal(nxt)}

    def clauses(self):
        now = 'time_reads[0]'
        slot = '(%s if %s >= old(self.next) else old(self.next))' % (now, now)
        return [
            Clause('C13.reserves_next_slot', ['C13'], when='any',
                   text='len(time_reads) == 1 and self.next == %s + self.interval' % slot,
                   note='slot_k = max(now_k, next_{k-1}); next_k = slot_k + interval, hence slot_{k+1} >= slot_k + interval'),
            Clause('C13.sleeps_exactly_until_slot', ['C13'], when='yield:1',
                   text='len(sleeps) == 1 and sleeps[0] == old(self.next) - %s and %s < old(self.next) and emitted == []' % (now, now)),
            Clause('C13.idle_line_no_delay', ['C13'], when='yield:2',
                   text='len(sleeps) == 0 and %s >= old(self.next) and emitted == [x] and emitted_md == [metadata]' % now,
                   note='an element arriving after the line has been idle for the interval is delivered without delay'),
            Clause('C04.holds_while_sleeping', ['C04'], when='yield:1', text='delta >= occ(metadata)',
                   kind='text', note='H1: the element waits inside the node after update() returned to the emitter, so the node must hold it'),
            Clause('C13.the_slot_is_reserved_when_update_is_called', ['C13', 'C02'], when='any', fn=self.first_segment_is_eager(),
                   note='arrival order is the order of the calls of update(): the first segment (reading the clock, reserving the slot, '
                        'retaining) must run inside the call.  A Tornado coroutine does; the body of a native coroutine (async def) does '
                        'not run at all until somebody awaits the returned object, and emitters that do not await (collect.flush, the '
                        'from_tcp handler) would drop the element'),
        ] + self.segment_clauses()

    def first_segment_is_eager(self):
        def fn(self_, I, o, fr):
            import ast as _ast
            rel, node = I.index.function('rate_limit.update')
            return z3.BoolVal(not isinstance(node, _ast.AsyncFunctionDef))
        return fn


class RateLimitS2(Segment):
    """after the sleep: emit exactly the element and metadata received"""
    cls = 'rate_limit'
    method = 'update'
    start = 1
    props = ['C13', 'C02', 'C10', 'C04', 'C05']
    inflight_pre = 'occ(metadata)'
    inflight_post = {'yield:2': 'occ(metadata)'}

    def make_self(self, I):
        interval, nxt = z3.Real('interval'), z3.Real('next0')
        I.st.assume(interval >= 0)
        return {'interval': VReal(interval), 'next': VReal(nxt)}

    def make_locals(self, I, selfv):
        loc = Segment.make_locals(self, I, selfv)
        loc.update({'now': VReal(z3.Real('now_l')), 'old_next': VReal(z3.Real('old_next_l'))})
        return loc

    def clauses(self):
        return [Clause('C13.emits_the_element_it_received_once', ['C13', 'C02'], when='yield:2',
                       text='emitted == [x] and self.next == old(self.next)'),
                Clause('C10.metadata_unchanged', ['C10'], when='yield:2', text='emitted_md == [metadata]'),
                Clause('C13.a_failed_consumer_does_not_give_the_slot_back', ['C13', 'C16'], when='raise', text='self.next == old(self.next)',
                       note='slots already reserved by the elements sleeping behind this one were computed from self.next: moving it '
                            'back puts the next arrival on a slot that is taken'),
                Clause('C16.a_failed_consumer_keeps_the_hold', ['C16', 'C04'], when='raise', text='delta == 0',
                       note='no release on the failure path: the completion callback of a failed element is never triggered'),
                Clause('C13.no_other_outcome', ['C13'], when='return', text='False')] + self.segment_clauses()


class RateLimitS3Failed(RateLimitS2):
    """the awaited emission failed (an asynchronous consumer raised): the slot bookkeeping stays, the hold stays"""
    start = 2
    name = 'rate_limit.update@2[downstream failed]'
    props = ['C13', 'C16', 'C04']
    inflight_pre = 'occ(metadata)'
    inflight_post = {}

    def resume(self, I, loc):
        from pyvc.interp import Resume
        from pyvc.sym import VExc
        return Resume(exc=VExc('DownstreamError'))

    def clauses(self):
        return [Clause('C13.a_failed_consumer_does_not_give_the_slot_back', ['C13', 'C16'], when='any', text='self.next == old(self.next)',
                       note='slots already reserved by the elements sleeping behind this one were computed from self.next: moving it '
                            'back puts the next arrival on a slot that is taken'),
                Clause('C16.a_failed_consumer_keeps_the_hold', ['C16', 'C04'], when='any', text='delta == 0 and emitted == []',
                       note='no release on the failure path: the completion callback of a failed element is never triggered'),
                Clause('C16.the_failure_propagates', ['C16'], when='normal', text='False')]

    def cover(self, outcomes):
        return [('the failure propagates', any(o.kind == 'raise' for o in outcomes))]


class RateLimitS3(RateLimitS2):
    """downstream finished: give the hold back"""
    start = 2
    name = 'rate_limit.update@2'
    inflight_pre = 'occ(metadata)'
    inflight_post = {}

    def clauses(self):
        return [Clause('C05.releases_after_downstream_completed', ['C05', 'C04', 'C13'], when='return',
                       text='delta == -occ(metadata) and emitted == [] and self.next == old(self.next)')] + self.segment_clauses()


ALL = [RateLimitS1, RateLimitS2, RateLimitS3, RateLimitS3Failed]


# --------------------------------------------------------------------------- buffer / delay (queue nodes)
class QueueNode(Segment):
    """Trusted tornado Queue model: ghost Q = items accepted by put() and not yet handed to the getter, FIFO."""
    held_text = 'occ(mds_of(Q))'
    assumptions = ('tornado.queues.Queue: FIFO; put() returns a future that completes when the item is inside the '
                   'bounded queue; get() hands out the head (trusted, DESIGN Appendix B)',)

    def queue_fields(self, I):
        I.st.ghost['Q'] = VSeq(z3.Const('Q0', sym.SeqElemS), K_ELEM)
        return {'queue': VRef(z3.Const('queue', sym.Obj), 'Queue')}

    def summaries(self):
        d = Segment.summaries(self)
        base_put = d['Queue.put']

        def q_put(I, recv, args, kwargs):
            g = I.st.ghost
            g['Q'] = VSeq(z3.Concat(g['Q'].t, z3.Unit(I.as_elem(args[0]))), K_ELEM)
            a = base_put(I, recv, args, kwargs)
            g['put_future'] = a
            return a
        d['Queue.put'] = q_put
        return d

    def take_head(self, I):
        """resumption of `yield self.queue.get()`: the head of Q is handed over"""
        g = I.st.ghost
        p = z3.Const('p_head', sym.Elem)
        rest = z3.Const('Q_rest', sym.SeqElemS)
        I.st.assume(g['Q'].t == z3.Concat(z3.Unit(p), rest))
        # queue invariant (established by update's postcondition): every queued item is an (x, metadata) pair
        I.st.assume(sym.f_mdpair(sym.f_mdpair_x(p), sym.f_mdpair_md(p)) == p)
        g['Q'] = VSeq(rest, K_ELEM)
        g['taken'] = VElem(p)
        return Resume(VElem(p))


class BufferUpdate(QueueNode):
    cls = 'buffer'
    method = 'update'
    start = 0
    props = ['C02', 'C03', 'C04', 'C05', 'C10']

    def make_self(self, I):
        return self.queue_fields(I)

    def clauses(self):
        return [Clause('C02.enqueues_fifo', ['C02', 'C10'], when='return',
                       text='Q == old(Q) + [pair(x, metadata)] and emitted == []'),
                Clause('C03.returns_put_future', ['C03'], when='return', text='result == put_future',
                       note='the emitter waits until the item is inside the bounded queue'),
                Clause('C04.holds_queued_element', ['C04'], when='normal', text='delta >= occ(metadata)'),
                ] + self.segment_clauses()


class BufferCb0(QueueNode):
    cls = 'buffer'
    method = 'cb'
    start = 0
    props = ['C02', 'C03']

    def make_self(self, I):
        return self.queue_fields(I)

    def make_locals(self, I, selfv):
        return {'self': selfv}

    def clauses(self):
        return [Clause('C02.waits_for_an_item', ['C02', 'C03'], when='yield:1',
                       text='q_get == 1 and emitted == [] and Q == old(Q)')] + self.segment_clauses()


class BufferCb1(QueueNode):
    """resumed with the head of the queue: forward exactly that item and wait for downstream"""
    cls = 'buffer'
    method = 'cb'
    start = 1
    props = ['C02', 'C03', 'C04', 'C05', 'C10']
    inflight_post = {'yield:2': 'occ(metadata)'}

    def make_self(self, I):
        return self.queue_fields(I)

    def make_locals(self, I, selfv):
        return {'self': selfv}

    def resume(self, I, loc):
        r = self.take_head(I)
        # the pre-state used by old() is the state before the hand-over
        return r

    def clauses(self):
        return [Clause('C02.forwards_head_exactly_once', ['C02'], when='yield:2',
                       text='emitted == [x] and pair(x, metadata) == taken and q_get == 0',
                       note='FIFO: the element forwarded is the head of the queue; nothing else is taken before downstream completes'),
                Clause('C10.metadata_travels', ['C10'], when='yield:2', text='emitted_md == [metadata]'),
                Clause('C04.holds_while_downstream_pending', ['C04'], when='yield:2', text='delta == 0'),
                ] + self.segment_clauses()

    def balance_clause(self):
        def fn(self_, I, o, fr):
            # own holds before: queue incl. head; after: rest of queue + the item being forwarded
            pre_st, _ = o.state.ghost['_pre']
            own_pre = sym.occs(R, sym.mds_of(pre_st.ghost['Q'].t))
            key = self.outcome_key(o)
            post_text = self.inflight_post.get(key, '0')
            own_post = self.held(I, o.state) + self.inflight(I, o.state, post_text, fr)
            return o.state.ghost['delta'].t == own_post - own_pre
        return fn


class BufferCb2(QueueNode):
    """downstream finished: release and go back to waiting"""
    cls = 'buffer'
    method = 'cb'
    start = 2
    props = ['C02', 'C04', 'C05']
    inflight_pre = 'occ(metadata)'

    def make_self(self, I):
        return self.queue_fields(I)

    def make_locals(self, I, selfv):
        return {'self': selfv, 'x': VElem(z3.Const('x', sym.Elem)),
                'metadata': VSeq(z3.Const('md', sym.SeqMdS), K_MDE)}

    def clauses(self):
        return [Clause('C05.releases_after_downstream_completed', ['C05', 'C04'], when='yield:1',
                       text='delta == -occ(metadata) and emitted == [] and q_get == 1')] + self.segment_clauses()


ALL += [BufferUpdate, BufferCb0, BufferCb1, BufferCb2]


# --------------------------------------------------------------------------- delay
class DelayNode(QueueNode):
    def make_self(self, I):
        f = self.queue_fields(I)
        iv = z3.Real('interval')
        I.st.assume(iv >= 0)
        f['interval'] = VReal(iv)
        return f


class DelayUpdate(DelayNode):
    cls = 'delay'
    method = 'update'
    start = 0
    props = ['C02', 'C03', 'C04', 'C05', 'C10', 'C13']

    def clauses(self):
        return [Clause('C13.enqueues_fifo', ['C02', 'C13', 'C10'], when='return',
                       text='Q == old(Q) + [pair(x, metadata)] and emitted == []'),
                Clause('C03.returns_put_future', ['C03'], when='return', text='result == put_future'),
                Clause('C04.holds_queued_element', ['C04'], when='normal', text='delta >= occ(metadata)'),
                ] + self.segment_clauses()


class DelayCb0(DelayNode):
    cls = 'delay'
    method = 'cb'
    start = 0
    props = ['C02', 'C13']

    def make_locals(self, I, selfv):
        return {'self': selfv}

    def clauses(self):
        return [Clause('C13.waits_for_an_item', ['C02', 'C13'], when='yield:1',
                       text='q_get == 1 and emitted == [] and Q == old(Q)')] + self.segment_clauses()


class DelayCb1(DelayNode):
    cls = 'delay'
    method = 'cb'
    start = 1
    props = ['C02', 'C04', 'C05', 'C10', 'C13']
    inflight_post = {'yield:2': 'occ(metadata)'}
    balance_clause = BufferCb1.balance_clause

    def make_locals(self, I, selfv):
        return {'self': selfv, 'last': VReal(z3.Real('last_l'))}

    def resume(self, I, loc):
        return self.take_head(I)

    def clauses(self):
        return [Clause('C13.forwards_head_exactly_once', ['C02', 'C13'], when='yield:2',
                       text='emitted == [x] and pair(x, metadata) == taken and q_get == 0'),
                Clause('C10.metadata_travels', ['C10'], when='yield:2', text='emitted_md == [metadata]'),
                ] + self.segment_clauses()


class DelayCb2(DelayNode):
    cls = 'delay'
    method = 'cb'
    start = 2
    props = ['C02', 'C04', 'C05', 'C13']
    inflight_pre = 'occ(metadata)'

    def make_locals(self, I, selfv):
        return {'self': selfv, 'last': VReal(z3.Real('last_l')), 'x': VElem(z3.Const('x', sym.Elem)),
                'metadata': VSeq(z3.Const('md', sym.SeqMdS), K_MDE)}

    def clauses(self):
        return [Clause('C13.one_item_per_cycle', ['C02', 'C13'], when='any',
                       text='emitted == [] and delta == -occ(metadata)',
                       note='after forwarding one item the coroutine only releases, optionally sleeps, then asks for the next item'),
                Clause('C13.sleeps_rest_of_interval', ['C13'], when='yield:3',
                       text='len(sleeps) == 1 and sleeps[0] == self.interval - (time_reads[0] - last) and sleeps[0] > 0 and q_get == 0'),
                Clause('C13.next_get_without_sleep_if_interval_elapsed', ['C13'], when='yield:1',
                       text='len(sleeps) == 0 and q_get == 1'),
                ] + self.segment_clauses()


class DelayCb3(DelayNode):
    cls = 'delay'
    method = 'cb'
    start = 3
    props = ['C02', 'C13']

    def make_locals(self, I, selfv):
        return {'self': selfv, 'last': VReal(z3.Real('last_l')), 'x': VElem(z3.Const('x', sym.Elem)),
                'metadata': VSeq(z3.Const('md', sym.SeqMdS), K_MDE), 'duration': VReal(z3.Real('duration_l'))}

    def clauses(self):
        return [Clause('C13.asks_for_next_item', ['C02', 'C13'], when='yield:1',
                       text='q_get == 1 and emitted == [] and delta == 0')] + self.segment_clauses()


# --------------------------------------------------------------------------- timed_window
class TimedWindowNode(Segment):
    held_text = 'occ(list(self.metadata_buffer))'
    data_fields = ('_buffer', 'metadata_buffer')
    assumptions = ('gen.sleep(d) resumes no earlier than d later; in virtual time timers are punctual',)

    def make_self(self, I):
        iv = z3.Real('interval')
        I.st.assume(iv >= 0)
        buf = I.st.new_list(z3.Const('buf0', sym.SeqElemS), K_ELEM)
        mdb = I.st.new_list(z3.Const('mdb0', sym.SeqSeqMdS), K_MD)
        I.st.assume(z3.Length(z3.Const('buf0', sym.SeqElemS)) == z3.Length(z3.Const('mdb0', sym.SeqSeqMdS)))
        return {'interval': VReal(iv), '_buffer': buf, 'metadata_buffer': mdb,
                'last': VAw(z3.Const('last0', sym.Aw))}


def _last_is_reusable_future(self_, I, o, fr):
    """self.last is ONE future that covers the list _emit returned in this segment"""
    from pyvc.sym import VAw
    g = o.state.ghost
    cell = o.state.heap[self_.pre_args['self'].loc]
    last = cell.fields.get('last')
    if '_last_emit_ret' not in g:
        return z3.BoolVal(False)
    ret = g['_last_emit_ret']
    if isinstance(last, VAw) and any(c.eq(ret) for c in getattr(last, 'covers', [])):
        return z3.BoolVal(True)
    return z3.BoolVal(False)


class TimedWindowUpdate(TimedWindowNode):
    cls = 'timed_window'
    method = 'update'
    start = 0
    props = ['C02', 'C03', 'C04', 'C05', 'C08', 'C10']

    def clauses(self):
        return [Clause('C08.appends_to_current_buffer', ['C08', 'C02'], when='return',
                       text='list(self._buffer) == old(list(self._buffer)) + [x] and emitted == []'),
                Clause('C10.buffers_metadata', ['C10', 'C08'], when='return',
                       text='list(self.metadata_buffer) == old(list(self.metadata_buffer)) + [metadata]'),
                Clause('C03.returns_awaitable_of_last_emission', ['C03'], when='return', text='result == old(self.last)',
                       note='backpressure: the emitter waits for the previous batch to be consumed'),
                Clause('C04.holds_buffered_element', ['C04'], when='normal', text='delta >= occ(metadata)'),
                ] + self.segment_clauses()


class TimedWindowCbTick(TimedWindowNode):
    """one tick: swap the buffer and emit the batch in the same atomic segment (entry and after each sleep)"""
    cls = 'timed_window'
    method = 'cb'
    start = 0
    props = ['C02', 'C04', 'C05', 'C08', 'C10']

    def make_locals(self, I, selfv):
        return {'self': selfv}

    def clauses(self):
        return [Clause('C08.batch_is_everything_since_last_tick_in_order', ['C08', 'C02'], when='yield:1',
                       text='emitted == [tup(old(list(self._buffer)))] and len(self._buffer) == 0',
                       note='each buffered element is emitted in exactly one batch; arrivals during the emission land in the new buffer'),
                Clause('C10.batch_metadata', ['C10'], when='yield:1',
                       text='emitted_md == [flat(old(list(self.metadata_buffer)))] and len(self.metadata_buffer) == 0'),
                Clause('C03.remembers_one_reusable_future_for_the_whole_emission', ['C03', 'C08', 'C02', 'C16'], when='yield:1',
                       fn=_last_is_reusable_future, kind='protocol', replay={'scenario': 'timed_window_awaitables_shared', 'cls': self.cls},
                       note='update() hands self.last to EVERY arrival until the next tick and the forwarder awaits it as well: it must '
                            'stand for all awaitables of the emission and bear being awaited many times (a future made with '
                            'gen.convert_yielded / asyncio.gather / ensure_future), not be the bare awaitables themselves -- a '
                            'coroutine object can be awaited once, the second emitter would get RuntimeError'),
                Clause('C08.no_other_outcome', ['C08'], when='return', text='False'),
                ] + self.segment_clauses() + [
                Clause('C01.reentrancy', ['C08', 'C01'], fn=self.reentrancy(), when='yield:1')]

    def reentrancy(self):
        def fn(self_, I, o, fr):
            snaps = o.state.ghost['_snaps']
            post = o.state.heap[self.pre_args['self'].loc]
            fs = []
            for s in snaps:
                cell = s.heap[self.pre_args['self'].loc]
                for f in self.data_fields:
                    fs.append(values_equal_across(I, s, cell.fields[f], o.state, post.fields[f]))
            return z3.And(fs) if fs else None
        return fn


class TimedWindowCbAfterSleep(TimedWindowCbTick):
    start = 2

    def make_locals(self, I, selfv):
        return {'self': selfv, 'L': I.st.new_list(z3.Const('L_l', sym.SeqElemS), K_ELEM),
                'metadata': I.st.new_list(z3.Const('mdl_l', sym.SeqSeqMdS), K_MD),
                'm': I.st.new_list(z3.Const('m_l', sym.SeqMdS), K_MDE)}


class TimedWindowCbAfterEmit(TimedWindowNode):
    """downstream consumed the batch: sleep one interval"""
    cls = 'timed_window'
    method = 'cb'
    start = 1
    props = ['C08']

    def make_locals(self, I, selfv):
        return {'self': selfv, 'L': I.st.new_list(z3.Const('L_l', sym.SeqElemS), K_ELEM),
                'metadata': I.st.new_list(z3.Const('mdl_l', sym.SeqSeqMdS), K_MD),
                'm': I.st.new_list(z3.Const('m_l', sym.SeqMdS), K_MDE)}

    def clauses(self):
        return [Clause('C08.sleeps_one_interval_between_ticks', ['C08'], when='yield:2',
                       text='len(sleeps) == 1 and sleeps[0] == self.interval and emitted == [] and '
                            'list(self._buffer) == old(list(self._buffer))',
                       note='an element arriving at t is emitted at the first tick after t: at most one interval plus the time downstream blocks'),
                ] + self.segment_clauses()


from .core_common import values_equal_across
ALL += [DelayUpdate, DelayCb0, DelayCb1, DelayCb2, DelayCb3, TimedWindowUpdate, TimedWindowCbTick,
        TimedWindowCbAfterSleep, TimedWindowCbAfterEmit]


# --------------------------------------------------------------------------- latest (C14)
class LatestNode(Segment):
    """Ghost protocol state (DESIGN C14): arr = number of arrivals, slot_pos = arrival index of the element last written
    to the slot, last_pos = arrival index of the last delivered element, pending = posted notify callbacks not yet run,
    waiting = cb blocked in condition.wait(), woken = cb was notified and will resume inside its `while not self.next`
    loop.  The slot `self.next` is [] exactly when its element has been consumed.  Invariants:
      J1  len(next) == 1  <=>  slot_pos > last_pos        (the slot is non-empty iff it holds an undelivered element)
      J2  len(next) == 1 and waiting  ==>  pending > 0    (lost-wake-up freedom: a waiting forwarder will be notified)
      J3  delivered positions strictly increase            (checked where an element is delivered)
    """
    held_text = 'occ(self.next_metadata)'
    data_fields = ('next',)
    inline = ('latest.condition',)
    assumptions = ('tornado.locks.Condition: notify() completes the first waiter; with no waiter it does nothing '
                   '(trusted, DESIGN Appendix B); the event loop is fair (liveness reading of J2)',
                   'latest keeps holding the element in its slot until it is replaced (test_latest_ref_counts)')

    def make_self(self, I):
        g = I.st.ghost
        for n in ('arr', 'slot_pos', 'last_pos', 'pending'):
            g[n] = VInt(z3.Int(n + '0'))
        for n in ('waiting', 'woken'):
            g[n] = VBool(z3.Bool(n + '0'))
        self.next0 = z3.Const('next0', sym.SeqElemS)
        nxt = I.st.new_list(self.next0, K_ELEM)
        f = {'next': nxt, 'next_metadata': VSeq(z3.Const('nmd0', sym.SeqMdS), K_MDE),
             '_condition': VRef(z3.Const('cond', sym.Obj), 'Condition')}
        self._selfloc = None
        I.st.assume(z3.Length(self.next0) <= 1)
        self._pending_assume = True
        return f

    def requires(self, I, selfv, loc):
        self.assume_inv(I, selfv)

    def slot_len(self, I, st, selfv):
        cell = st.heap[selfv.loc]
        t = st.list_cell(cell.fields['next'].loc).term
        return z3.IntVal(0) if t is None else z3.Length(t)

    def inv_terms(self, I, st, selfv):
        g = st.ghost
        n = self.slot_len(I, st, selfv)
        return [('J1_slot_nonempty_iff_undelivered', (n == 1) == (g['slot_pos'].t > g['last_pos'].t)),
                ('J2_no_lost_wakeup', z3.Implies(z3.And(n == 1, g['waiting'].t), g['pending'].t > 0)),
                ('structural', z3.And(g['pending'].t >= 0, g['arr'].t >= g['slot_pos'].t, g['slot_pos'].t >= 0,
                                      g['last_pos'].t >= 0, g['last_pos'].t <= g['slot_pos'].t, n <= 1,
                                      z3.Not(z3.And(g['waiting'].t, g['woken'].t))))]

    def assume_inv(self, I, selfv):
        for n, f in self.inv_terms(I, I.st, selfv):
            I.st.assume(f)

    def inv_clauses(self, when):
        def mk(i):
            def fn(self_, I, o, fr):
                self.ghost_step(o.state.ghost, o)
                return self.inv_terms(I, o.state, self.pre_args['self'])[i][1]
            return fn
        names = ['J1_slot_nonempty_iff_undelivered', 'J2_no_lost_wakeup', 'structural']
        return [Clause('C14.' + n, ['C14'], fn=mk(i), when=when, kind='protocol', replay={'scenario': 'latest_lost_wakeup'})
                for i, n in enumerate(names)]

    def ghost_step(self, g, o):
        pass


class LatestUpdate(LatestNode):
    cls = 'latest'
    method = 'update'
    start = 0
    props = ['C14', 'C04', 'C05', 'C10']

    def ghost_step(self, g, o):
        if g.get('_stepped'):
            return
        g['_stepped'] = True
        # one arrival: the slot now holds element number arr+1; one notify callback was posted
        g['arr'] = VInt(g['arr'].t + 1)
        g['slot_pos'] = g['arr']
        g['pending'] = VInt(g['pending'].t + len(g['callbacks'].items))

    def clauses(self):
        return [Clause('C14.slot_holds_newest_element', ['C14'], when='return',
                       text='list(self.next) == [x] and self.next_metadata == metadata and emitted == []'),
                Clause('C14.posts_exactly_one_wakeup', ['C14'], when='return', text='len(callbacks) == 1'),
                Clause('C04.holds_slot_element', ['C04'], when='normal', text='delta >= occ(metadata) - old(occ(self.next_metadata))'),
                ] + self.inv_clauses('return') + self.segment_clauses()


class LatestNotify(LatestNode):
    """The posted callback `condition.notify` (tornado code, trusted model): a protocol-level segment with no
    streamz code; it must preserve the invariants for the protocol to be correct."""
    cls = 'latest'
    method = 'update'       # locator only; no body is executed
    name = 'latest.<posted condition.notify>'
    start = 0
    props = ['C14']

    def unit(self, I, index):
        def run(I):
            from pyvc.state import State
            from pyvc.interp import Frame
            st = State()
            I.st = st
            self.init_ghost(st)
            self.init_async_ghost(st)
            fields = self.base_fields()
            fields.update(self.make_self(I))
            selfv = st.new_obj(self.cls, fields)
            self.assume_inv(I, selfv)
            g = st.ghost
            st.assume(g['pending'].t > 0)
            self.pre_args = {'self': selfv}
            self.pre_state = st.snapshot()
            g['_pre'] = (self.pre_state, self.pre_args)
            g['pending'] = VInt(g['pending'].t - 1)
            was_waiting = g['waiting'].t
            g['woken'] = VBool(z3.Or(g['woken'].t, was_waiting))
            g['waiting'] = VBool(False)
            return NONE, Frame('latest.notify')
        return run

    def clauses(self):
        return self.inv_clauses('return')


class LatestCbStart(LatestNode):
    """cb from its start / from the top of the outer loop: wait while the slot is empty, otherwise deliver"""
    cls = 'latest'
    method = 'cb'
    start = 0
    props = ['C14', 'C05', 'C10']

    def make_locals(self, I, selfv):
        g = I.st.ghost
        I.st.assume(z3.Not(g['waiting'].t))
        return {'self': selfv}

    def ghost_step(self, g, o):
        if g.get('_stepped'):
            return
        g['_stepped'] = True
        g['woken'] = VBool(False)
        if o.kind == 'yield' and o.yield_index == 1:
            g['waiting'] = VBool(True)
        elif o.kind == 'yield' and o.yield_index == 2:
            g['delivered_pos'] = g['slot_pos']
            g['prev_last'] = g['last_pos']
            g['last_pos'] = g['slot_pos']

    def clauses(self):
        def strictly_newer(self_, I, o, fr):
            self.ghost_step(o.state.ghost, o)
            g = o.state.ghost
            return g['delivered_pos'].t > g['prev_last'].t
        return [Clause('C14.waits_only_when_slot_is_empty', ['C14'], when='yield:1',
                       text='old(len(self.next)) == 0 and emitted == [] and waits == 1',
                       note='the slot is re-checked before waiting: an arrival during a busy period is not missed'),
                Clause('C14.delivers_slot_content_and_consumes_it', ['C14'], when='yield:2',
                       text='emitted == old(list(self.next)) and len(emitted) == 1 and len(self.next) == 0'),
                Clause('C14.delivered_positions_strictly_increase', ['C14'], fn=strictly_newer, when='yield:2',
                       kind='protocol', note='J3: subsequence in the original order, nothing delivered twice'),
                Clause('C10.slot_metadata_travels', ['C10'], when='yield:2', text='emitted_md == [self.next_metadata]'),
                Clause('C14.slot_is_consumed_before_the_element_is_handed_downstream', ['C14', 'C01'], when='yield:2',
                       fn=TimedWindowUniqueCbTick.reentrancy(self),
                       note='re-entrancy: an element arriving from inside the delivery call (feedback) must find the slot already '
                            'emptied, otherwise it is wiped when the slot is cleared afterwards'),
                ] + self.inv_clauses('normal') + self.segment_clauses()


class LatestCbWoken(LatestCbStart):
    """resumed from condition.wait() (woken by a notify)"""
    start = 1
    name = 'latest.cb@1'

    def make_locals(self, I, selfv):
        g = I.st.ghost
        I.st.assume(g['woken'].t)
        return {'self': selfv}


class LatestCbAfterEmit(LatestCbStart):
    """downstream finished: back to the top of the loop"""
    start = 2
    name = 'latest.cb@2'

    def make_locals(self, I, selfv):
        g = I.st.ghost
        I.st.assume(z3.Not(g['waiting'].t))
        I.st.assume(z3.Not(g['woken'].t))
        return {'self': selfv, 'x': VElem(z3.Const('x', sym.Elem))}


ALL += [LatestUpdate, LatestNotify, LatestCbStart, LatestCbWoken, LatestCbAfterEmit]


# --------------------------------------------------------------------------- sink
from .core_common import NodeUpdate
from .c_nodes_simple import ARGS, KWARGS, user_raise_clauses


class SinkUpdate(NodeUpdate):
    cls = 'sink'
    file = 'streamz/sinks.py'
    files = ['streamz/sinks.py', 'streamz/core.py']
    # the sink is the consumer end of every pipeline: what it hands back is what buffering / timed / latest nodes await
    props = ['C01', 'C02', 'C03', 'C04', 'C05', 'C08', 'C10', 'C13', 'C14', 'C16']

    def make_self(self, I):
        return {'func': VCallable('func'), 'args': ARGS, 'kwargs': KWARGS}

    def globals(self):
        return {'gen': VBuiltin('gen'), 'inspect': VBuiltin('inspect'), 'asyncio': VBuiltin('asyncio')}

    def spec_funcs(self):
        d = NodeUpdate.spec_funcs(self)
        from .async_common import async_spec_funcs
        for k, v in async_spec_funcs(self).items():
            if k.startswith('builtin_inspect.') or k in ('builtin_gen.is_future', 'builtin_asyncio.isfuture', 'builtin_asyncio.iscoroutine', 'isinstance'):
                d[k] = v

        def wrap_in_future(I, args, kwargs, fr):
            # gen.convert_yielded(x) / asyncio.ensure_future(x): a future that awaits x (x has an awaiter from now on)
            g = I.st.ghost
            g['_given_an_awaiter'] = g.get('_given_an_awaiter', []) + [args[0]]
            return VAw(z3.Const(sym.fresh_name('future_around'), sym.Aw))
        d['builtin_gen.convert_yielded'] = wrap_in_future
        d['builtin_asyncio.ensure_future'] = wrap_in_future

        def isawaitable(I, args, kwargs, fr):
            v = args[0]
            return VBool(f_isawaitable(I.as_elem(v)))

        def awaitable(I, v):
            return VBool(f_isawaitable(I.as_elem(v)))
        d['builtin_gen.isawaitable'] = isawaitable
        d['awaitable'] = awaitable
        return d

    def summaries(self):
        d = NodeUpdate.summaries(self)

        def release_when_done(I, recv, args, kwargs):
            # calling the async def only creates the coroutine object (proved separately: SinkReleaseWhenDone*)
            g = I.st.ghost
            g['wrapped'] = VTuple([args[0], args[1]])
            return VElem(sym.user_func('release_when_done', 1)(I.as_elem(args[0])))
        d['sink._release_when_done'] = release_when_done

        def add_done_callback(I, recv, args, kwargs):
            return NONE              # runs in a later segment (when the future completes), nothing happens now
        d['Aw.add_done_callback'] = add_done_callback
        return d

    def init_ghost(self, st):
        NodeUpdate.init_ghost(self, st)
        st.ghost['wrapped'] = VTuple([])

    def clauses(self):
        def called_once(self_, I, o, fr):
            evs = [e for e in o.state.events if e['kind'] == 'opaque' and e['name'] == 'func']
            if len(evs) != 1:
                return z3.BoolVal(False)
            return evs[0]['args'][0] == self.pre_args['x'].t
        res = 'self.func(x, *self.args, **self.kwargs)'
        def one_awaiter(self_, I, o, fr):
            # what update() returns is awaited by the emitter: an awaitable of the consumer that this call has also wrapped into
            # a future of its own (convert_yielded / ensure_future) would be awaited twice; a coroutine object bears one await
            given = o.state.ghost.get('_given_an_awaiter', [])
            res = o.value
            items = res.items if isinstance(res, sym.VTuple) else [res]
            bad = [z3.BoolVal(True) for r in items for gv in given if r is gv]
            return z3.BoolVal(not bad)
        extra = [Clause('C02.an_awaitable_of_the_consumer_gets_exactly_one_awaiter', ['C02', 'C03'], when='return', fn=one_awaiter,
                        note='returning the raw awaitable AND wrapping it into a future awaits a coroutine object twice: RuntimeError in the second awaiter')]
        return extra + [
            Clause('C01.func_called_exactly_once_with_the_element', ['C01', 'C02'], fn=called_once, when='return',
                   kind='called_once'),
            Clause('C03.returns_the_consumers_awaitable', ['C03', 'C02'], when='return',
                   text='implies(awaitable(%s), elem(result) == %s or (len(wrapped) == 2 and wrapped[0] == %s and wrapped[1] == metadata))' % (res, res, res),
                   note='native coroutines and Tornado futures alike: whatever gen.isawaitable accepts reaches the emitter'),
            Clause('C03.synchronous_consumer_returns_nothing_to_wait_for', ['C03'], when='return',
                   text='implies(not awaitable(%s), len(result) == 0)' % res),
            Clause('C04.holds_while_consumer_pending', ['C04'], when='normal',
                   text='implies(awaitable(%s), delta >= occ(metadata))' % res,
                   note='H1: an element handled by a sink whose awaitable has not finished must be held by the sink'),
        ] + user_raise_clauses(self)


class SinkToTextfileUpdate(NodeUpdate):
    """sink_to_textfile.update: a synchronous consumer.  It writes the element once and hands NOTHING back: whatever a consumer
    returns (other than None) ends up in the list that buffering / timed / latest nodes yield to the loop, and a non-awaitable in
    that list kills their forwarding coroutine."""
    cls = 'sink_to_textfile'
    file = 'streamz/sinks.py'
    files = ['streamz/sinks.py', 'streamz/core.py']
    props = ['C01', 'C03', 'C14', 'C08', 'C02']
    assumptions = ('file.write(s) appends s and returns the number of characters written (trusted)',)

    def make_self(self, I):
        I.st.ghost['written'] = VTuple([])
        return {'_fp': VRef(z3.Const('fp', sym.Obj), 'File'), '_end': VElem(z3.Const('end', sym.Elem))}

    def summaries(self):
        d = NodeUpdate.summaries(self)

        def write(I, recv, args, kwargs):
            g = I.st.ghost
            g['written'] = VTuple(g['written'].items + [args[0]])
            return VInt(z3.Int(sym.fresh_name('chars_written')))
        d['File.write'] = write
        return d

    def spec_funcs(self):
        d = NodeUpdate.spec_funcs(self)

        def binop_default(I, op, a, b):
            return VElem(sym.user_func('op:' + type(op).__name__, 2)(I.as_elem(a), I.as_elem(b)))

        def concat(I, a, b):
            return VElem(sym.user_func('op:Add', 2)(I.as_elem(a), I.as_elem(b)))
        d['binop_default'] = binop_default
        d['concat'] = concat
        return d

    def clauses(self):
        return [Clause('C01.writes_the_element_once_followed_by_the_terminator', ['C01'], when='return',
                       text='len(written) == 1 and written[0] == x + self._end and emitted == []'),
                Clause('C03.synchronous_consumer_returns_nothing_to_wait_for', ['C03', 'C14', 'C08', 'C02'], when='return',
                       text='result is None')]


class SinkReleaseWhenDone0(Segment):
    """sink._release_when_done: awaits the consumer's awaitable ..."""
    cls = 'sink'
    method = '_release_when_done'
    file = 'streamz/sinks.py'
    files = ['streamz/sinks.py', 'streamz/core.py']
    start = 0
    props = ['C03', 'C04', 'C05']
    inflight_pre = 'occ(metadata)'
    inflight_post = {'yield:1': 'occ(metadata)'}

    def make_locals(self, I, selfv):
        return {'self': selfv, 'awaitable': VElem(z3.Const('awaitable', sym.Elem)),
                'metadata': VSeq(z3.Const('md', sym.SeqMdS), K_MDE)}

    def clauses(self):
        def awaits_it(self_, I, o, fr):
            return I.eq(o.value, self.pre_args['awaitable'])
        return [Clause('C03.awaits_the_consumer_first', ['C03', 'C04'], fn=awaits_it, when='yield:1', kind='protocol'),
                Clause('C04.still_holds_while_consumer_pending', ['C04'], when='yield:1', text='delta == 0')] + self.segment_clauses()


class SinkReleaseWhenDoneFailed(SinkReleaseWhenDone0):
    """the consumer's awaitable raised: the exception propagates and the hold is NOT given up (C16)"""
    start = 1
    name = 'sink._release_when_done@1[consumer raised]'
    props = ['C16', 'C04']
    inflight_post = {}

    def resume(self, I, loc):
        return Resume(exc=VExc('UserError', payload='consumer'))

    def clauses(self):
        return [Clause('C16.failed_consumer_keeps_the_hold', ['C16', 'C04'], when='any', text='delta >= 0',
                       note='the completion callback of an element whose consumer raised must never fire'),
                Clause('C16.exception_reaches_the_emitter', ['C16'], fn=self.same_exception_clause('UserError'), when='any',
                       kind='same_exception', replay={'exc': 'UserError'})]

    def cover(self, outcomes):
        return [('failure path explored', len(outcomes) >= 1)]


class SinkReleaseWhenDone1(SinkReleaseWhenDone0):
    """... and releases the element only after it has completed"""
    start = 1
    name = 'sink._release_when_done@1'
    inflight_post = {}

    def resume(self, I, loc):
        return Resume(VElem(z3.Const('consumer_result', sym.Elem)))

    def clauses(self):
        return [Clause('C05.releases_after_consumer_completed', ['C05', 'C04'], when='return',
                       text='delta == -occ(metadata)')] + self.segment_clauses()


ALL += [SinkToTextfileUpdate, SinkUpdate, SinkReleaseWhenDone0, SinkReleaseWhenDone1, SinkReleaseWhenDoneFailed]


# --------------------------------------------------------------------------- partition (size flush, timeout flush)
from pyvc.state import DictCell
from .async_common import coroutine_call_summary

ElemSeqArr = z3.ArraySort(sym.Elem, sym.SeqElemS)
MdSeqArr = z3.ArraySort(sym.Elem, sym.SeqMdS)
ObjArr = z3.ArraySort(sym.Elem, sym.Obj)


class PartitionNode(Segment):
    held_text = 'occ(self._metadata_buffer[kx])'
    inline = ('partition._get_key',)
    with_timeout = True
    assumptions = ('IOLoop.call_later(t, f, *a) runs f(*a) once, t later in virtual time, unless the returned handle is '
                   'cancelled first (trusted)',
                   'holds of keys other than the one being updated are untouched (frame clause, proved for an arbitrary other key)')

    def make_self(self, I):
        g = I.st.ghost
        n = z3.Int('n')
        I.st.assume(n >= 1)
        K = z3.Const('bkeys0', sym.SeqElemS)
        bv = z3.Const('bvals0', ElemSeqArr)
        mv = z3.Const('mvals0', MdSeqArr)
        CK = z3.Const('ckeys0', sym.SeqElemS)
        cv = z3.Const('cvals0', ObjArr)
        buf = I.st.new_dict(DictCell(K, bv, K_ELEM, sym.K_ELEMS, vlist=K_ELEM, default_empty=True))
        mdb = I.st.new_dict(DictCell(K, mv, K_ELEM, K_MD, vlist=K_MDE, default_empty=True))
        cbs = I.st.new_dict(DictCell(CK, cv, K_ELEM, K_OBJ))
        f = {'n': VInt(n), '_buffer': buf, '_metadata_buffer': mdb, '_callbacks': cbs, '_key': VCallable('key')}
        if self.with_timeout:
            t = z3.Real('timeout')
            I.st.assume(t >= 0)
            f['_timeout'] = VReal(t)
        else:
            f['_timeout'] = NONE
        self._terms = (n, K, bv, mv, CK, cv)
        return f

    def key_term(self):
        return sym.user_func('key', 1)(z3.Const('x', sym.Elem))

    def assume_inv(self, I, k):
        n, K, bv, mv, CK, cv = self._terms
        # node invariant at segment boundaries, for the key k
        I.st.assume(z3.Implies(z3.Contains(K, z3.Unit(k)), z3.Length(z3.Select(bv, k)) < n))
        I.st.assume(z3.Implies(z3.Not(z3.Contains(K, z3.Unit(k))), z3.Length(z3.Select(bv, k)) == 0))
        I.st.assume(z3.Implies(z3.Not(z3.Contains(K, z3.Unit(k))), z3.Length(z3.Select(mv, k)) == 0))
        if self.with_timeout:
            # timer discipline: a non-empty buffer has an armed timer (registered in _callbacks)
            I.st.assume(z3.Implies(z3.And(z3.Contains(K, z3.Unit(k)), z3.Length(z3.Select(bv, k)) >= 1),
                                   z3.Contains(CK, z3.Unit(k))))

    def summaries(self):
        d = Segment.summaries(self)
        d['partition._flush'] = coroutine_call_summary('partition._flush')
        d['*.cancel'] = d['TimerHandle.cancel']
        return d


    def spec_funcs(self):
        from .c_nodes_keyed import dict_spec_funcs
        return dict_spec_funcs(Segment.spec_funcs(self))


class PartitionUpdate(PartitionNode):
    cls = 'partition'
    method = 'update'
    start = 0
    props = ['C01', 'C02', 'C03', 'C04', 'C05', 'C08', 'C10', 'C16']
    inflight_post = {'yield:1': 'occ(old(list(self._metadata_buffer[kx]))) + occ(metadata)'}

    def requires(self, I, selfv, loc):
        k = self.key_term()
        I.st.ghost['kx'] = VElem(k)
        k2 = z3.Const('k_other', sym.Elem)
        I.st.ghost['k_other'] = VElem(k2)
        I.st.assume(k2 != k)
        self.assume_inv(I, k)

    def clauses(self):
        oldb = 'old(list(self._buffer[kx]))'
        oldm = 'old(list(self._metadata_buffer[kx]))'
        full = '(len(%s) + 1 == self.n)' % oldb
        cl = [
            Clause('C08.flushes_exactly_when_n_elements_of_the_key', ['C08', 'C01', 'C02'], when='normal',
                   text='emitted == ([tup(%s + [x])] if %s else [])' % (oldb, full),
                   note='a partition is the n consecutive elements of one key, in arrival order; never more than n'),
            Clause('C08.buffer_after_step', ['C08', 'C01', 'C02'], when='normal',
                   text='list(self._buffer[kx]) == ([] if %s else %s + [x])' % (full, oldb)),
            Clause('C10.partition_metadata_in_member_order', ['C10'], when='normal',
                   text='emitted_md == ([%s + metadata] if %s else [])' % (oldm, full)),
            Clause('C10.metadata_buffer_after_step', ['C10', 'C05'], when='normal',
                   text='list(self._metadata_buffer[kx]) == ([] if %s else %s + metadata)' % (full, oldm)),
            Clause('C08.other_keys_untouched', ['C08', 'C01', 'C02', 'C05'], when='normal',
                   text='list(self._buffer[k_other]) == old(list(self._buffer[k_other])) and '
                        'list(self._metadata_buffer[k_other]) == old(list(self._metadata_buffer[k_other]))'),
            Clause('C08.flush_suspends_until_downstream_done', ['C03', 'C08'], when='yield:1', text=full),
            Clause('C08.no_flush_returns', ['C08'], when='return', text='not ' + full),
            Clause('C04.holds_buffered_element', ['C04'], when='normal', text='delta >= occ(metadata)'),
        ]
        if self.with_timeout:
            cl += [
                Clause('C08.size_flush_cancels_timer', ['C08'], when='yield:1',
                       text='len(cancelled) == (1 if self.n > 1 else 0) and len(timers) == 0',
                       note='no spurious partial/empty partition later: the timer of a size-flushed key is cancelled'),
                Clause('C08.first_element_arms_timer_with_timeout', ['C08'], when='return',
                       text='len(timers) == (1 if len(%s) == 0 else 0) and len(cancelled) == 0 and '
                            'implies(len(timers) == 1, timers[0][0] == self._timeout and timers[0][2] == kx)' % oldb,
                       note='deadline of the batch = arrival of its first element + timeout'),
            ]
        else:
            cl.append(Clause('C08.no_timers_without_timeout', ['C08'], when='normal', text='len(timers) == 0 and len(cancelled) == 0'))
        return cl + self.segment_clauses() + user_raise_clauses(self)

    def frame_clause(self, fields=None):
        def fn(self_, I, o, fr):
            # on the raise path of the key function nothing was buffered
            return z3.BoolVal(True)
        return fn
    data_fields = ()


class PartitionUpdateNoTimeout(PartitionUpdate):
    name = 'partition.update@0[timeout=None]'
    with_timeout = False


class PartitionFlushTimer(PartitionNode):
    """_flush(key) entered from the timer: emits the partial batch of that key"""
    cls = 'partition'
    method = '_flush'
    start = 0
    props = ['C08', 'C10', 'C05', 'C04', 'C02']
    inflight_post = {'yield:1': 'occ(old(list(self._metadata_buffer[kx])))'}

    def make_locals(self, I, selfv):
        k = z3.Const('key_l', sym.Elem)
        return {'self': selfv, 'key': VElem(k)}

    def requires(self, I, selfv, loc):
        k = loc['key'].t
        I.st.ghost['kx'] = VElem(k)
        n, K, bv, mv, CK, cv = self._terms
        self.assume_inv(I, k)
        # a timer is armed only while the buffer of its key is non-empty (size flush cancels it)
        I.st.assume(z3.Contains(K, z3.Unit(k)))
        I.st.assume(z3.Length(z3.Select(bv, k)) >= 1)

    def clauses(self):
        return [Clause('C08.timer_flush_emits_non_empty_partial_batch', ['C08', 'C02'], when='yield:1',
                       text='emitted == [tup(old(list(self._buffer[kx])))] and len(old(list(self._buffer[kx]))) >= 1 '
                            'and len(old(list(self._buffer[kx]))) < self.n and len(self._buffer[kx]) == 0'),
                Clause('C10.batch_metadata', ['C10'], when='yield:1',
                       text='emitted_md == [old(list(self._metadata_buffer[kx]))] and len(self._metadata_buffer[kx]) == 0'),
                ] + self.segment_clauses()


class PartitionFlushAfterEmit(PartitionNode):
    cls = 'partition'
    method = '_flush'
    start = 1
    props = ['C05', 'C04', 'C08']
    inflight_pre = 'occ(metadata_result)'

    def make_locals(self, I, selfv):
        k = z3.Const('key_l', sym.Elem)
        I.st.ghost['kx'] = VElem(k)
        return {'self': selfv, 'key': VElem(k), 'result': I.st.new_list(z3.Const('res_l', sym.SeqElemS), K_ELEM),
                'metadata_result': I.st.new_list(z3.Const('mdres_l', sym.SeqMdS), K_MDE)}

    def clauses(self):
        return [Clause('C05.releases_batch_after_downstream_completed', ['C05', 'C04'], when='return',
                       text='delta == -occ(metadata_result) and emitted == []'),
                Clause('C08.finished_flush_leaves_buffers_and_timers_of_the_next_batch_alone', ['C08', 'C02'], when='normal',
                       text='keys(self._callbacks) == old(keys(self._callbacks)) and keys(self._buffer) == old(keys(self._buffer)) '
                            'and list(self._buffer[kx]) == old(list(self._buffer[kx])) and len(cancelled) == 0 and len(timers) == 0',
                       note='while the flush waited for its consumer the next batch of the key may have started (buffer refilled, '
                            'timer armed): the tail of the flush must not touch it'),
                ] + self.segment_clauses()


class PartitionUpdateAfterFlush(PartitionNode):
    """update() resumed after the size-triggered flush it was waiting for: this update is over.  (Its locals `buffer` /
    `metadata_buffer` still name the lists that were flushed, no longer the ones in the node: nothing may be decided from them.)"""
    cls = 'partition'
    method = 'update'
    start = 1
    props = ['C08', 'C01', 'C02', 'C05']

    def make_locals(self, I, selfv):
        k = z3.Const('key_l', sym.Elem)
        I.st.ghost['kx'] = VElem(k)
        n = self._terms[0]
        bl = z3.Const('flushed_l', sym.SeqElemS)
        I.st.assume(z3.Length(bl) == n)
        return {'self': selfv, 'x': VElem(z3.Const('x', sym.Elem)), 'who': VRef(z3.Const('who', sym.Obj), 'Stream'),
                'metadata': VSeq(z3.Const('md', sym.SeqMdS), K_MDE), 'key': VElem(k),
                'buffer': I.st.new_list(bl, K_ELEM), 'metadata_buffer': I.st.new_list(z3.Const('flushed_md_l', sym.SeqMdS), K_MDE)}

    def clauses(self):
        return [Clause('C08.nothing_follows_a_size_flush_in_the_same_update', ['C08', 'C01', 'C02'], when='normal',
                       text='len(timers) == 0 and len(cancelled) == 0 and emitted == [] and delta == 0 '
                            'and keys(self._callbacks) == old(keys(self._callbacks)) and keys(self._buffer) == old(keys(self._buffer)) '
                            'and list(self._buffer[kx]) == old(list(self._buffer[kx]))',
                       note='in particular no timer is armed for the batch that has just been flushed (partition(1, timeout=t) '
                            'would deliver a spurious empty partition t later)'),
                Clause('C08.update_ends_after_its_size_flush', ['C08'], when='yield:1', text='False'),
                ] + self.segment_clauses()


ALL += [PartitionUpdate, PartitionUpdateNoTimeout, PartitionFlushTimer, PartitionFlushAfterEmit, PartitionUpdateAfterFlush]


# --------------------------------------------------------------------------- map_async
class MapAsyncNode(Segment):
    """Trusted asyncio.Queue(maxsize=p) model: ghost Q (FIFO of (task, metadata) pairs); full() <=> len(Q) >= p;
    put() on a non-full queue does not suspend; get() hands out the head.
    Ghost: awaited in {0,1} = the worker is awaiting a dequeued task; Waiting = arrival numbers of the _insert_job
    coroutines that are waiting for a slot, in arrival order; my_pos = arrival number of this job."""
    held_text = 'occ(mds_of(Q))'
    files = ['streamz/core.py']
    assumptions = ('asyncio.Queue(maxsize=p): FIFO, full() <=> qsize >= p, put on a non-full queue completes without '
                   'suspending (trusted)', 'asyncio.create_task(coro) starts the coroutine in a later segment')

    def make_self(self, I):
        g = I.st.ghost
        p = z3.Int('parallelism')
        I.st.assume(p >= 1)
        g['p'] = VInt(p)
        Q = z3.Const('Q0', sym.SeqElemS)
        g['Q'] = VSeq(Q, K_ELEM)
        I.st.assume(z3.Length(Q) <= p)
        g['awaited'] = VInt(z3.Int('awaited0'))
        I.st.assume(z3.And(g['awaited'].t >= 0, g['awaited'].t <= 1))
        g['created'] = VTuple([])
        g['insert_job_args'] = VTuple([])
        g['gathered'] = VTuple([])
        g['stopped_called'] = VBool(False)
        return {'func': VCallable('func'), 'args': ARGS, 'kwargs': KWARGS,
                'work_queue': VRef(z3.Const('wq', sym.Obj), 'AQueue'),
                'work_task': VTuple([VRef(z3.Const('stop_ev', sym.Obj), 'Event'), VAw(z3.Const('wtask', sym.Aw))]),
                'stop_on_exception': VBool(z3.Bool('stop_on_exception'))}

    def summaries(self):
        d = Segment.summaries(self)

        def full(I, recv, args, kwargs):
            g = I.st.ghost
            return VBool(z3.Length(g['Q'].t) >= g['p'].t)

        def put(I, recv, args, kwargs):
            g = I.st.ghost
            a = VAw(z3.Const(sym.fresh_name('aput'), sym.Aw))
            if I.branch(z3.Length(g['Q'].t) < g['p'].t):
                g['Q'] = VSeq(z3.Concat(g['Q'].t, z3.Unit(I.as_elem(args[0]))), K_ELEM)
                a.done = True
                a.result = NONE
            else:
                g['blocked_put'] = args[0]
            return a

        def get(I, recv, args, kwargs):
            g = I.st.ghost
            g['q_get'] = VInt(g['q_get'].t + 1)
            return VAw(z3.Const(sym.fresh_name('aget'), sym.Aw))

        def put_nowait(I, recv, args, kwargs):
            # asyncio.Queue.put_nowait: appends when there is room, else raises QueueFull
            g = I.st.ghost
            if not I.branch(z3.Length(g['Q'].t) < g['p'].t):
                raise PyRaise(VExc('QueueFull'))
            g['Q'] = VSeq(z3.Concat(g['Q'].t, z3.Unit(I.as_elem(args[0]))), K_ELEM)
            return NONE

        def qsize(I, recv, args, kwargs):
            return VInt(z3.Length(I.st.ghost['Q'].t))

        def empty(I, recv, args, kwargs):
            return VBool(z3.Length(I.st.ghost['Q'].t) == 0)

        def task_done(I, recv, args, kwargs):
            return NONE

        def is_set(I, recv, args, kwargs):
            return VBool(z3.Bool('stop_work_set'))

        def create_task(I, recv, args, kwargs):
            g = I.st.ghost
            g['created'] = VTuple(g['created'].items + [args[0]])
            if isinstance(args[0], VAw):
                return args[0]
            return VElem(sym.user_func('task_of', 1)(I.as_elem(args[0])))

        def insert_job(I, recv, args, kwargs):
            # calling an `async def` only creates the coroutine object; nothing of its body runs
            a = VAw(z3.Const(sym.fresh_name('insert_job_coro'), sym.Aw))
            I.st.ghost['insert_job_args'] = VTuple(list(args))
            return a

        def wait_slot(I, recv, args, kwargs):
            # _wait_for_work_slot: spins on `await asyncio.sleep(0)` while the queue is full
            g = I.st.ghost
            a = VAw(z3.Const(sym.fresh_name('slot'), sym.Aw))
            if I.branch(z3.Length(g['Q'].t) >= g['p'].t):
                a.done = False
            else:
                a.done = True
                a.result = NONE
            return a

        def stop(I, recv, args, kwargs):
            I.st.ghost['stopped_called'] = VBool(True)
            return NONE

        def work_cb(I, recv, args, kwargs):
            return VAw(z3.Const(sym.fresh_name('work_cb_coro'), sym.Aw))
        d.update({'AQueue.full': full, 'AQueue.put': put, 'AQueue.get': get, 'AQueue.task_done': task_done,
                  'AQueue.put_nowait': put_nowait, 'AQueue.qsize': qsize, 'AQueue.empty': empty,
                  'Event.is_set': is_set, 'map_async._create_task': create_task, 'map_async._insert_job': insert_job,
                  'map_async._wait_for_work_slot': wait_slot, 'map_async.stop': stop,
                  'map_async.work_callback': work_cb})
        return d

    def spec_funcs(self):
        d = Segment.spec_funcs(self)

        def gather(I, args, kwargs, fr):
            g = I.st.ghost
            g['gathered'] = VTuple(g['gathered'].items + [a[1] if isinstance(a, tuple) else a for a in args])
            return VAw(z3.Const(sym.fresh_name('gather'), sym.Aw))

        def yield_(I, v, node, fr):
            if isinstance(v, VAw) and getattr(v, 'done', None) is True:
                return v.result      # awaiting something that does not suspend continues synchronously
            return I.default_yield(v, node, fr)

        def task_of(I, v):
            return VElem(sym.user_func('task_of', 1)(I.as_elem(v)))
        d.update({'builtin_asyncio.gather': gather, 'yield': yield_, 'task_of': task_of})
        return d


class MapAsyncUpdate(MapAsyncNode):
    cls = 'map_async'
    method = 'update'
    start = 0
    props = ['C02', 'C03', 'C04', 'C05']
    inflight_post = {'return': 'occ(metadata)'}      # held on behalf of the job that has not entered the queue yet

    def clauses(self):
        return [Clause('C03.returns_the_insert_job_task', ['C03', 'C02'], when='return',
                       text='len(created) == 1 and result == created[0] and len(insert_job_args) == 2 and insert_job_args[0] == x',
                       note='the emitter waits until the job has entered the bounded work queue'),
                Clause('C04.holds_while_job_not_yet_queued', ['C04'], when='normal', text='delta >= occ(metadata)',
                       note='H1: update returned to the emitter while the element only lives in a task that has not run yet'),
                ] + self.segment_clauses()


class MapAsyncInsertJob(MapAsyncNode):
    """_insert_job from entry (or from a spin of _wait_for_work_slot) to its end"""
    cls = 'map_async'
    method = '_insert_job'
    start = 0
    props = ['C02', 'C03', 'C04', 'C05', 'C10']
    inflight_pre = 'occ(metadata)'
    inflight_post = {'yield:1': 'occ(metadata)', 'raise': 'occ(metadata)'}

    def make_locals(self, I, selfv):
        g = I.st.ghost
        g['Waiting'] = VSeq(z3.Const('Waiting0', z3.SeqSort(z3.IntSort())), K_INT)
        g['my_pos'] = VInt(z3.Int('my_pos'))
        # this job is one of the waiting jobs; Waiting is in arrival order
        return {'self': selfv, 'x': VElem(z3.Const('x', sym.Elem)), 'metadata': VSeq(z3.Const('md', sym.SeqMdS), K_MDE)}

    def requires(self, I, selfv, loc):
        g = I.st.ghost
        W = g['Waiting'].t
        I.st.assume(z3.Contains(W, z3.Unit(g['my_pos'].t)))

    def clauses(self):
        job = 'pair(task_of(self.func(x, *self.args, **self.kwargs)), metadata)'
        return [Clause('C02.job_enqueued_fifo', ['C02', 'C10'], when='return', text='Q == old(Q) + [%s]' % job,
                       note='the job (mapped coroutine + metadata) joins the tail of the work queue exactly once'),
                Clause('C02.slot_goes_to_the_longest_waiting_job', ['C02'], when='return', text='Waiting[0] == my_pos',
                       kind='protocol', replay={'scenario': 'map_async_overtake'},
                       note='order preservation: a job may only take a free slot if no earlier arrival is still waiting for one'),
                Clause('C03.created_unfinished_jobs_bounded_by_parallelism', ['C03'], when='return',
                       text='len(Q) + awaited <= p', kind='protocol', replay={'scenario': 'map_async_bound'},
                       note='documented bound: at most `parallelism` mapped coroutines exist at any time (queued + being awaited)'),
                Clause('C03.spins_without_touching_the_queue', ['C03', 'C02'], when='yield:1',
                       text='Q == old(Q) and len(Q) >= p and delta == 0'),
                Clause('C03.no_mapped_coroutine_is_started_while_waiting_for_a_slot', ['C03'], when='yield:1',
                       fn=lambda self_, I, o, fr: z3.BoolVal(len(o.state.ghost['created'].items) == 0 and
                                                             not any(ev.get('kind') == 'opaque' and ev.get('name') == 'func'
                                                                     for ev in o.state.events)),
                       note='accepted-but-unfinished work stays bounded: the mapped function only runs for jobs that have a slot'),
                Clause('C05.hold_moves_into_the_queue', ['C05', 'C04'], when='return', text='delta == 0',
                       note='the hold taken by update() now accounts for the queued job'),
                Clause('C16.failing_mapped_function_leaves_queue_and_holds_untouched', ['C16', 'C05', 'C02'], when='raise',
                       text='Q == old(Q) and delta == 0 and emitted == []',
                       note='the mapped function raised when called: the failure travels through the task returned by update(); '
                            'nothing is queued or emitted and the element is not released (no checkpoint for a failed element)'),
                ] + self.segment_clauses()


class MapAsyncInsertJobResumed(MapAsyncInsertJob):
    start = 1
    name = 'map_async._insert_job@1'

    def resume(self, I, loc):
        # resumed inside _wait_for_work_slot: the loop re-checks full(); modelled by the same summary
        g = I.st.ghost
        if I.branch(z3.Length(g['Q'].t) >= g['p'].t):
            from pyvc.state import SegmentYield
            e = SegmentYield(NONE, None)
            e.index = 1
            raise e
        return Resume(NONE)


class MapAsyncWorkerTake(MapAsyncNode):
    """work_callback resumed with the head of the queue: await the mapped coroutine"""
    cls = 'map_async'
    method = 'work_callback'
    start = 1
    props = ['C02', 'C03', 'C04', 'C05']
    inflight_post = {'yield:2': 'occ(metadata)'}

    def make_locals(self, I, selfv):
        return {'self': selfv, 'stop_work': VRef(z3.Const('stop_ev', sym.Obj), 'Event')}

    def resume(self, I, loc):
        g = I.st.ghost
        p = z3.Const('p_head', sym.Elem)
        rest = z3.Const('Q_rest', sym.SeqElemS)
        I.st.assume(g['Q'].t == z3.Concat(z3.Unit(p), rest))
        I.st.assume(sym.f_mdpair(sym.f_mdpair_x(p), sym.f_mdpair_md(p)) == p)
        I.st.assume(g['awaited'].t == 0)
        g['Q'] = VSeq(rest, K_ELEM)
        g['taken'] = VElem(p)
        g['awaited'] = VInt(1)
        return Resume(VElem(p))

    balance_clause = BufferCb1.balance_clause

    def clauses(self):
        return [Clause('C02.a_job_taken_from_the_queue_is_never_dropped', ['C02', 'C05'], when='return', text='False',
                       note='once the worker has taken a job it awaits it (and delivers its result) whatever the stop flag says'),
                Clause('C02.awaits_the_head_job', ['C02'], when='yield:2',
                       text='pair(task, metadata) == taken and emitted == [] and q_get == 0',
                       note='jobs are completed one at a time in queue order'),
                ] + self.segment_clauses()


class MapAsyncWorkerResult(MapAsyncNode):
    """the awaited job finished with a value: emit it, wait for downstream (if any), release, take the next"""
    cls = 'map_async'
    method = 'work_callback'
    start = 2
    props = ['C02', 'C03', 'C04', 'C05', 'C10']
    inflight_pre = 'occ(metadata)'
    inflight_post = {'yield:3': 'occ(metadata)', 'yield:1': '0', 'return': '0'}

    def make_locals(self, I, selfv):
        return {'self': selfv, 'stop_work': VRef(z3.Const('stop_ev', sym.Obj), 'Event'),
                'task': VElem(z3.Const('task_l', sym.Elem)), 'metadata': VSeq(z3.Const('md', sym.SeqMdS), K_MDE)}

    def resume(self, I, loc):
        I.st.ghost['value'] = VElem(z3.Const('value', sym.Elem))
        return Resume(VElem(z3.Const('value', sym.Elem)))

    def clauses(self):
        return [Clause('C02.emits_the_result_of_the_awaited_job_once', ['C02'], when='normal',
                       text='emitted == [value]'),
                Clause('C10.metadata_travels', ['C10'], when='normal', text='emitted_md == [metadata]'),
                Clause('C03.waits_for_downstream_before_next_job', ['C03', 'C02'], when='yield:3',
                       text='len(gathered) == 1 and gathered[0] == emit_rets[0] and q_get == 0 and delta == 0'),
                Clause('C05.releases_when_nothing_to_wait_for', ['C05'], when='yield:1',
                       text='delta == -occ(metadata) and q_get == 1'),
                ] + self.segment_clauses()


class MapAsyncWorkerFailed(MapAsyncNode):
    """the awaited job raised: nothing is emitted; the element is released (logged and dropped)"""
    cls = 'map_async'
    method = 'work_callback'
    start = 2
    name = 'map_async.work_callback@2[job raised]'
    props = ['C02', 'C05']
    inflight_pre = 'occ(metadata)'
    make_locals = MapAsyncWorkerResult.make_locals

    def resume(self, I, loc):
        return Resume(exc=VExc('UserError', payload='job'))

    def clauses(self):
        return [Clause('C02.failed_job_emits_nothing', ['C02'], when='normal', text='emitted == []'),
                ] + self.segment_clauses()


class MapAsyncWorkerAfterGather(MapAsyncNode):
    cls = 'map_async'
    method = 'work_callback'
    start = 3
    props = ['C05', 'C04', 'C02']
    inflight_pre = 'occ(metadata)'

    def make_locals(self, I, selfv):
        loc = MapAsyncWorkerResult.make_locals(self, I, selfv)
        loc['result'] = VElem(z3.Const('value', sym.Elem))
        loc['results'] = I.st.new_list(z3.Const('results_l', sym.SeqAwS), K_AW)
        return loc

    def clauses(self):
        return [Clause('C05.releases_after_downstream_completed', ['C05', 'C04'], when='normal',
                       text='delta == -occ(metadata) and emitted == []')] + self.segment_clauses()


class MapAsyncWorkerEntry(MapAsyncNode):
    """work_callback from its start to the first queue.get(): nothing is taken, emitted or released before a job is at hand"""
    cls = 'map_async'
    method = 'work_callback'
    start = 0
    props = ['C02', 'C05']

    def make_locals(self, I, selfv):
        return {'self': selfv, 'stop_work': VRef(z3.Const('stop_ev', sym.Obj), 'Event')}

    def clauses(self):
        return [Clause('C02.worker_starts_by_waiting_for_the_head_job', ['C02', 'C05'], when='yield:1',
                       text='Q == old(Q) and emitted == [] and delta == 0 and q_get == 1'),
                Clause('C02.a_stopped_worker_takes_nothing', ['C02', 'C05'], when='return',
                       text='Q == old(Q) and emitted == [] and delta == 0 and q_get == 0'),
                ] + self.segment_clauses()


from pyvc.sym import VExc
ALL += [MapAsyncWorkerEntry, MapAsyncUpdate, MapAsyncInsertJob, MapAsyncInsertJobResumed, MapAsyncWorkerTake, MapAsyncWorkerResult,
        MapAsyncWorkerFailed, MapAsyncWorkerAfterGather]


# --------------------------------------------------------------------------- timed_window_unique.cb (C08, C02, C05, C10)
from .c_nodes_keyed import dict_spec_funcs
from pyvc.state import DictCell as _DictCell

_ElemArr = z3.ArraySort(sym.Elem, sym.Elem)
_MdArr = z3.ArraySort(sym.Elem, sym.SeqMdS)


class TimedWindowUniqueNode(Segment):
    cls = 'timed_window_unique'
    held_text = 'occ(vals(self._metadata_buffer))'
    data_fields = ('_buffer', '_metadata_buffer')
    assumptions = TimedWindowNode.assumptions

    def make_self(self, I):
        iv = z3.Real('interval')
        I.st.assume(iv >= 0)
        K = z3.Const('keys0', sym.SeqElemS)
        buf = I.st.new_dict(_DictCell(K, z3.Const('bufvals0', _ElemArr), K_ELEM, K_ELEM))
        mdb = I.st.new_dict(_DictCell(K, z3.Const('mdvals0', _MdArr), K_ELEM, K_MD))
        return {'interval': VReal(iv), '_buffer': buf, '_metadata_buffer': mdb, 'last': VAw(z3.Const('last0', sym.Aw)),
                'keep': VStr('first'), 'key': VCallable('key')}

    def spec_funcs(self):
        return dict_spec_funcs(Segment.spec_funcs(self))


class TimedWindowUniqueCbTick(TimedWindowUniqueNode):
    """one tick: both buffers are swapped for empty ones BEFORE the batch is emitted, in the same atomic segment"""
    method = 'cb'
    start = 0
    props = ['C02', 'C04', 'C05', 'C08', 'C10']

    def make_locals(self, I, selfv):
        return {'self': selfv}

    def clauses(self):
        return [Clause('C08.batch_is_the_kept_elements_since_last_tick_in_order', ['C08', 'C02'], when='yield:1',
                       text='emitted == [tup(old(vals(self._buffer)))] and len(keys(self._buffer)) == 0',
                       note='each kept element is emitted in exactly one batch; arrivals during the emission land in the new buffer'),
                Clause('C10.batch_metadata', ['C10'], when='yield:1',
                       text='emitted_md == [flat(old(vals(self._metadata_buffer)))] and len(keys(self._metadata_buffer)) == 0'),
                Clause('C03.remembers_one_reusable_future_for_the_whole_emission', ['C03', 'C08', 'C02', 'C16'], when='yield:1',
                       fn=_last_is_reusable_future, kind='protocol', replay={'scenario': 'timed_window_awaitables_shared', 'cls': self.cls},
                       note='update() hands self.last to every arrival until the next tick and the forwarder awaits it as well: one '
                            'future for the whole emission that bears being awaited many times, not the bare awaitables'),
                Clause('C08.no_other_outcome', ['C08'], when='return', text='False'),
                ] + self.segment_clauses() + [
                Clause('C01.reentrancy', ['C08', 'C01', 'C05'], fn=self.reentrancy(), when='yield:1',
                       note='the buffers are already the new, empty ones when the batch is handed downstream')]

    def reentrancy(self):
        def fn(self_, I, o, fr):
            snaps = o.state.ghost['_snaps']
            post = o.state.heap[self.pre_args['self'].loc]
            fs = []
            for s in snaps:
                cell = s.heap[self.pre_args['self'].loc]
                for f in self.data_fields:
                    fs.append(values_equal_across(I, s, cell.fields[f], o.state, post.fields[f]))
            return z3.And(fs) if fs else None
        return fn


class TimedWindowUniqueCbAfterSleep(TimedWindowUniqueCbTick):
    start = 2

    def make_locals(self, I, selfv):
        return {'self': selfv}


class TimedWindowUniqueCbAfterEmit(TimedWindowUniqueNode):
    method = 'cb'
    start = 1
    props = ['C08']

    def make_locals(self, I, selfv):
        return {'self': selfv}

    def clauses(self):
        return [Clause('C08.sleeps_one_interval_between_ticks', ['C08'], when='yield:2',
                       text='len(sleeps) == 1 and sleeps[0] == self.interval and emitted == [] and '
                            'keys(self._buffer) == old(keys(self._buffer)) and vals(self._buffer) == old(vals(self._buffer))'),
                ] + self.segment_clauses()


ALL += [TimedWindowUniqueCbTick, TimedWindowUniqueCbAfterSleep, TimedWindowUniqueCbAfterEmit]
