"""Segment contracts of the timing / buffering nodes of streamz/core.py."""
import z3
from pyvc import sym
from pyvc.sym import (VInt, VReal, VBool, VNone, VStr, VElem, VSeq, VList, VTuple, VRef, VObj, VCallable, VAw,
                      VBuiltin, K_ELEM, K_MDE, K_MD, K_AW, K_INT, K_OBJ)
from pyvc.contract import Clause
from pyvc.interp import NONE, Resume
from .async_common import Segment, f_isawaitable
from .core_common import R


# --------------------------------------------------------------------------- rate_limit
class RateLimitS1(Segment):
    """rate_limit.update from entry to its first suspension: slot reservation (C13) and hold discipline (C04)."""
    cls = 'rate_limit'
    method = 'update'
    start = 0
    props = ['C13', 'C04', 'C05', 'C02', 'C10']
    data_fields = ('next',)
    assumptions = ('time() is read once per call and never runs backwards inside a segment',
                   'timers are punctual in virtual time (C13 order clause): a timer runs before any callback '
                   'scheduled at a later virtual instant; ready callbacks run FIFO')

    def make_self(self, I):
        interval, nxt = z3.Real('interval'), z3.Real('next0')
        I.st.assume(interval >= 0)
        return {'interval': VReal(interval), 'next': VReal(nxt)}

    def clauses(self):
        now = 'time_reads[0]'
        slot = '(%s if %s >= old(self.next) else old(self.next))' % (now, now)
        return [
            Clause('C13.reserves_next_slot', ['C13'], when='any',
                   text='len(time_reads) == 1 and self.next == %s + self.interval' % slot,
                   note='slot_k = max(now_k, next_{k-1}); next_k = slot_k + interval, hence slot_{k+1} >= slot_k + interval'),
            Clause('C13.sleeps_exactly_until_slot', ['C13'], when='yield:1',
                   text='len(sleeps) == 1 and sleeps[0] == old(self.next) - %s and %s < old(self.next) and emitted == []' % (now, now)),
            Clause('C13.idle_line_no_delay', ['C13'], when='yield:2',
                   text='len(sleeps) == 0 and %s >= old(self.next) and emitted == [x] and emitted_md == [metadata]' % now,
                   note='an element arriving after the line has been idle for the interval is delivered without delay'),
            Clause('C04.holds_while_sleeping', ['C04'], when='yield:1', text='delta >= occ(metadata)',
                   kind='text', note='H1: the element waits inside the node after update() returned to the emitter, so the node must hold it'),
        ] + self.segment_clauses()


class RateLimitS2(Segment):
    """after the sleep: emit exactly the element and metadata received"""
    cls = 'rate_limit'
    method = 'update'
    start = 1
    props = ['C13', 'C02', 'C10']

    def make_self(self, I):
        interval, nxt = z3.Real('interval'), z3.Real('next0')
        I.st.assume(interval >= 0)
        return {'interval': VReal(interval), 'next': VReal(nxt)}

    def make_locals(self, I, selfv):
        loc = Segment.make_locals(self, I, selfv)
        loc.update({'now': VReal(z3.Real('now_l')), 'old_next': VReal(z3.Real('old_next_l'))})
        return loc

    def clauses(self):
        return [Clause('C13.emits_the_element_it_received_once', ['C13', 'C02'], when='yield:2',
                       text='emitted == [x] and self.next == old(self.next)'),
                Clause('C10.metadata_unchanged', ['C10'], when='yield:2', text='emitted_md == [metadata]'),
                Clause('C13.no_other_outcome', ['C13'], when='return', text='False')]


ALL = [RateLimitS1, RateLimitS2]


# --------------------------------------------------------------------------- buffer / delay (queue nodes)
class QueueNode(Segment):
    """Trusted tornado Queue model: ghost Q = items accepted by put() and not yet handed to the getter, FIFO."""
    held_text = 'occ(mds_of(Q))'
    assumptions = ('tornado.queues.Queue: FIFO; put() returns a future that completes when the item is inside the '
                   'bounded queue; get() hands out the head (trusted, DESIGN Appendix B)',)

    def queue_fields(self, I):
        I.st.ghost['Q'] = VSeq(z3.Const('Q0', sym.SeqElemS), K_ELEM)
        return {'queue': VRef(z3.Const('queue', sym.Obj), 'Queue')}

    def summaries(self):
        d = Segment.summaries(self)
        base_put = d['Queue.put']

        def q_put(I, recv, args, kwargs):
            g = I.st.ghost
            g['Q'] = VSeq(z3.Concat(g['Q'].t, z3.Unit(I.as_elem(args[0]))), K_ELEM)
            a = base_put(I, recv, args, kwargs)
            g['put_future'] = a
            return a
        d['Queue.put'] = q_put
        return d

    def take_head(self, I):
        """resumption of `yield self.queue.get()`: the head of Q is handed over"""
        g = I.st.ghost
        p = z3.Const('p_head', sym.Elem)
        rest = z3.Const('Q_rest', sym.SeqElemS)
        I.st.assume(g['Q'].t == z3.Concat(z3.Unit(p), rest))
        # queue invariant (established by update's postcondition): every queued item is an (x, metadata) pair
        I.st.assume(sym.f_mdpair(sym.f_mdpair_x(p), sym.f_mdpair_md(p)) == p)
        g['Q'] = VSeq(rest, K_ELEM)
        g['taken'] = VElem(p)
        return Resume(VElem(p))


class BufferUpdate(QueueNode):
    cls = 'buffer'
    method = 'update'
    start = 0
    props = ['C02', 'C03', 'C04', 'C05', 'C10']

    def make_self(self, I):
        return self.queue_fields(I)

    def clauses(self):
        return [Clause('C02.enqueues_fifo', ['C02', 'C10'], when='return',
                       text='Q == old(Q) + [pair(x, metadata)] and emitted == []'),
                Clause('C03.returns_put_future', ['C03'], when='return', text='result == put_future',
                       note='the emitter waits until the item is inside the bounded queue'),
                Clause('C04.holds_queued_element', ['C04'], when='return', text='delta >= occ(metadata)'),
                ] + self.segment_clauses()


class BufferCb0(QueueNode):
    cls = 'buffer'
    method = 'cb'
    start = 0
    props = ['C02', 'C03']

    def make_self(self, I):
        return self.queue_fields(I)

    def make_locals(self, I, selfv):
        return {'self': selfv}

    def clauses(self):
        return [Clause('C02.waits_for_an_item', ['C02', 'C03'], when='yield:1',
                       text='q_get == 1 and emitted == [] and Q == old(Q)')] + self.segment_clauses()


class BufferCb1(QueueNode):
    """resumed with the head of the queue: forward exactly that item and wait for downstream"""
    cls = 'buffer'
    method = 'cb'
    start = 1
    props = ['C02', 'C03', 'C04', 'C05', 'C10']
    inflight_post = {'yield:2': 'occ(metadata)'}

    def make_self(self, I):
        return self.queue_fields(I)

    def make_locals(self, I, selfv):
        return {'self': selfv}

    def resume(self, I, loc):
        r = self.take_head(I)
        # the pre-state used by old() is the state before the hand-over
        return r

    def clauses(self):
        return [Clause('C02.forwards_head_exactly_once', ['C02'], when='yield:2',
                       text='emitted == [x] and pair(x, metadata) == taken and q_get == 0',
                       note='FIFO: the element forwarded is the head of the queue; nothing else is taken before downstream completes'),
                Clause('C10.metadata_travels', ['C10'], when='yield:2', text='emitted_md == [metadata]'),
                Clause('C04.holds_while_downstream_pending', ['C04'], when='yield:2', text='delta == 0'),
                ] + self.segment_clauses()

    def balance_clause(self):
        def fn(self_, I, o, fr):
            # own holds before: queue incl. head; after: rest of queue + the item being forwarded
            pre_st, _ = o.state.ghost['_pre']
            own_pre = sym.occs(R, sym.mds_of(pre_st.ghost['Q'].t))
            key = self.outcome_key(o)
            post_text = self.inflight_post.get(key, '0')
            own_post = self.held(I, o.state) + self.inflight(I, o.state, post_text, fr)
            return o.state.ghost['delta'].t == own_post - own_pre
        return fn


class BufferCb2(QueueNode):
    """downstream finished: release and go back to waiting"""
    cls = 'buffer'
    method = 'cb'
    start = 2
    props = ['C02', 'C04', 'C05']
    inflight_pre = 'occ(metadata)'

    def make_self(self, I):
        return self.queue_fields(I)

    def make_locals(self, I, selfv):
        return {'self': selfv, 'x': VElem(z3.Const('x', sym.Elem)),
                'metadata': VSeq(z3.Const('md', sym.SeqMdS), K_MDE)}

    def clauses(self):
        return [Clause('C05.releases_after_downstream_completed', ['C05', 'C04'], when='yield:1',
                       text='delta == -occ(metadata) and emitted == [] and q_get == 1')] + self.segment_clauses()


ALL += [BufferUpdate, BufferCb0, BufferCb1, BufferCb2]
