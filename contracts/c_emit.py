"""Contracts of the fan-out and reference-count plumbing of streamz/core.py:
RefCounter.retain / release, Stream._retain_refs / _release_refs, Stream._emit.
These are the callee contracts every node contract relies on (contracts/core_common.py)."""
import z3
from pyvc import sym
from pyvc.sym import (VInt, VBool, VNone, VStr, VElem, VSeq, VList, VTuple, VRef, VObj, VCallable, VAw, VExc,
                      K_ELEM, K_MDE, K_MD, K_AW, K_INT, K_OBJ, K_AWS)
from pyvc.state import State, PyRaise, Unsupported
from pyvc.contract import Contract, Clause
from pyvc.interp import NONE, Frame
from pyvc.loops import LoopSpec
from .core_common import R, CORE

c_none_aw = z3.Const('none_aw', sym.Aw)
nonnull = sym.SpecFun('nonnull', [], sym.SeqAwS, sym.SeqAwS,
                      zero=lambda: z3.Empty(sym.SeqAwS),
                      one=lambda a: z3.If(a == c_none_aw, z3.Empty(sym.SeqAwS), z3.Unit(a)),
                      plus=lambda a, b: z3.Concat(a, b))
IntArr = z3.ArraySort(sym.Obj, z3.IntSort())


class _Base(Contract):
    file = CORE
    harness = None

    def prepare_index(self, idx):
        idx.field_kinds[('RefCounter', 'count')] = K_INT

    def finish_build(self, I, args):
        self.pre_args = args
        self.pre_state = I.st.snapshot()
        I.st.ghost['_pre'] = (self.pre_state, self.pre_args)
        I.contract_pre = self.pre_state
        I.contract_pre_frame = self.pre_frame(I)

    def spec_funcs(self):
        def occ_(I, md):
            t, k = I.seq_term(md)
            if t is None:
                return VInt(0)
            return VInt(sym.occ(R, t))

        def count_of_r(I):
            fm = I.st.fieldmap('RefCounter', 'count', z3.IntSort())
            return VInt(z3.Select(fm, R))

        def implies_(I, a, b):
            return VBool(z3.Implies(I.truth(a), I.truth(b)))

        def nonnull_(I, s):
            t, k = I.seq_term(s)
            return VSeq(nonnull(t), K_AW)

        def flat_aw(I, v):
            t, k = I.seq_term(v)
            return VSeq(sym.flat_aw(t), K_AW)

        def truthy(I, v):
            return VBool(I.truth(v))
        return {'occ': occ_, 'count_r': count_of_r, 'implies': implies_, 'nonnull': lambda I, t: nonnull(t),
                'nonnull_of': nonnull_, 'flat_aw': flat_aw, 'truthy': truthy}


# --------------------------------------------------------------------------- RefCounter
class RefCounterRetain(_Base):
    qual = 'RefCounter.retain'
    props = ['C04', 'C05', 'C09', 'C16']

    def build(self, I):
        I.st = State()
        I.st.ghost['scheduled'] = VInt(0)
        I.st.ghost['scheduled_cb'] = NONE
        I.st.ghost['ran_inline'] = VInt(0)
        count, n = z3.Int('count0'), z3.Int('n')
        selfv = I.st.new_obj('RefCounter', {'count': VInt(count), 'cb': VElem(z3.Const('cb', sym.Elem)),
                                            'loop': VRef(z3.Const('rcloop', sym.Obj), 'IOLoop')})
        self.finish_build(I, {'self': selfv, 'n': VInt(n)})
        return selfv, [VInt(n)], {}

    def summaries(self):
        def add_callback(I, recv, args, kwargs):
            I.st.ghost['scheduled'] = VInt(I.st.ghost['scheduled'].t + 1)
            I.st.ghost['scheduled_cb'] = args[0]
            return NONE
        return {'IOLoop.add_callback': add_callback}

    def spec_funcs(self):
        d = _Base.spec_funcs(self)

        def call_default(I, kind, name, recv, args, kwargs):
            if kind == 'apply':
                # the completion callback (an arbitrary user function) called directly
                I.st.ghost['ran_inline'] = VInt(I.st.ghost['ran_inline'].t + 1)
                return VElem(z3.Const(sym.fresh_name('cb_result'), sym.Elem))
            if kind == 'builtin' and name in ('IOLoop.current', 'asyncio.get_running_loop', 'asyncio.get_event_loop'):
                # whichever loop the caller happens to be on: it may or may not be the counter's loop
                return VRef(z3.Const(sym.fresh_name('callers_loop'), sym.Obj), 'IOLoop')
            raise Unsupported('call of %s %s in RefCounter' % (kind, name))
        d['call_default'] = call_default
        return d

    def clauses(self):
        return [Clause('count_increases_by_n', ['C04', 'C05'], text='self.count == old(self.count) + n'),
                Clause('retain_never_schedules_callback', ['C04'], text='scheduled == 0')]


class RefCounterRelease(RefCounterRetain):
    qual = 'RefCounter.release'
    # every node contract models `_release_refs` as a pure count update: that the completion callback is *posted* to the loop and
    # never run inside the release (where it could re-enter the node that is releasing) is what makes that model right
    props = ['C01', 'C02', 'C04', 'C05', 'C08', 'C09', 'C10', 'C13', 'C14', 'C16', 'C20']

    def clauses(self):
        return [Clause('count_decreases_by_n', ['C04', 'C05'], text='self.count == old(self.count) - n'),
                Clause('callback_scheduled_iff_count_reaches_zero', list(self.props),
                       text='scheduled == (1 if (self.count <= 0 and truthy(self.cb)) else 0)',
                       note='B4: add_callback(cb) exactly once when the count is <= 0 after the release, never while it is positive'),
                Clause('schedules_the_counters_own_callback', ['C04'],
                       text='implies(scheduled == 1, scheduled_cb == self.cb)'),
                Clause('callback_is_posted_to_the_loop_never_run_inside_the_release', list(self.props), when='any',
                       text='ran_inline == 0',
                       note='a callback run synchronously would execute user code (which may emit) in the middle of the releasing '
                            "node's update, between two of its state changes")]


# --------------------------------------------------------------------------- _retain_refs / _release_refs
class RetainRefs(_Base):
    qual = 'Stream._retain_refs'
    props = ['C04', 'C05', 'C09', 'C16']
    sign = +1

    def build(self, I):
        I.st = State()
        I.st.ghost['sched_pos'] = VInt(0)
        md = VSeq(z3.Const('md', sym.SeqMdS), K_MDE)
        n = z3.Int('n')
        selfv = I.st.new_obj('Stream', {})
        I.st.fieldmaps[('RefCounter', 'count')] = z3.Const('count0', IntArr)
        self.finish_build(I, {'self': selfv, 'metadata': md, 'n': VInt(n)})
        return selfv, [md, VInt(n)], {}

    def summaries(self):
        def retain(I, recv, args, kwargs):
            n = I.num(args[0]) if args else z3.IntVal(1)
            fm = I.st.fieldmap('RefCounter', 'count', z3.IntSort())
            I.st.fieldmaps[('RefCounter', 'count')] = z3.Store(fm, recv.t, z3.Select(fm, recv.t) + n)
            return NONE

        def release(I, recv, args, kwargs):
            # contract of RefCounter.release (proved by RefCounterRelease): count -= n; the callback is
            # scheduled only if the count is <= 0 afterwards
            n = I.num(args[0]) if args else z3.IntVal(1)
            fm = I.st.fieldmap('RefCounter', 'count', z3.IntSort())
            new = z3.Select(fm, recv.t) - n
            I.st.fieldmaps[('RefCounter', 'count')] = z3.Store(fm, recv.t, new)
            return NONE
        return {'RefCounter.retain': retain, 'RefCounter.release': release}

    def loop_specs(self):
        return {(self.qual, 0): LoopSpec(
            modifies=['fieldmap:RefCounter.count'],
            invariant=[('count_tracks_prefix', 'count_r() == old(count_r()) + %d * n * occ(_P)' % self.sign)],
            props=['C04', 'C05'], name='entries')}

    def clauses(self):
        return [Clause('count_changes_by_n_times_occurrences', ['C04', 'C05'],
                       text='count_r() == old(count_r()) + %d * n * occ(metadata)' % self.sign,
                       note='for an arbitrary counter r: n times the number of metadata entries whose ref is r')]


class ReleaseRefs(RetainRefs):
    qual = 'Stream._release_refs'
    sign = -1


# --------------------------------------------------------------------------- Stream._emit
class EmitBody(_Base):
    """Fan-out: every current downstream is updated exactly once, in attachment order, with the same element and
    metadata; the result is the flat list of what they returned; own holds net to zero; on a failing downstream
    nothing more is released."""
    qual = 'Stream._emit'
    name = 'Stream._emit[metadata=list]'
    # the fan-out is on the path of every element of every pipeline: each property about what is delivered, when and with which
    # references depends on it
    props = ['C01', 'C02', 'C03', 'C04', 'C05', 'C06', 'C07', 'C08', 'C09', 'C10', 'C11', 'C12', 'C13', 'C14', 'C15', 'C16', 'C17',
             'C18', 'C20']
    md_none = False
    assumptions = ('OrderedWeakrefSet: len() and iteration agree and iterate live members in first-insertion order '
                   '(trusted; no garbage collection between len() and list())',
                   'every downstream update returns None, one awaitable or a flat list of awaitables '
                   '(the C03 clause of each node contract)')

    def build(self, I):
        I.st = State()
        D = z3.Const('D', sym.SeqObjS)
        self.D = D
        g = I.st.ghost
        g['calls'] = VSeq(z3.Empty(sym.SeqObjS), K_OBJ)
        g['rets'] = VSeq(z3.Empty(z3.SeqSort(sym.SeqAwS)), K_AWS)
        g['count_r'] = VInt(z3.Int('count_r0'))
        g['child_eff'] = VInt(0)
        g['released_after_failure'] = VBool(False)
        g['D'] = VSeq(D, K_OBJ)
        selfv = I.st.new_obj('Stream', {'__ref__': VRef(z3.Const('self_ref', sym.Obj), 'Stream'),
                                        'current_value': VElem(z3.Const('cv0', sym.Elem)),
                                        'current_metadata': NONE,
                                        'downstreams': VRef(z3.Const('downstreams', sym.Obj), 'OrderedWeakrefSet')})
        x = VElem(z3.Const('x', sym.Elem))
        md = NONE if self.md_none else VSeq(z3.Const('md', sym.SeqMdS), K_MDE)
        g['md_in'] = VSeq(z3.Empty(sym.SeqMdS), K_MDE) if self.md_none else md
        self.finish_build(I, {'self': selfv, 'x': x, 'metadata': md})
        return selfv, [x], {'metadata': md}

    def summaries(self):
        def s_len(I, recv, args, kwargs):
            return VInt(z3.Length(self.D))

        def s_list(I, recv, args, kwargs):
            return I.st.new_list(self.D, K_OBJ)

        def refs(sign):
            def f(I, recv, args, kwargs):
                md = args[0]
                n = I.num(args[1]) if len(args) > 1 else z3.IntVal(1)
                t, k = I.seq_term(md)
                g = I.st.ghost
                if t is not None:
                    g['count_r'] = VInt(g['count_r'].t + sign * n * sym.occ(R, t))
                return NONE
            return f

        def child_update(I, recv, args, kwargs):
            """Contract of an arbitrary downstream's update(x, who, metadata)."""
            g = I.st.ghost
            pre = g['_pre'][1]
            # before anything downstream has run, the node remembers the element it is delivering (inside the loop rule `calls`
            # is the arbitrary prefix already served: the obligation speaks about the empty prefix)
            I.oblige('remembers_current_value_before_the_first_downstream_runs',
                     z3.Implies(z3.Length(g['calls'].t) == 0, I.eq(I.get_attr(pre['self'], 'current_value'), pre['x'])))
            I.st.obligations[-1].props = ['C01', 'C12']
            I.oblige('child_gets_same_element', I.eq(args[0], pre['x']))
            I.st.obligations[-1].props = ['C01']
            I.oblige('child_told_who_emitted', I.eq(kwargs['who'], pre['self']))
            I.st.obligations[-1].props = ['C01', 'C15']
            mdv = kwargs['metadata']
            t, k = I.seq_term(mdv)
            exp = g['md_in'].t
            I.oblige('child_gets_flat_metadata_list', z3.Length(exp) == 0 if t is None else
                     (t == exp if k is K_MDE else z3.BoolVal(False)))
            I.st.obligations[-1].props = ['C10']
            g['calls'] = VSeq(z3.Concat(g['calls'].t, z3.Unit(recv.t)), K_OBJ)
            eff = z3.Int(sym.fresh_name('child_eff'))
            g['child_eff'] = VInt(g['child_eff'].t + eff)
            g['count_r'] = VInt(g['count_r'].t + eff)
            which = I.choose(4, 'child_ret')
            if which == 3:
                raise PyRaise(VExc('DownstreamError'))
            if which == 0:
                ret = z3.Unit(c_none_aw)
                val = NONE
            elif which == 1:
                a = z3.Const(sym.fresh_name('aw'), sym.Aw)
                I.st.assume(a != c_none_aw)
                ret = z3.Unit(a)
                val = VAw(a)
            else:
                lt = z3.Const(sym.fresh_name('awl'), sym.SeqAwS)
                ret = lt
                val = I.st.new_list(lt, K_AW)
            g['rets'] = VSeq(z3.Concat(g['rets'].t, z3.Unit(ret)), K_AWS)
            # re-entrancy: the downstream may (through a feedback edge) push another element through THIS node before it
            # returns; the nested _emit overwrites the two attributes _emit writes.  Locals of this frame are not affected.
            me = pre['self']
            I.set_attr(me, 'current_value', VElem(z3.Const(sym.fresh_name('cv_after_child'), sym.Elem)))
            I.set_attr(me, 'current_metadata', VSeq(z3.Const(sym.fresh_name('cm_after_child'), sym.SeqMdS), K_MDE))
            return val
        return {'len:OrderedWeakrefSet': s_len, 'list:OrderedWeakrefSet': s_list,
                'Stream._retain_refs': refs(+1), 'Stream._release_refs': refs(-1), '*.update': child_update}

    def spec_funcs(self):
        d = _Base.spec_funcs(self)

        def nonnull_hook(I, t):
            return nonnull(t)
        d['nonnull'] = nonnull_hook
        return d

    def make_interp(self, index):
        I = _Base.make_interp(self, index)
        orig = I.term_of

        def term_of(v, kind):
            if kind is K_AW and isinstance(v, VNone):
                return c_none_aw
            return orig(v, kind)
        I.term_of = term_of
        return I

    def loop_specs(self):
        return {('Stream._emit', 0): LoopSpec(
            modifies=['local:result', 'local:r', 'ghost:calls', 'ghost:rets', 'ghost:count_r', 'ghost:child_eff'],
            invariant=[('each_downstream_once_in_order', 'calls == _P'),
                       ('results_collected', 'result == flat_aw(rets) and len(rets) == len(_P)'),
                       ('holds_one_per_pending_downstream',
                        'count_r == old(count_r) + (len(_S) - len(_P)) * occ(md_in) + child_eff')],
            typed_locals={'result': K_AW}, props=['C01', 'C03', 'C04', 'C05', 'C16'], name='fanout')}

    def clauses(self):
        return [
            Clause('C01.every_downstream_once_in_attachment_order', ['C01', 'C15'], text='calls == D'),
            Clause('C03.returns_flat_list_of_all_awaitables', ['C03'], text='list(result) == nonnull_of(flat_aw(rets))'),
            Clause('C05.own_holds_net_to_zero', ['C05', 'C04'], text='count_r == old(count_r) + child_eff'),
            Clause('C12.a_node_without_consumers_still_remembers_the_element_it_emitted', ['C01', 'C12'],
                   text='implies(len(D) == 0, self.current_value == x)',
                   note='`current_value` is how the last result of a leaf node (an aggregation handle nobody has subscribed to) is '
                        'polled; with consumers the obligation before the first downstream call says the same (afterwards a '
                        're-entrant emission may legitimately have replaced it)'),
            Clause('C16.failed_downstream_is_never_released', ['C16', 'C04'], when='raise:DownstreamError',
                   text='count_r - child_eff - old(count_r) >= occ(md_in) and len(calls) <= len(D)',
                   note='the hold taken for the failing downstream (and for every later one) stays: the count cannot reach zero'),
        ]

    def cover(self, outcomes):
        return [('normal return reachable', any(o.kind == 'return' for o in outcomes)),
                ('downstream failure reachable', any(o.kind == 'raise' for o in outcomes))]


class EmitBodyNoMetadata(EmitBody):
    name = 'Stream._emit[metadata=None]'
    md_none = True


ALL = [RefCounterRetain, RefCounterRelease, RetainRefs, ReleaseRefs, EmitBody, EmitBodyNoMetadata]
