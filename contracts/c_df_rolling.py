"""C11 (and C12): rolling (row-count windows), cumulative operations and exponentially weighted mean
(streamz/dataframe/core.py: rolling_accumulator, _cumulative_accumulator; streamz/dataframe/aggregations.py: EWMean).

pandas itself is assumed (bounded conformance in bounded/df_enum.py):
  L-ROLL  df.rolling(w).op() is row-local: the values for the last |B| rows of  P ++ K ++ B  equal those of  K ++ B  when K holds
          the w-1 (or more) rows before B, or P is empty;  |rolling(s)| == |s|
  L-SCAN  cumsum/cumprod/cummin/cummax are scans that skip NaN:  with c = last valid cumulative value of A (one row),
          drop_first(cum(c ++ B)) == last |B| rows of cum(A ++ B), and the last valid values agree;  |cum(s)| == |s|
  L-EWM   ewm(com).mean() (adjust=True) obeys the recurrence used by EWMean.on_new."""
import z3
from pyvc import sym
from pyvc.sym import (VFrame, VVec, VInt, VReal, VBool, VNone, VStr, VElem, VSeq, VList, VTuple, VObj, VBuiltin, Value)
from pyvc.state import State, Unsupported
from pyvc.contract import Clause
from pyvc.interp import NONE
from pyvc.loops import LoopSpec
from .df_common import DfContract, SeqRowS, Row, f_s1

f_roll = z3.Function('rolling_op', z3.IntSort(), SeqRowS, SeqRowS)      # per-row result of df.rolling(w).op()
f_cum = z3.Function('cum_op', SeqRowS, SeqRowS)                          # per-row result of df.cumop()
f_ffill = z3.Function('ffill', SeqRowS, SeqRowS)
f_lastvalid = z3.Function('last_valid_row', SeqRowS, SeqRowS)            # one-row frame: ffill(s).iloc[-1:]  (empty for empty s)


class VRolled(Value):
    frame_like = True

    def __init__(self, frame, window):
        self.frame = frame
        self.window = window


def suffix(I, t, n):
    """last n rows of t as a witness split  t == A ++ B, |B| == min(n, |t|)"""
    A = z3.Const(sym.fresh_name('sufA'), SeqRowS)
    B = z3.Const(sym.fresh_name('sufB'), SeqRowS)
    I.st.assume(t == z3.Concat(A, B))
    I.st.assume(z3.Length(B) == z3.If(n >= z3.Length(t), z3.Length(t), z3.If(n < 0, 0, n)))
    return A, B


class RollingBase(DfContract):
    file = 'streamz/dataframe/core.py'
    files = ['streamz/dataframe/core.py', 'streamz/dataframe/aggregations.py']
    props = ['C11', 'C12']

    def spec_funcs(self):
        d = DfContract.spec_funcs(self)
        base_method = d['frame_method']
        base_attr = d['frame_attr']

        def frame_method(I, v, name, args, kwargs):
            if isinstance(v, VFrame) and name == 'rolling':
                return VRolled(v, args[0])
            if isinstance(v, VRolled):
                t = v.frame.t
                r = f_roll(I.num(v.window), t)
                I.st.assume(z3.Length(r) == z3.Length(t))           # L-ROLL: one result row per input row
                return VFrame(r)
            if isinstance(v, VFrame) and name in ('cumsum', 'cumprod', 'cummin', 'cummax', 'cumop'):
                r = f_cum(v.t)
                I.st.assume(z3.Length(r) == z3.Length(v.t))         # L-SCAN: one result row per input row
                return VFrame(r)
            if isinstance(v, VFrame) and name == 'ffill':
                r = f_ffill(v.t)
                I.st.assume(z3.Length(r) == z3.Length(v.t))
                # by definition  last_valid_row(s) == ffill(s).iloc[-1:]
                r1 = VFrame(r)
                r1.ffill_of = v.t
                return r1
            return base_method(I, v, name, args, kwargs)

        def get_pkg(I, args, kwargs, fr):
            return VBuiltin('df_package')

        def concat(I, args, kwargs, fr):
            items = I.concrete_items(args[0]) if not isinstance(args[0], VTuple) else args[0].items
            if items is None:
                raise Unsupported('concat of a symbolic list')
            ts = [it.t for it in items]
            return VFrame(ts[0] if len(ts) == 1 else z3.Concat(*ts))

        def getattr_(I, args, kwargs, fr):
            obj, name = args[0], args[1]
            if not isinstance(name, VStr):
                raise Unsupported('getattr with symbolic name')
            return I.get_attr(obj, name.s, fr)

        def last_rows(I, v, n):
            A, B = suffix(I, v.t, I.num(n))
            return VFrame(B)

        def roll(I, w, v):
            return VFrame(f_roll(I.num(w), v.t))

        def cum(I, v):
            return VFrame(f_cum(v.t))

        def lastvalid(I, v):
            return VFrame(f_lastvalid(v.t))

        def flen(I, v):
            return VInt(z3.Length(v.t))
        d.update({'frame_method': frame_method, 'builtin_get_dataframe_package': get_pkg, 'builtin_df_package.concat': concat,
                  'builtin_getattr': getattr_, 'last_rows': last_rows, 'roll': roll, 'cum': cum, 'lastvalid': lastvalid,
                  'flen': flen})
        return d

    def make_interp(self, index):
        I = DfContract.make_interp(self, index)
        orig_eq = I.eq

        def eq(a, b, identity=False):
            if isinstance(a, VFrame) and isinstance(b, VFrame):
                return a.t == b.t
            return orig_eq(a, b, identity)
        I.eq = eq
        orig_list = I.expr_List

        def expr_List(e, fr):
            items = [I.eval(el, fr) for el in e.elts]
            if items and all(isinstance(it, VFrame) for it in items):
                return VTuple(items)
            return orig_list(e, fr)
        I.expr_List = expr_List
        return I


class RollingAccumulator(RollingBase):
    """rolling_accumulator with an integer window: the rows emitted for a batch are exactly the rows pandas computes for those
    rows in one pass over everything seen, and the carried rows are the last `window` rows."""
    qual = 'rolling_accumulator'
    name = 'rolling_accumulator[row-count window]'
    assumptions = RollingBase.assumptions + ('L-ROLL (locality of pandas rolling aggregations; bounded-checked)',
                                             'time-based rolling windows are covered by the bounded check only')

    def build(self, I):
        st = State()
        I.st = st
        g = st.ghost
        w = z3.Int('window')
        st.assume(w >= 1)
        Pre, acc, new = self.frame('Pre'), self.frame('acc'), self.frame('new')
        # invariant: Seen == Pre ++ acc, acc holds the last min(window, |Seen|) rows
        st.assume(z3.Or(z3.Length(acc.t) == w, z3.And(z3.Length(Pre.t) == 0, z3.Length(acc.t) <= w)))
        g['Pre'], g['Seen'] = Pre, VFrame(z3.Concat(Pre.t, acc.t))
        # L-ROLL instance for this call (K = acc holds >= window-1 previous rows, or nothing precedes it)
        full = z3.Concat(Pre.t, acc.t, new.t)
        part = z3.Concat(acc.t, new.t)
        RA, RB = z3.Const('rollA', SeqRowS), z3.Const('rollB', SeqRowS)
        PA, PB = z3.Const('partA', SeqRowS), z3.Const('partB', SeqRowS)
        st.assume(f_roll(w, full) == z3.Concat(RA, RB))
        st.assume(z3.Length(RB) == z3.Length(new.t))
        st.assume(f_roll(w, part) == z3.Concat(PA, PB))
        st.assume(z3.Length(PB) == z3.Length(new.t))
        st.assume(z3.Length(f_roll(w, full)) == z3.Length(full))
        st.assume(z3.Length(f_roll(w, part)) == z3.Length(part))
        st.assume(PB == RB)                                             # <- L-ROLL
        g['expected_result'] = VFrame(RB)
        self.finish(I, {'acc': acc, 'new': new, 'window': VInt(w)})
        return None, [acc, new], {'window': VInt(w), 'op': VStr('sum')}

    def clauses(self):
        return [Clause('C11.emits_exactly_the_rows_pandas_computes_for_this_batch', ['C11'], when='return',
                       text='result[1] == expected_result',
                       note='result == rolling(window).op()(Seen ++ new)[|Seen|:], whatever the batch sizes (incl. empty batches)'),
                Clause('C11.carries_the_last_window_rows', ['C11', 'C12'], when='return',
                       text='result[0] == last_rows(rows(Seen, new), window)',
                       note='state invariant re-established: acc == last min(window, |Seen ++ new|) rows'),
                Clause('C11.never_raises', ['C11'], when='raise', text='False')]


class CumulativeAccumulator(RollingBase):
    qual = '_cumulative_accumulator'
    assumptions = RollingBase.assumptions + ('L-SCAN (cumulative operations are NaN-skipping scans; bounded-checked)',)

    def build(self, I):
        st = State()
        I.st = st
        g = st.ghost
        Seen, new = self.frame('Seen'), self.frame('new')
        state = VFrame(f_lastvalid(f_cum(Seen.t)))          # invariant: state == last valid cumulative row of everything seen
        st.assume(z3.Length(state.t) == z3.If(z3.Length(Seen.t) == 0, 0, 1))
        st.assume(z3.Length(f_cum(Seen.t)) == z3.Length(Seen.t))
        g['Seen'] = Seen
        full = z3.Concat(Seen.t, new.t)
        cont = z3.Concat(state.t, new.t)
        FA, FB = z3.Const('cumA', SeqRowS), z3.Const('cumB', SeqRowS)
        st.assume(f_cum(full) == z3.Concat(FA, FB))
        st.assume(z3.Length(FB) == z3.Length(new.t))
        st.assume(z3.Length(f_cum(full)) == z3.Length(full))
        g['expected_result'] = VFrame(FB)
        # L-SCAN instance: continuing from the last valid cumulative value
        h = z3.Const('cont_head', Row)
        st.assume(z3.Implies(z3.Length(Seen.t) > 0,
                             z3.And(f_cum(cont) == z3.Concat(z3.Unit(h), FB),
                                    f_lastvalid(f_cum(cont)) == f_lastvalid(f_cum(full)))))
        st.assume(z3.Implies(z3.Length(Seen.t) == 0, z3.And(full == new.t, FB == f_cum(new.t))))
        # definition of last_valid_row
        for s_ in (f_cum(cont), f_cum(full), f_cum(new.t)):
            pass
        self.finish(I, {'state': state, 'new': new})
        return None, [state, new], {'op': VStr('cumop')}

    def spec_funcs(self):
        d = RollingBase.spec_funcs(self)
        base_index = d['frame_index']

        def frame_index(I, ix, sl, fr):
            v = ix.frame
            import ast as _ast
            # ffill(s).iloc[-1:]  is by definition last_valid_row(s)
            if ix.kind == 'iloc' and getattr(v, 'ffill_of', None) is not None and _ast.unparse(sl) == '-1:':
                r = f_lastvalid(v.ffill_of)
                I.st.assume(z3.Length(r) == z3.If(z3.Length(v.ffill_of) == 0, 0, 1))
                return VFrame(r)
            return base_index(I, ix, sl, fr)
        d['frame_index'] = frame_index
        return d

    def clauses(self):
        return [Clause('C11.emits_exactly_the_rows_pandas_computes_for_this_batch', ['C11'], when='return',
                       text='implies(flen(new) > 0, result[1] == expected_result) and implies(flen(new) == 0, flen(result[1]) == 0)',
                       note='cum(Seen ++ new)[|Seen|:]'),
                Clause('C11.state_is_last_valid_cumulative_value', ['C11', 'C12'], when='return',
                       text='result[0] == lastvalid(cum(rows(Seen, new)))',
                       note='the carried state is the last valid (non-NaN) cumulative value of everything seen'),
                Clause('C11.never_raises', ['C11'], when='raise', text='False')]


ALL = [RollingAccumulator, CumulativeAccumulator]
