"""Coroutine segments: contract skeleton and the trusted models of the awaited objects
(DESIGN 2.4 and Appendix B: tornado Queue / Condition, gen.sleep, IOLoop.call_later / add_callback, time())."""
import z3
from pyvc import sym
from pyvc.sym import (VInt, VReal, VBool, VNone, VStr, VElem, VSeq, VList, VTuple, VRef, VObj, VCallable, VAw,
                      VBuiltin, VFunc, VExc, K_ELEM, K_MDE, K_MD, K_AW, K_INT, K_OBJ)
from pyvc.state import State, PyRaise, Unsupported, SegmentYield
from pyvc.contract import Contract, Clause
from pyvc.interp import NONE, Frame, Resume
from .core_common import CoreSummaries, R, CORE, values_equal_across


f_isawaitable = z3.Function('isawaitable', sym.Elem, z3.BoolSort())


class Segment(CoreSummaries, Contract):
    """One atomic segment of a coroutine: from yield number `start` (0 = entry) to the next yield / return."""
    file = CORE
    cls = None
    method = None
    start = 0
    harness = 'segment_harness'
    data_fields = ()
    inflight_pre = '0'          # holds kept by the suspended frame at the resumption point (spec text over locals)
    inflight_post = {}          # outcome key ('yield:k' / 'return' / 'raise') -> spec text
    emit_may_raise = False

    def __init__(self):
        self.qual = '%s.%s' % (self.cls, self.method)
        if not getattr(self, 'name', None):
            self.name = '%s@%d' % (self.qual, self.start)
        Contract.__init__(self)

    # -- to be provided
    def make_self(self, I):
        return {}

    def make_locals(self, I, selfv):
        """locals at the resumption point (for start == 0: the call arguments)"""
        x = VElem(z3.Const('x', sym.Elem))
        md = VSeq(z3.Const('md', sym.SeqMdS), K_MDE)
        who = VRef(z3.Const('who', sym.Obj), 'Stream')
        return {'self': selfv, 'x': x, 'who': who, 'metadata': md}

    def resume(self, I, loc):
        return Resume(NONE)

    def requires(self, I, selfv, loc):
        pass

    # -- machinery
    def base_fields(self):
        return {'__ref__': VRef(z3.Const('self_ref', sym.Obj), 'Stream'),
                'current_value': NONE, 'current_metadata': NONE,
                'loop': VRef(z3.Const('loop', sym.Obj), 'IOLoop'),
                'downstreams': VRef(z3.Const('downstreams', sym.Obj), 'OrderedWeakrefSet'), 'name': NONE}

    def summaries(self):
        d = self.core_summaries()
        d.update(async_summaries(self))
        return d

    def spec_funcs(self):
        d = self.core_spec_funcs()
        d.update(async_spec_funcs(self))
        return d

    def globals(self):
        return {'gen': VBuiltin('gen'), 'asyncio': VBuiltin('asyncio')}

    def init_async_ghost(self, st):
        g = st.ghost
        g['now'] = VReal(z3.Real('now0'))
        g['sleeps'] = VTuple([])             # requested sleeps (durations) in this segment
        g['timers'] = VTuple([])             # call_later registrations in this segment
        g['cancelled'] = VTuple([])
        g['callbacks'] = VTuple([])          # add_callback registrations in this segment
        g['notified'] = VInt(0)
        g['waits'] = VInt(0)
        g['q_put'] = VSeq(z3.Empty(sym.SeqElemS), K_ELEM)     # pairs put into the queue in this segment
        g['q_get'] = VInt(0)
        g['time_reads'] = VTuple([])

    def unit(self, I, index):
        # the method the class resolves to (an inherited method is verified as the code the class actually runs)
        m = index.find_method(self.cls, self.method)
        if m is None:
            raise KeyError('locator does not resolve: %s.%s' % (self.cls, self.method))
        self.qual_resolved, node = m
        f = VFunc(self.qual_resolved, node, bound=None)
        import ast as _ast
        n_susp = sum(1 for n in _ast.walk(node) if isinstance(n, (_ast.Yield, _ast.Await, _ast.YieldFrom)))
        if self.start > n_susp:
            raise Unsupported('the contract describes the resumption after suspension point %d of %s, which has only %d now'
                              % (self.start, self.qual_resolved, n_susp))

        def run(I):
            st = State()
            I.st = st
            self.init_ghost(st)
            self.init_async_ghost(st)
            fields = self.base_fields()
            fields.update(self.make_self(I))
            selfv = st.new_obj(self.cls, fields)
            loc = self.make_locals(I, selfv)
            if self.start > 0:
                # the contract describes the suspended frame with the local names of the baseline source; follow renamings,
                # and refuse (checker error) to describe a local the function no longer has
                lm = I.index.local_map(self.qual_resolved)
                from pyvc.localmap import local_names
                have, params = local_names(node)
                loc2 = {}
                for k, v in loc.items():
                    k2 = lm.get(k, k)
                    if k2 != 'self' and not k2.startswith('__') and k2 not in have and k2 not in params:
                        raise Unsupported('the contract describes the local %r of the suspended frame, which %s no longer has '
                                          '(no counterpart found by the local-name alignment)' % (k, self.qual_resolved))
                    loc2[k2] = v
                loc = loc2
            self.requires(I, selfv, loc)
            self.pre_args = dict(loc)
            self.pre_state = st.snapshot()
            st.ghost['_pre'] = (self.pre_state, self.pre_args)
            I.contract_pre = self.pre_state
            I.contract_pre_frame = self.pre_frame(I)
            fr = Frame(self.qual_resolved, loc)
            res = self.resume(I, loc)
            try:
                v = I.run_segment(f, fr, self.start, res)
            except (PyRaise, SegmentYield) as e:
                if not hasattr(e, 'frame') or e.frame is None:
                    e.frame = fr
                raise
            return v, fr
        return run

    def outcome_key(self, o):
        if o.kind == 'yield':
            return 'yield:%d' % o.yield_index
        return o.kind

    def inflight(self, I, st, text, fr):
        if not text:
            return z3.IntVal(0)
        cur = I.st
        I.st = st
        try:
            return I.num(I.eval_spec(text, fr, old_st=self.pre_state, old_frame=self.pre_frame(I)))
        finally:
            I.st = cur

    def own_pre(self, I):
        return self.held(I, self.pre_state) + self.inflight(I, self.pre_state, self.inflight_pre, self.pre_frame(I))

    def balance_clause(self):
        def fn(self_, I, o, fr):
            key = self.outcome_key(o)
            post_text = self.inflight_post.get(key, self.inflight_post.get(o.kind, '0'))
            pf = self.pre_frame(I)
            own_pre = self.held(I, self.pre_state) + self.inflight(I, self.pre_state, self.inflight_pre, pf)
            own_post = self.held(I, o.state) + self.inflight(I, o.state, post_text, fr)
            return o.state.ghost['delta'].t == own_post - own_pre
        return fn

    def segment_clauses(self):
        rp = {'held': self.held_text, 'inflight_pre': self.inflight_pre, 'inflight_post': self.inflight_post}
        cl = [Clause('C05.balance', ['C05', 'C04'], fn=self.balance_clause(), when='normal', kind='balance', replay=rp,
                     note='own ref-count effect of the segment == change of (buffered holds + holds of the suspended frame)')]
        if self.emission_must_be_awaited:
            cl.append(Clause('C03.what_is_emitted_is_awaited_by_the_coroutine_not_returned', ['C03', 'C02'],
                             fn=lambda self_, I, o, fr: (z3.Length(sym.flat_aw(o.state.ghost['emit_rets'].t)) == 0)
                             if 'emit_rets' in o.state.ghost else None,
                             when='return_or_gen_return',
                             note='the result of a coroutine is not awaited by its caller: a segment that emits and then returns '
                                  'hands the downstream awaitables to nobody (no backpressure, async consumers never run)'))
        if self.emission_must_be_awaited:
            def awaited_at_yield(self_, I, o, fr):
                g = o.state.ghost
                if 'emit_rets' not in g or '_last_emit_ret' not in g:
                    return None
                ret = g['_last_emit_ret']
                v = o.value
                covered = False
                if isinstance(v, (VList, VSeq)):
                    cur = I.st
                    I.st = o.state
                    try:
                        t, k = I.seq_term(v)
                    finally:
                        I.st = cur
                    covered = t is not None and t.eq(ret)
                elif isinstance(v, VAw):
                    covered = any(c.eq(ret) for c in getattr(v, 'covers', []))
                if covered:
                    return None
                # the segment ends by awaiting something else: fine only if the last emission left nothing to wait for
                return z3.Length(ret) == 0
            cl.append(Clause('C03.coroutine_suspends_on_what_it_has_just_emitted', ['C03', 'C02'], fn=awaited_at_yield, when='yield',
                             note='a coroutine that emits and then awaits something else (or nothing) does not wait for its consumers'))
        if getattr(self, 'method', None) == 'update' and getattr(self, 'start', 0) == 0 and getattr(self, 'cls', None):
            # update() of a node is called by the emitter's _emit loop, which only collects what it returns.  A Tornado coroutine
            # (and a plain function) runs its first segment -- buffering the element, retaining its references, reserving a slot,
            # arming a timer -- inside that call.  The body of a native coroutine (async def) does not run at all until somebody awaits
            # the returned object: an emitter that does not await (collect.flush, the from_tcp handler) drops the element, and the
            # order of arrival is no longer the order of the calls.
            def eager(self_, I, o, fr, qual='%s.%s' % (self.cls, self.method)):
                import ast as _ast
                try:
                    rel, node = I.index.function(qual)
                except KeyError:
                    return None
                return z3.BoolVal(not isinstance(node, _ast.AsyncFunctionDef))
            cl.append(Clause('C02.update_runs_its_first_segment_inside_the_call', ['C02', 'C08', 'C13', 'C01'], when='any', fn=eager,
                             note='update must not be a native coroutine: nothing of it would run before it is awaited'))
        if getattr(self, 'method', None) == 'cb':
            # the forwarding coroutine of a node (buffer, delay, latest, timed_window, ...) is scheduled once, by the constructor
            cl.append(Clause('C02.the_forwarding_coroutine_never_exits', ['C02', 'C14', 'C13', 'C08', 'C03'], when='return_or_gen_return', text='False',
                             note='nothing ever starts the forwarder again: once it has returned, whatever the node receives afterwards '
                                  '(new arrivals, a re-attached input, elements still queued) is never delivered'))
        if self.data_fields and self.reentrancy_generic:
            cl.append(Clause('C01.state_is_final_before_every_emission', ['C01', 'C02', 'C05', 'C08'], fn=self.generic_reentrancy(),
                             when='normal', kind='reentrancy',
                             note='re-entrancy: downstream code may call back into this node (feedback edge) during _emit; the '
                                  "node's buffers must already be in their post-state, otherwise the re-entrant arrival is lost or duplicated"))
        return cl

    reentrancy_generic = True
    emission_must_be_awaited = True

    def generic_reentrancy(self):
        def fn(self_, I, o, fr):
            snaps = o.state.ghost.get('_snaps', [])
            post = o.state.heap[self.pre_args['self'].loc]
            fs = []
            for s in snaps:
                cell = s.heap[self.pre_args['self'].loc]
                for f in self.data_fields:
                    if f in cell.fields and f in post.fields:
                        fs.append(values_equal_across(I, s, cell.fields[f], o.state, post.fields[f]))
            return z3.And(fs) if fs else None
        return fn

    def cover(self, outcomes):
        return [('segment reaches a yield or return', any(o.kind in ('yield', 'return') for o in outcomes))]

    def replay_input(self, I, model, outcome):
        return None


def async_spec_funcs(c):
    def builtin_time(I, args, kwargs, fr):
        g = I.st.ghost
        t = z3.Real(sym.fresh_name('now'))
        # the clock never runs backwards between two reads inside one segment
        I.st.assume(t >= g['now'].t)
        g['now'] = VReal(t)
        g['time_reads'] = VTuple(g['time_reads'].items + [VReal(t)])
        return VReal(t)

    def unpack_elem(I, v, n):
        if n == 2 and getattr(c, 'unpack_pairs', True):
            return [VElem(sym.f_mdpair_x(v.t)), VSeq(sym.f_mdpair_md(v.t), K_MDE)]
        return None

    def xs_of(I, s):
        t, k = I.seq_term(s)
        return VSeq(sym.xs_of(t), K_ELEM)

    def mds_of(I, s):
        t, k = I.seq_term(s)
        return VSeq(sym.mds_of(t), K_MD)

    def pair(I, x, md):
        return VElem(sym.f_mdpair(I.as_elem(x), I.seq_term(md)[0]))
    def gen_sleep(I, args, kwargs, fr):
        g = I.st.ghost
        g['sleeps'] = VTuple(g['sleeps'].items + [VReal(I.num(args[0], True))])
        return VAw(z3.Const(sym.fresh_name('sleep_aw'), sym.Aw))

    def isawaitable(I, args, kwargs, fr):
        v = args[0]
        if isinstance(v, VAw):
            return VBool(True)
        if isinstance(v, VElem):
            return VBool(f_isawaitable(v.t))
        return VBool(False)
    def narrower(pred_name):
        # inspect.iscoroutine / gen.is_future / asyncio.isfuture ...: each recognises SOME awaitables only (an object with
        # __await__ that is neither a coroutine nor a Future is awaitable all the same)
        pred = z3.Function(pred_name, sym.Elem, z3.BoolSort())

        def f(I, args, kwargs, fr):
            v = args[0]
            if isinstance(v, VAw):
                return VBool(z3.Bool(sym.fresh_name(pred_name + '_of_aw')))
            if isinstance(v, VElem):
                I.st.assume(z3.Implies(pred(v.t), f_isawaitable(v.t)))
                return VBool(pred(v.t))
            return VBool(False)
        return f
    is_future = narrower('is_future')

    def isinstance_hook(I, v, n):
        # isinstance(x, <a future class>): recognises SOME awaitables only, like gen.is_future
        if n in ('gen.Future', 'Future', 'asyncio.Future', 'concurrent.futures.Future'):
            return I.truth(is_future(I, [v], {}, None))
        raise Unsupported('isinstance(..., %s)' % n)
    def gather(I, args, kwargs, fr):
        return VAw(z3.Const(sym.fresh_name('gather'), sym.Aw))
    return {'isinstance': isinstance_hook, 'builtin_asyncio.gather': gather, 'builtin_gen.convert_yielded': gather, 'builtin_gen.multi': gather,
            'builtin_inspect.iscoroutine': narrower('is_coroutine'), 'builtin_asyncio.iscoroutine': narrower('is_coroutine'),
            'builtin_inspect.isawaitable': isawaitable,
            'builtin_gen.is_future': narrower('is_future'), 'builtin_asyncio.isfuture': narrower('is_future'),
            'builtin_gen.sleep': gen_sleep, 'builtin_asyncio.sleep': gen_sleep, 'builtin_gen.isawaitable': isawaitable,
            'builtin_time': builtin_time, 'unpack_elem': unpack_elem, 'xs_of': xs_of, 'mds_of': mds_of, 'pair': pair}


def async_summaries(c):
    def gen_attr(name):
        def f(I, args, kwargs, fr):
            raise Unsupported(name)
        return f

    def sleep(I, args, kwargs, fr=None):
        g = I.st.ghost
        d = args[0]
        g['sleeps'] = VTuple(g['sleeps'].items + [VReal(I.num(d, True))])
        return VAw(z3.Const(sym.fresh_name('sleep_aw'), sym.Aw))

    def call_later(I, recv, args, kwargs):
        g = I.st.ghost
        h = VRef(z3.Const(sym.fresh_name('timer'), sym.Obj), 'TimerHandle')
        g['timers'] = VTuple(g['timers'].items + [VTuple([VReal(I.num(args[0], True)), args[1]] + list(args[2:]) + [h])])
        return h

    def add_callback(I, recv, args, kwargs):
        g = I.st.ghost
        g['callbacks'] = VTuple(g['callbacks'].items + [VTuple(list(args))])
        return NONE

    def cancel(I, recv, args, kwargs):
        g = I.st.ghost
        g['cancelled'] = VTuple(g['cancelled'].items + [recv])
        return NONE

    def q_put(I, recv, args, kwargs):
        g = I.st.ghost
        g['q_put'] = VSeq(z3.Concat(g['q_put'].t, z3.Unit(I.as_elem(args[0]))), K_ELEM)
        return VAw(z3.Const(sym.fresh_name('put_aw'), sym.Aw))

    def q_get(I, recv, args, kwargs):
        g = I.st.ghost
        g['q_get'] = VInt(g['q_get'].t + 1)
        return VAw(z3.Const(sym.fresh_name('get_aw'), sym.Aw))

    def notify(I, recv, args, kwargs):
        g = I.st.ghost
        g['notified'] = VInt(g['notified'].t + 1)
        return NONE

    def wait(I, recv, args, kwargs):
        g = I.st.ghost
        g['waits'] = VInt(g['waits'].t + 1)
        return VAw(z3.Const(sym.fresh_name('wait_aw'), sym.Aw))
    return {'IOLoop.call_later': call_later, 'IOLoop.add_callback': add_callback, 'TimerHandle.cancel': cancel,
            'Queue.put': q_put, 'Queue.get': q_get, 'Condition.notify': notify, 'Condition.notify_all': notify,
            'Condition.wait': wait, '__gen.sleep': sleep}


def coroutine_call_summary(qual):
    """Calling a @gen.coroutine function runs its body synchronously up to its first yield (tornado semantics);
    the caller gets a future.  The callee's first segment is executed inline on the same state; what remains is
    recorded in the ghost list `pending_coroutines`."""
    def summary(I, recv, args, kwargs):
        rel, node = I.index.function(qual)
        f = VFunc(qual, node, bound=recv)
        loc = I.bind_args(node, recv, args, dict(kwargs), qual)
        fr = Frame(qual, loc)
        saved = getattr(I, 'yield_ids', None)
        g = I.st.ghost
        try:
            try:
                I.run_segment(f, fr, 0, None)
                done = True
                idx = 0
            except SegmentYield as e:
                done = False
                idx = e.index
                yielded = e.value
        finally:
            I.yield_ids = saved
        aw = VAw(z3.Const(sym.fresh_name('coro_aw'), sym.Aw))
        aw.covers = []
        if not done:
            # the future of the called coroutine stands for whatever that coroutine is itself suspended on
            if isinstance(yielded, (VList, VSeq)):
                try:
                    t, k = I.seq_term(yielded)
                    if t is not None:
                        aw.covers = [t]
                except Unsupported:
                    pass
            elif isinstance(yielded, VAw):
                aw.covers = list(getattr(yielded, 'covers', []))
        pend = g.get('pending_coroutines', VTuple([]))
        if not done:
            g['pending_coroutines'] = VTuple(pend.items + [VTuple([VStr(qual), VInt(idx)])])
            g.setdefault('_pending_frames', [])
            g['_pending_frames'] = g['_pending_frames'] + [(qual, idx, fr)]
        return aw
    return summary
