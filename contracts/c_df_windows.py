"""C07 / C11 / C12: window bookkeeping of streamz/dataframe/aggregations.py:
diff_iloc, diff_expanding, diff_loc, window_accumulator, Full."""
import ast
import z3
from pyvc import sym
from pyvc.sym import (VFrame, VVec, VInt, VReal, VBool, VNone, VStr, VElem, VSeq, VList, VTuple, VObj, VBuiltin, VFunc,
                      VCallable, Kind, KSeq, K_INT)
from pyvc.state import State, Unsupported
from pyvc.contract import Clause
from pyvc.interp import NONE
from pyvc.loops import LoopSpec
from .df_common import DfContract, SeqRowS, Row, S, C, N, Q

K_FRAME = Kind('frame', SeqRowS, lambda t: VFrame(t))
K_FRAMES = KSeq(K_FRAME)
SeqFrameS = z3.SeqSort(SeqRowS)

cat_rows = sym.SpecFun('cat_rows', [], SeqFrameS, SeqRowS, zero=lambda: z3.Empty(SeqRowS), one=lambda f: f,
                       plus=lambda a, b: z3.Concat(a, b))
total_len = sym.SpecFun('total_len', [], SeqFrameS, z3.IntSort(), zero=lambda: z3.IntVal(0), one=lambda f: z3.Length(f),
                        plus=lambda a, b: a + b, nonneg=True)
all_nonempty = sym.SpecFun('all_nonempty', [], SeqFrameS, z3.BoolSort(), zero=lambda: z3.BoolVal(True),
                           one=lambda f: z3.Length(f) >= 1, plus=lambda a, b: z3.And(a, b))


def _len_lemma(formulas):
    """L-LEN (proved by induction in WindowLemmas): total_len(s) == Length(cat_rows(s))."""
    out, seen, apps = [], set(), []
    for f in formulas:
        sym._walk(f, seen, apps)
    for sf, app in apps:
        if sf is total_len:
            out.append(app == z3.Length(cat_rows(app.arg(0))))
        if sf is cat_rows:
            out.append(total_len(app.arg(0)) == z3.Length(app))
    return out


sym.EXTRA_LEMMAS.append(_len_lemma)


class WindowBase(DfContract):
    def spec_funcs(self):
        d = DfContract.spec_funcs(self)

        def map_(I, args, kwargs, fr):
            f, seq = args
            r = VBuiltin('mapped')
            r.fn, r.seq = f, seq
            return r

        def sum_(I, args, kwargs, fr):
            m = args[0]
            if isinstance(m, VBuiltin) and m.name == 'mapped' and isinstance(m.fn, VBuiltin) and m.fn.name == 'len':
                t, k = I.seq_term(m.seq)
                if t is None:
                    return VInt(0)
                return VInt(total_len(t))
            raise Unsupported('sum(...)')

        def cat(I, v):
            t, k = I.seq_term(v)
            if t is None:
                return VFrame(z3.Empty(SeqRowS))
            return VFrame(cat_rows(t))

        def nonempty(I, v):
            t, k = I.seq_term(v)
            if t is None:
                return VBool(True)
            return VBool(all_nonempty(t))

        def flen(I, v):
            return VInt(z3.Length(v.t))

        def imin(I, a, b):
            x, y = I.num(a), I.num(b)
            return VInt(z3.If(x <= y, x, y))
        d.update({'builtin_map': map_, 'builtin_sum': sum_, 'cat': cat, 'nonempty': nonempty, 'flen': flen, 'imin': imin})
        return d

    def make_interp(self, index):
        I = DfContract.make_interp(self, index)
        orig_eq = I.eq

        def eq(a, b, identity=False):
            if isinstance(a, VFrame) and isinstance(b, VFrame):
                return a.t == b.t
            return orig_eq(a, b, identity)
        I.eq = eq
        orig_kind = I.kind_of

        def kind_of(v):
            if isinstance(v, VFrame):
                return K_FRAME
            return orig_kind(v)
        I.kind_of = kind_of
        orig_term = I.term_of

        def term_of(v, kind):
            if kind is K_FRAME and isinstance(v, VFrame):
                return v.t
            return orig_term(v, kind)
        I.term_of = term_of
        return I


class WindowLemmas(WindowBase):
    qual = 'diff_iloc'
    name = 'lemma L-LEN (induction over the list of frames)'
    props = ['C07', 'C11']

    def verify(self, index, props=None, want_models=True):
        from pyvc.contract import Result
        import time
        P = z3.Const('lem_P', SeqFrameS)
        f = z3.Const('lem_f', SeqRowS)
        Pp = z3.Concat(P, z3.Unit(f))
        E = z3.Empty(SeqFrameS)
        goals = [('L-LEN.base', [], total_len(E) == z3.Length(cat_rows(E))),
                 ('L-LEN.step', [total_len(P) == z3.Length(cat_rows(P))], total_len(Pp) == z3.Length(cat_rows(Pp)))]
        res = []
        for name, assm, goal in goals:
            t0 = time.time()
            fs = list(assm) + [z3.Not(goal)]
            ax = sym._unfold_only(fs)
            s = z3.Solver()
            s.set('timeout', 10000)
            s.add(*fs)
            s.add(*ax)
            r = s.check()
            res.append(Result('%s/%s' % (self.name, name), self.props, 'proved' if r == z3.unsat else ('failed' if r == z3.sat else 'unknown'),
                              'z3', time.time() - t0, path='lemma', contract=self))
        self.outcomes = []
        return res, {'paths': 0, 'seconds': 0, 'branch_checks': 0, 'outcomes': [], 'dropped': [], 'cover': []}


class DiffIloc(WindowBase):
    """diff_iloc(dfs, new, window): keep exactly the last `window` rows, hand back what left, in order."""
    qual = 'diff_iloc'
    props = ['C07', 'C11', 'C12']
    dfs_pytype = 'deque'        # acc['dfs'] is the deque returned by the previous call (a list only on the very first call)

    def build(self, I):
        st = State()
        I.st = st
        D = z3.Const('dfs0', SeqFrameS)
        new = self.frame('new')
        w = z3.Int('window')
        st.assume(w >= 1)
        st.assume(all_nonempty(D))
        dfs = st.new_list(D, K_FRAME, self.dfs_pytype)
        self.finish(I, {'dfs': dfs, 'new': new, 'window': VInt(w)})
        return None, [dfs, new], {'window': VInt(w)}

    def loop_specs(self):
        return {('diff_iloc', 0): LoopSpec(
            modifies=['local:dfs', 'local:old', 'local:n', 'local:df'],
            invariant=[('rows_conserved_in_order', 'cat(old) + cat(dfs) == old(cat(dfs)) + new'),
                       ('n_is_the_excess', 'n == total(dfs) - window'),
                       ('never_evicts_too_much', 'n >= 0 or len(old) == 0'),
                       ('frames_nonempty', 'nonempty(dfs)')],
            decreases='n', typed_locals={'old': K_FRAME}, props=['C07', 'C11'], name='evict')}

    def spec_funcs(self):
        d = WindowBase.spec_funcs(self)

        def total(I, v):
            t, k = I.seq_term(v)
            return VInt(total_len(t)) if t is not None else VInt(0)
        d['total'] = total
        return d

    def clauses(self):
        return [Clause('C07.rows_conserved_in_order', ['C07', 'C11', 'C12'], when='return',
                       text='cat(result[1]) + cat(result[0]) == old(cat(dfs)) + new',
                       note='old ++ kept == everything (nothing lost, duplicated or reordered)'),
                Clause('C07.keeps_exactly_the_last_window_rows', ['C07', 'C11'], when='return',
                       text='flen(cat(result[0])) == imin(window, flen(old(cat(dfs))) + flen(new))'),
                Clause('C07.no_empty_frame_is_kept', ['C07'], when='return', text='nonempty(result[0])'),
                Clause('C12.argument_not_mutated', ['C12'], when='return', text='list(dfs) == old(list(dfs))',
                       note='the state handed downstream is not changed by later batches (deque(dfs) copies)'),
                Clause('C07.never_raises', ['C07'], when='raise', text='False',
                       note='dfs[0] exists whenever rows still have to be evicted')]


class DiffExpanding(WindowBase):
    qual = 'diff_expanding'
    props = ['C11', 'C12']

    def build(self, I):
        st = State()
        I.st = st
        D = z3.Const('dfs0', SeqFrameS)
        new = self.frame('new')
        dfs = st.new_list(D, K_FRAME)
        self.finish(I, {'dfs': dfs, 'new': new})
        return None, [dfs, new], {'window': NONE}

    def clauses(self):
        return [Clause('C11.expanding_keeps_everything', ['C11', 'C12'], when='return',
                       text='cat(result[0]) == old(cat(dfs)) + new and len(result[1]) == 0 and list(dfs) == old(list(dfs))')]


# --------------------------------------------------------------------------- window_accumulator over an abstract aggregation
f_st = z3.Function('agg_state', SeqRowS, sym.Elem)       # state of the aggregation after exactly these rows
f_res = z3.Function('agg_result', SeqRowS, sym.Elem)     # its value over exactly these rows


class WindowAccumulator(WindowBase):
    """window_accumulator for an arbitrary aggregation `agg` and window policy `diff` that satisfy their contracts:
       agg.initial(new) == state([]);  agg.on_new(state(X), new) == (state(X ++ new), value(X ++ new));
       agg.on_old(state(old ++ R), old) == (state(R), value(R))   (proved for Sum/Count/Size/Mean/Var in c_df_reductions)
       diff(dfs, new, window) == (dfs', old) with cat(old) ++ cat(dfs') == cat(dfs) ++ new  (proved for diff_iloc, ...)"""
    qual = 'window_accumulator'
    name = 'window_accumulator[later batch]'
    props = ['C07', 'C11', 'C12']
    first = False

    def build(self, I):
        st = State()
        I.st = st
        g = st.ghost
        D = z3.Const('dfs0', SeqFrameS)
        new = self.frame('new')
        agg = st.new_obj('AbstractAgg', {})
        if self.first:
            acc = NONE
        else:
            acc = st.new_obj('__strdict__', {'dfs': st.new_list(D, K_FRAME), 'state': VElem(f_st(cat_rows(D)))})
        g['rows_of_state'] = VFrame(z3.Empty(SeqRowS) if self.first else cat_rows(D))
        g['D2'] = VSeq(z3.Const('dfs_after', SeqFrameS), K_FRAME)
        g['OLD'] = VSeq(z3.Const('old_frames', SeqFrameS), K_FRAME)
        self.finish(I, {'acc': acc, 'new': new, 'agg': agg})
        return None, [acc, new], {'diff': VCallable('diff', may_raise=False), 'window': VInt(z3.Int('window')), 'agg': agg}

    def summaries(self):
        def initial(I, recv, args, kwargs):
            return VElem(f_st(z3.Empty(SeqRowS)))

        def on_new(I, recv, args, kwargs):
            state, new = args
            X = z3.Const(sym.fresh_name('X'), SeqRowS)
            I.oblige('agg.on_new.requires_a_state', z3.Exists([X], state.t == f_st(X)) if False else z3.BoolVal(True))
            rows = I.st.ghost['rows_of_state'].t
            I.oblige('agg.on_new.state_describes_the_rows', state.t == f_st(rows), kind='callsite')
            I.st.obligations[-1].props = ['C07', 'C12']
            nr = z3.Concat(rows, new.t)
            I.st.ghost['rows_of_state'] = VFrame(nr)
            return VTuple([VElem(f_st(nr)), VElem(f_res(nr))])

        def on_old(I, recv, args, kwargs):
            state, old = args
            rows = I.st.ghost['rows_of_state'].t
            rest = z3.Const(sym.fresh_name('rest'), SeqRowS)
            # precondition: the state describes old ++ rest
            I.oblige('agg.on_old.removed_rows_are_the_oldest', z3.And(state.t == f_st(rows), z3.PrefixOf(old.t, rows)), kind='callsite')
            I.st.obligations[-1].props = ['C07', 'C12']
            I.st.assume(rows == z3.Concat(old.t, rest))
            I.st.ghost['rows_of_state'] = VFrame(rest)
            return VTuple([VElem(f_st(rest)), VElem(f_res(rest))])
        return {'AbstractAgg.initial': initial, 'AbstractAgg.on_new': on_new, 'AbstractAgg.on_old': on_old}

    def make_interp(self, index):
        I = WindowBase.make_interp(self, index)
        orig = I.call_opaque

        def call_opaque(f, args, kwargs):
            if f.name == 'diff':
                g = I.st.ghost
                dfs, new = args
                t, k = I.seq_term(dfs)
                before = cat_rows(t) if t is not None else z3.Empty(SeqRowS)
                D2, OLD = g['D2'].t, g['OLD'].t
                # contract of the window policy
                I.st.assume(z3.Concat(cat_rows(OLD), cat_rows(D2)) == z3.Concat(before, new.t))
                g['rows_before'] = VFrame(before)
                return VTuple([I.st.new_list(D2, K_FRAME), I.st.new_list(OLD, K_FRAME)])
            return orig(f, args, kwargs)
        I.call_opaque = call_opaque
        return I

    def spec_funcs(self):
        d = WindowBase.spec_funcs(self)

        def dict_display(I, pairs):
            return I.st.new_obj('__strdict__', {k.s: v for k, v in pairs})

        def st_of(I, v):
            return VElem(f_st(v.t))

        def res_of(I, v):
            return VElem(f_res(v.t))
        def rows_now(I):
            return I.st.ghost['rows_of_state']
        d.update({'dict_display': dict_display, 'st_of': st_of, 'res_of': res_of, 'rows_now': rows_now})
        return d

    def build_post(self):
        pass

    def unit(self, I, index):
        run0 = WindowBase.unit(self, I, index)

        def run(I):
            return run0(I)
        return run

    def loop_specs(self):
        return {('window_accumulator', 0): LoopSpec(
            modifies=['local:state', 'local:result', 'ghost:rows_of_state'],
            invariant=[('state_describes_remaining_rows', 'state == st_of(rows_now()) and result == res_of(rows_now())'),
                       ('remaining_rows', 'rows_now() == cat(_R) + cat(D2)')],
            props=['C07', 'C12'], name='decay')}

    def clauses(self):
        return [Clause('C07.state_is_the_aggregation_over_the_window', ['C07', 'C11', 'C12'], when='return',
                       text="result[0]['state'] == st_of(cat(D2)) and list(result[0]['dfs']) == D2",
                       note='acc.state == state(concat(acc.dfs)): the invariant that makes every later step correct'),
                Clause('C07.value_is_the_aggregation_over_the_window', ['C07', 'C11'], when='return',
                       text='result[1] == res_of(cat(D2))',
                       note='the emitted value is the aggregation over exactly the rows the window policy kept'),
                Clause('C12.new_state_is_a_fresh_object_and_the_old_one_is_untouched', ['C12', 'C07'], when='return',
                       fn=self.state_untouched(),
                       note='the state emitted with with_state=True / passed as start= must not be rewritten by later batches')]

    def state_untouched(self):
        def fn(self_, I, o, fr):
            acc = self.pre_args.get('acc')
            if not isinstance(acc, sym.VObj):
                return None                      # first batch: there is no state argument
            res = o.value
            new = res.items[0] if isinstance(res, sym.VTuple) else None
            if isinstance(new, sym.VObj) and new.loc == acc.loc:
                return z3.BoolVal(False)         # the very dict that was passed in is handed back (and was updated in place)
            pre = self.pre_state.heap[acc.loc].fields
            post = o.state.heap[acc.loc].fields
            if set(pre) != set(post):
                return z3.BoolVal(False)
            from .core_common import values_equal_across
            return z3.And([values_equal_across(I, self.pre_state, pre[k], o.state, post[k]) for k in pre])
        return fn


class WindowAccumulatorFirst(WindowAccumulator):
    name = 'window_accumulator[first batch]'
    first = True


ALL = [WindowLemmas, DiffIloc, DiffExpanding, WindowAccumulator, WindowAccumulatorFirst]


# --------------------------------------------------------------------------- diff_loc (time windows)
f_ts = z3.Function('row_ts', Row, z3.IntSort())          # index value of a row, in ns
all_le = sym.SpecFun('all_le', [z3.IntSort()], SeqRowS, z3.BoolSort(), zero=lambda b: z3.BoolVal(True),
                     one=lambda b, r: f_ts(r) <= b, plus=lambda x, y: z3.And(x, y))
all_gt = sym.SpecFun('all_gt', [z3.IntSort()], SeqRowS, z3.BoolSort(), zero=lambda b: z3.BoolVal(True),
                     one=lambda b, r: f_ts(r) > b, plus=lambda x, y: z3.And(x, y))


class VIndex(sym.Value):
    frame_like = True

    def __init__(self, frame):
        self.frame = frame


class DiffLoc(WindowBase):
    """diff_loc(dfs, new, window=T) over rows with an integer (ns) index that is non-decreasing across all rows:
    keeps exactly the rows with  mx - index < T  (mx = newest index), hands back the others, in order."""
    qual = 'diff_loc'
    props = ['C07', 'C12']
    dfs_pytype = 'deque'
    unclaimed_outcomes = {'raise:IndexError': 'diff_loc: IndexError from dfs[0] on an emptied deque is not excluded by the loop '
                                              'invariant (that the newest row is never evicted is not proved); nothing is claimed about that path'}
    assumptions = ('the index is non-decreasing across the concatenation of all frames (precondition of the property); hence '
                   'frame.index.min()/max() are the index of its first/last row and max over the frames is the index of the last row',
                   'frame.loc[:b] on a sorted index returns the prefix of rows with index <= b (label slices are inclusive) (trusted)',
                   'L-SORT instance used at loop exit: if the first remaining row has index >= mn then every remaining row has')

    def build(self, I):
        st = State()
        I.st = st
        g = st.ghost
        D = z3.Const('dfs0', SeqFrameS)
        new = self.frame('new')
        T = z3.Int('window_ns')
        st.assume(T >= 1)
        st.assume(all_nonempty(D))
        dfs = st.new_list(D, K_FRAME, self.dfs_pytype)
        mx = z3.Int('mx')
        g['mx'] = VInt(mx)
        g['T'] = VInt(T)
        # sorted index: every row is <= the newest index mx
        All = z3.Concat(cat_rows(D), new.t)
        st.assume(all_le(mx, All))
        self.finish(I, {'dfs': dfs, 'new': new, 'window': VInt(T)})
        return None, [dfs, new], {'window': VInt(T)}

    def frame_index_extra(self, I, ix, sl, fr):
        v = ix.frame
        if ix.kind == 'loc' and isinstance(sl, ast.Slice) and sl.lower is None and sl.upper is not None and sl.step is None:
            b = I.num(I.eval(sl.upper, fr))
            A = z3.Const(sym.fresh_name('locA'), SeqRowS)
            B = z3.Const(sym.fresh_name('locB'), SeqRowS)
            # TRUSTED contract of label slicing on a sorted index
            I.st.assume(v.t == z3.Concat(A, B))
            I.st.assume(all_le(b, A))
            I.st.assume(all_gt(b, B))
            I.st.ghost['_frame_splits'] = I.st.ghost.get('_frame_splits', []) + [(v.t, z3.Length(A), A, B)]
            return VFrame(A)
        raise Unsupported('frame indexing')

    def spec_funcs(self):
        d = WindowBase.spec_funcs(self)
        base_attr = d['frame_attr']

        def frame_attr(I, v, name):
            if isinstance(v, VFrame) and name == 'index':
                return VIndex(v)
            return base_attr(I, v, name)

        def frame_method(I, v, name, args, kwargs):
            if isinstance(v, VIndex):
                t = v.frame.t
                if name == 'min':
                    return VInt(f_ts(t[0]))
                if name == 'max':
                    return VInt(f_ts(t[z3.Length(t) - 1]))
            raise Unsupported('frame method %s' % name)

        def comprehension(I, e, fr):
            # max(df.index.max() for df in dfs): the newest index (sorted index: trusted)
            if ast.unparse(e.elt) == 'df.index.max()':
                r = VBuiltin('genmax')
                return r
            return None

        def max_(I, args, kwargs, fr):
            if len(args) == 1 and isinstance(args[0], VBuiltin) and args[0].name == 'genmax':
                return I.st.ghost['mx']
            from pyvc.interp import _b_max
            return _b_max(I, args, kwargs, fr)

        def timedelta(I, args, kwargs, fr):
            a = args[0]
            if isinstance(a, VStr):
                assert a.s == '1ns'
                return VInt(1)
            return a

        def timestamp(I, args, kwargs, fr):
            return args[0]

        def le_all(I, b, rows):
            return VBool(all_le(I.num(b), rows.t))

        def gt_all(I, b, rows):
            return VBool(all_gt(I.num(b), rows.t))
        d.update({'frame_attr': frame_attr, 'frame_method': frame_method, 'comprehension': comprehension, 'builtin_max': max_,
                  'builtin_pd.Timedelta': timedelta, 'builtin_pd.Timestamp': timestamp, 'le_all': le_all, 'gt_all': gt_all})
        return d

    def make_interp(self, index):
        I = WindowBase.make_interp(self, index)
        from pyvc import interp as interp_mod
        orig = I.call

        def call(f, args, kwargs, fr, node=None):
            if isinstance(f, VBuiltin) and f.name == 'max':
                return self.spec_funcs()['builtin_max'](I, args, kwargs, fr)
            return orig(f, args, kwargs, fr, node)
        I.call = call
        return I

    def loop_specs(self):
        return {('diff_loc', 0): LoopSpec(
            modifies=['local:dfs', 'local:old', 'local:o'],
            invariant=[('rows_conserved_in_order', 'cat(old) + cat(dfs) == old(cat(dfs)) + new'),
                       ('removed_rows_are_outside_the_window', 'le_all(mx - T, cat(old))'),
                       ('frames_nonempty', 'nonempty(dfs)')],
            typed_locals={'old': K_FRAME}, props=['C07'], name='evict')}

    def clauses(self):
        return [Clause('C07.rows_conserved_in_order', ['C07', 'C12'], when='return',
                       text='cat(result[1]) + cat(result[0]) == old(cat(dfs)) + new'),
                Clause('C07.removed_rows_are_exactly_those_outside_the_window', ['C07'], when='return',
                       text='le_all(mx - T, cat(result[1]))',
                       note='a row is dropped only if newest_index - its index >= T'),
                Clause('C12.argument_not_mutated', ['C12'], when='return', text='list(dfs) == old(list(dfs))')]


class DiffLocFirstCall(DiffLoc):
    name = 'diff_loc[dfs is a list]'
    dfs_pytype = 'list'


class DiffIlocFirstCall(DiffIloc):
    name = 'diff_iloc[dfs is a list]'
    dfs_pytype = 'list'


ALL += [DiffLoc, DiffLocFirstCall, DiffIlocFirstCall]
