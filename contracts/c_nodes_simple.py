"""Step contracts of the simple synchronous nodes of streamz/core.py.

Postconditions are transcribed from the property statements / docstrings
(list-level meaning), not from the bodies.
"""
import z3
from pyvc import sym
from pyvc.sym import (VInt, VBool, VNone, VStr, VElem, VSeq, VList, VTuple, VRef, VCallable,
                      K_ELEM, K_MDE, K_MD, K_AW, K_INT)
from pyvc.contract import Clause
from pyvc.interp import NONE
from .core_common import NodeUpdate, R

ARGS = VElem(z3.Const('ctor_args', sym.Elem))
KWARGS = VElem(z3.Const('ctor_kwargs', sym.Elem))

PASS_THROUGH_PLUMBING = [
    Clause('C03.returns_emit_result', ['C03'], text='result == emit_rets[0]', when='return',
           note="update returns what _emit returned (the downstream awaitables reach the emitter)"),
]


def user_raise_clauses(c, emitted_nothing=True):
    """C16: the user function of this node raised."""
    return [
        Clause('C16.exception_propagates', ['C16'], fn=c.same_exception_clause('UserError'), when='raise:UserError',
               kind='same_exception', replay={'exc': 'UserError'}),
        Clause('C16.state_unchanged', ['C16'], fn=c.frame_clause(), when='raise:UserError', kind='frame',
               replay={'frame_fields': list(c.data_fields)},
               note='node keeps the state it had before the call'),
        Clause('C16.nothing_emitted', ['C16'], text='emitted == old(emitted)', when='raise:UserError'),
        Clause('C16.no_net_release', ['C16', 'C04'], text='delta >= 0', when='raise:UserError',
               note='no hold is given up on the failure path'),
    ]


def downstream_raise_clauses(c):
    return [
        Clause('C16.downstream_exception_propagates', ['C16'], fn=c.same_exception_clause('DownstreamError'),
               when='raise:DownstreamError', kind='same_exception', replay={'exc': 'DownstreamError'}),
    ]


class MapUpdate(NodeUpdate):
    cls = 'map'
    # C06/C07/C11/C12: every elementwise operation of the streaming dataframes (map_partitions) is a `map` node
    props = ['C01', 'C03', 'C05', 'C10', 'C16', 'C06', 'C07', 'C11', 'C12']

    def make_self(self, I):
        return {'func': VCallable('func'), 'args': ARGS, 'kwargs': KWARGS}

    def clauses(self):
        return [
            Clause('C01.one_output_per_input', ['C01'],
                   text='emitted == [self.func(x, *self.args, **self.kwargs)]'),
            Clause('C10.metadata_unchanged', ['C10'], text='emitted_md == [metadata]'),
        ] + PASS_THROUGH_PLUMBING + self.standard_clauses() + user_raise_clauses(self) + downstream_raise_clauses(self)


class StarmapUpdate(NodeUpdate):
    cls = 'starmap'
    props = ['C01', 'C03', 'C05', 'C10', 'C16']

    def make_self(self, I):
        return {'func': VCallable('func'), 'args': ARGS, 'kwargs': KWARGS}

    def clauses(self):
        return [
            Clause('C01.one_output_per_input', ['C01'],
                   text='emitted == [self.func(*(x + self.args), **self.kwargs)]'),
            Clause('C10.metadata_unchanged', ['C10', 'C09'], text='emitted_md == [metadata]',
                   note='from_kafka_batched hands out a starmap node: the commit counter of a batch must travel with it (C09)'),
        ] + PASS_THROUGH_PLUMBING + self.standard_clauses() + user_raise_clauses(self) + downstream_raise_clauses(self)


class FilterUpdate(NodeUpdate):
    cls = 'filter'
    props = ['C01', 'C03', 'C05', 'C10', 'C16']

    def make_self(self, I):
        return {'predicate': VCallable('predicate'), 'args': ARGS, 'kwargs': KWARGS}

    def clauses(self):
        return [
            Clause('C01.passes_iff_predicate', ['C01'],
                   text='emitted == ([x] if self.predicate(x, *self.args, **self.kwargs) else [])'),
            Clause('C10.metadata_unchanged', ['C10'],
                   text='emitted_md == ([metadata] if self.predicate(x, *self.args, **self.kwargs) else [])'),
            Clause('C03.returns_emit_result', ['C03'],
                   text='implies(len(emit_rets) == 1, result == emit_rets[0])'),
        ] + self.standard_clauses() + user_raise_clauses(self) + downstream_raise_clauses(self)


class FilterTruthy(NodeUpdate):
    """filter(None): the predicate is streamz.core._truthy (inlined)."""
    cls = 'filter'
    name = 'filter.update[predicate=None]'
    props = ['C01', 'C05', 'C10', 'C16']
    inline = ('_truthy',)

    def make_self(self, I):
        rel, node = I.index.function('_truthy')
        return {'predicate': sym.VFunc('_truthy', node), 'args': VTuple([]), 'kwargs': VStr('__kwargs__')}

    def spec_funcs(self):
        d = NodeUpdate.spec_funcs(self)
        return d

    def clauses(self):
        return [
            Clause('C01.passes_iff_truthy', ['C01'], text='emitted == ([x] if x else [])'),
            Clause('C10.metadata_unchanged', ['C10'], text='emitted_md == ([metadata] if x else [])'),
        ] + self.standard_clauses() + downstream_raise_clauses(self)


class UnionUpdate(NodeUpdate):
    cls = 'union'
    props = ['C01', 'C02', 'C03', 'C05', 'C10', 'C16']

    def make_self(self, I):
        return {}

    def clauses(self):
        return [
            Clause('C01.passes_everything_in_arrival_order', ['C01', 'C02'], text='emitted == [x]'),
            Clause('C10.metadata_unchanged', ['C10'], text='emitted_md == [metadata]'),
        ] + PASS_THROUGH_PLUMBING + self.standard_clauses() + downstream_raise_clauses(self)


class StreamUpdate(UnionUpdate):
    cls = 'Stream'


class PluckUpdate(NodeUpdate):
    cls = 'pluck'
    props = ['C01', 'C03', 'C05', 'C10']

    def make_self(self, I):
        return {'pick': VElem(z3.Const('pick', sym.Elem))}

    def clauses(self):
        return [
            Clause('C01.plucks_item', ['C01'], text='emitted == [x[self.pick]]'),
            Clause('C10.metadata_unchanged', ['C10'], text='emitted_md == [metadata]'),
        ] + PASS_THROUGH_PLUMBING + self.standard_clauses() + downstream_raise_clauses(self)


class PluckUpdateTupleKey(PluckUpdate):
    """pick is a tuple that is ONE key of the elements (e.g. a (row, col) pair): only a *list* pick means several items"""
    name = 'pluck.update[pick is a tuple key]'

    def make_self(self, I):
        return {'pick': VTuple([VElem(z3.Const('pick_a', sym.Elem)), VElem(z3.Const('pick_b', sym.Elem))])}


class PluckUpdateListPick(PluckUpdate):
    """pick is a list of two keys: the output is the tuple of the two items"""
    name = 'pluck.update[pick is a list]'

    def make_self(self, I):
        t = z3.Concat(z3.Unit(z3.Const('pick_a', sym.Elem)), z3.Unit(z3.Const('pick_b', sym.Elem)))
        return {'pick': I.st.new_list(t, K_ELEM)}

    def clauses(self):
        return [
            Clause('C01.plucks_the_listed_items_as_a_tuple', ['C01'], text='emitted == [tup([x[self.pick[0]], x[self.pick[1]]])]'),
            Clause('C10.metadata_unchanged', ['C10'], text='emitted_md == [metadata]'),
        ] + PASS_THROUGH_PLUMBING + self.standard_clauses() + downstream_raise_clauses(self)


class AccumulateUpdate(NodeUpdate):
    cls = 'accumulate'
    # accumulate is the node every streaming dataframe aggregation runs on (Frame.aggregate, Window.aggregate, GroupBy._accumulate,
    # rolling / cumulative ops): its step contract (state committed before the emission, state kept on failure) carries C06, C07, C11
    props = ['C01', 'C03', 'C05', 'C10', 'C12', 'C16', 'C06', 'C07', 'C11']
    data_fields = ('state',)
    assumptions = ('when returns_state is set the user function returns a pair (state, result)',)

    def make_self(self, I):
        return {'func': VCallable('func'), 'kwargs': KWARGS,
                'state': VElem(z3.Const('state0', sym.Elem)),
                'returns_state': VBool(z3.Bool('returns_state')),
                'with_state': VBool(z3.Bool('with_state'))}

    def globals(self):
        return {'no_default': VElem(sym.str_elem('--no-default--'))}

    def clauses(self):
        nd = "self.state is no_default"
        new_state = ("(x if old(%s) else (fst(self.func(old(self.state), x, **self.kwargs)) if self.returns_state "
                     "else self.func(old(self.state), x, **self.kwargs)))" % nd)
        res = ("(x if old(%s) else (snd(self.func(old(self.state), x, **self.kwargs)) if self.returns_state "
               "else self.func(old(self.state), x, **self.kwargs)))" % nd)
        return [
            Clause('C01.state_is_fold', ['C01', 'C12'], text='self.state == ' + new_state,
                   note='new state is func(old state, x) (first element seeds the state when no start was given)'),
            Clause('C01.emits_fold_value', ['C01', 'C12'],
                   text='emitted == [((self.state, %s) if self.with_state else %s)]' % (res, res)),
            Clause('C12.emitted_state_is_stored_state', ['C12'],
                   text='implies(self.with_state, fst(emitted[0]) == self.state)',
                   note='R1: the state exposed with with_state is the state the node keeps'),
            Clause('C10.metadata_unchanged', ['C10'], text='emitted_md == [metadata]'),
            Clause('C12.a_state_that_was_emitted_stays_the_stored_state_when_a_consumer_fails', ['C12', 'C16'], when='raise:DownstreamError',
                   text='self.state == ' + new_state,
                   note='the element was folded in and the resulting state / value has been handed to the consumers (an earlier '
                        'sibling may have recorded it as a checkpoint): taking it back would make the pipeline continue from a state '
                        'nobody can resume from'),
        ] + PASS_THROUGH_PLUMBING + self.standard_clauses() + user_raise_clauses(self) + downstream_raise_clauses(self)


class SinkUpdate(NodeUpdate):
    cls = 'sink'
    file = 'streamz/sinks.py'
    props = ['C01', 'C03', 'C16']

    def make_self(self, I):
        return {'func': VCallable('func'), 'args': ARGS, 'kwargs': KWARGS}


ALL = [MapUpdate, StarmapUpdate, FilterUpdate, FilterTruthy, UnionUpdate, StreamUpdate, PluckUpdate, PluckUpdateTupleKey, PluckUpdateListPick,
       AccumulateUpdate]
