"""Abstract model of pandas batches for the aggregation algebra (C06, C07, C11, C12).

A batch (Series or DataFrame) is its sequence of rows, sort Seq(Row).  The pandas reductions are uninterpreted
functions that are *additive over row concatenation* (assumed pandas contract, DESIGN section 3):
    S = sum, C = count of non-NaN values, N = size, Q = sum of squares      h([]) = 0,  h(a ++ b) = h(a) + h(b)
For a DataFrame the reductions are per-column vectors; one arbitrary column is modelled (VVec), so every obligation
holds for each column.  Group-by reductions are the same per group key; one arbitrary key k is modelled.
Reals stand in for floats (no rounding; NaN only where modelled explicitly)."""
import ast
import z3
from pyvc import sym
from pyvc.sym import (VFrame, VVec, VInt, VReal, VBool, VNone, VStr, VElem, VSeq, VList, VTuple, VRef, VObj, VBuiltin,
                      Value, K_INT)
from pyvc.state import State, PyRaise, Unsupported
from pyvc.contract import Contract, Clause
from pyvc.interp import NONE, Frame

Row = sym.Row
SeqRowS = z3.SeqSort(Row)
RealS = z3.RealSort()

f_s1 = z3.Function('row_sum', Row, RealS)
f_c1 = z3.Function('row_count', Row, RealS)      # 1 if the value is not NaN else 0
f_n1 = z3.Function('row_size', Row, RealS)
f_q1 = z3.Function('row_sq', Row, RealS)


def _additive(name, one, nonneg=False):
    return sym.SpecFun(name, [], SeqRowS, RealS, zero=lambda: z3.RealVal(0), one=one, plus=lambda a, b: a + b, nonneg=nonneg)


# pandas reductions skip missing values: a row whose value is missing (row_count == 0) contributes nothing to sum and sum of squares
S = _additive('S_sum', lambda r: z3.If(f_c1(r) == 0, z3.RealVal(0), f_s1(r)))
C = _additive('C_count', lambda r: f_c1(r), nonneg=True)
N = _additive('N_size', lambda r: f_n1(r), nonneg=True)
Q = _additive('Q_sumsq', lambda r: z3.If(f_c1(r) == 0, z3.RealVal(0), f_q1(r)), nonneg=True)
C.consequences = (lambda r: f_c1(r) >= 0, lambda r: f_q1(r) >= 0)


def _nan_lemma(formulas):
    """L-NAN (proved by induction in c_df_reductions.DfLemmas): C(t) == 0  ==>  S(t) == 0 and Q(t) == 0
    (a batch without a single valid value adds nothing to the running sums)."""
    out, seen, apps = [], set(), []
    for f in formulas:
        sym._walk(f, seen, apps)
    for sf, app in apps:
        if sf is S or sf is Q:
            t = app.arg(0)
            out.append(z3.Implies(C(t) == 0, z3.And(S(t) == 0, Q(t) == 0)))
    return out


sym.EXTRA_LEMMAS.append(_nan_lemma)
# per-row facts behind nonneg (assumed): counts and sizes of single rows are >= 0 -- carried by `nonneg`


class VIndexer(Value):
    frame_indexer = True

    def __init__(self, frame, kind):
        self.frame = frame
        self.kind = kind


class FrameModel:
    """spec_funcs hooks implementing the frame abstraction; `vector` selects DataFrame (vector) vs Series (scalar)."""
    vector = False

    def red(self, term):
        return VVec(term) if self.vector else VReal(term)

    def frame_hooks(self):
        def frame_len(I, v):
            return VInt(z3.Length(v.t))

        def frame_attr(I, v, name):
            if name in ('iloc', 'loc'):
                return VIndexer(v, name)
            if name == 'size':
                return self.red(N(v.t))
            return None

        def frame_method(I, v, name, args, kwargs):
            if name == 'sum':
                return self.red(Q(v.t) if v.tag == 'squared' else S(v.t))
            if name == 'count':
                return self.red(C(v.t))
            if name == 'dropna' and not args and not kwargs:
                # rows without any missing value (assumed pandas contract).  Series: the reductions that skip NaN are
                # unchanged and every remaining row counts.  DataFrame: a row is dropped when ANY column is missing, so for
                # the one modelled column only  "what remains has no NaN and is not longer than the frame"  is known.
                D = z3.Const(sym.fresh_name('dropna'), SeqRowS)
                I.st.assume(z3.Length(D) <= z3.Length(v.t))
                I.st.assume(C(D) == z3.ToReal(z3.Length(D)))
                I.st.assume(N(D) == z3.ToReal(z3.Length(D)))
                if not self.vector:
                    I.st.assume(S(D) == S(v.t))
                    I.st.assume(Q(D) == Q(v.t))
                    I.st.assume(C(D) == C(v.t))
                return VFrame(D)
            raise Unsupported('frame method %s' % name)

        def frame_binop(I, op, a, b):
            if isinstance(op, ast.Pow) and isinstance(a, VFrame):
                e = z3.simplify(I.num(b))
                if z3.is_int_value(e) and e.as_long() == 2:
                    return VFrame(a.t, tag='squared')
            if isinstance(op, ast.Add) and I.spec_mode and isinstance(a, VFrame) and isinstance(b, VFrame):
                return VFrame(z3.Concat(a.t, b.t))      # specification only: row concatenation
            raise Unsupported('frame operator %s' % type(op).__name__)

        def split(I, t, n):
            """t == A ++ B with len(A) == min(max(n, 0), len(t)); remembered so that [:n] and [n:] agree"""
            g = I.st.ghost
            for (ht, hn, A, B) in g.get('_frame_splits', []):
                if ht.eq(t) and hn.eq(n):
                    return A, B
            A = z3.Const(sym.fresh_name('fA'), SeqRowS)
            B = z3.Const(sym.fresh_name('fB'), SeqRowS)
            I.st.assume(t == z3.Concat(A, B))
            ln = z3.Length(t)
            I.st.assume(z3.Length(A) == z3.If(n <= 0, 0, z3.If(n >= ln, ln, n)))
            g['_frame_splits'] = g.get('_frame_splits', []) + [(t, n, A, B)]
            return A, B

        def py_start(I, t, b):
            """start offset of t[b:] with Python slice semantics (negative b counts from the end; -0 == 0)"""
            ln = z3.Length(t)
            return z3.If(b < 0, z3.If(ln + b < 0, 0, ln + b), z3.If(b > ln, ln, b))

        def frame_index(I, ix, sl, fr):
            v = ix.frame
            if ix.kind == 'iloc' and isinstance(sl, ast.Slice) and sl.step is None:
                if sl.lower is None and sl.upper is not None:
                    n = z3.simplify(I.num(I.eval(sl.upper, fr)))
                    if z3.is_int_value(n) and n.as_long() == 0:
                        return VFrame(z3.Empty(SeqRowS))
                    A, B = split(I, v.t, z3.simplify(py_start(I, v.t, n)))
                    return VFrame(A)
                if sl.upper is None and sl.lower is not None:
                    n = z3.simplify(I.num(I.eval(sl.lower, fr)))
                    A, B = split(I, v.t, z3.simplify(py_start(I, v.t, n)))
                    return VFrame(B)
            h = getattr(self, 'frame_index_extra', None)
            if h is not None:
                return h(I, ix, sl, fr)
            raise Unsupported('frame indexing %s[%s]' % (ix.kind, ast.unparse(sl)))
        return {'frame_len': frame_len, 'frame_attr': frame_attr, 'frame_method': frame_method,
                'frame_binop': frame_binop, 'frame_index': frame_index}

    def oracle_funcs(self):
        def mk(h):
            def f(I, v):
                t = v.t if isinstance(v, VFrame) else I.seq_term(v)[0]
                return self.red(h(t))
            return f

        def rows(I, *frames):
            ts = [f.t for f in frames]
            return VFrame(ts[0] if len(ts) == 1 else z3.Concat(*ts))

        def implies_(I, a, b):
            return VBool(z3.Implies(I.truth(a), I.truth(b)))
        return {'S': mk(S), 'C': mk(C), 'N': mk(N), 'Q': mk(Q), 'rows': rows, 'implies': implies_}


class DfContract(FrameModel, Contract):
    file = 'streamz/dataframe/aggregations.py'
    files = ['streamz/dataframe/aggregations.py']
    harness = 'df_harness'
    assumptions = ('pandas reductions sum/count/size/(x**2).sum() are additive over row concatenation and zero on the empty '
                   'frame (assumed pandas contract; bounded conformance check in bounded/pandas_conformance.py)',
                   'reals stand in for floats; numpy scalar division by zero does not raise')

    def spec_funcs(self):
        d = self.frame_hooks()
        d.update(self.oracle_funcs())

        def augassign_hook(I, stmt, cur, fr):
            # `a += b` on a pandas object updates it IN PLACE.  Per-column vectors (VVec) and frames are pandas objects;
            # if the object is (part of) the state that was passed in, the caller's copy of the state changes under its
            # feet: the state emitted with with_state=True / passed as start= would be rewritten by later batches (C12).
            if not isinstance(cur, (VVec, VFrame)):
                return
            pre = getattr(self, 'pre_args', {})
            ids = set()

            def walk(v):
                ids.add(id(v))
                for it in getattr(v, 'items', []) or []:
                    walk(it)
            for name, v in pre.items():
                if name not in ('self', 'agg'):
                    walk(v)
            if id(cur) in ids:
                I.oblige('C12.state_passed_in_is_not_updated_in_place', z3.BoolVal(False), kind='callsite',
                         note='augmented assignment `%s` updates a pandas object that belongs to the state argument' % ast.unparse(stmt))
                I.st.obligations[-1].props = ['C12']
        d['augassign_hook'] = augassign_hook
        return d

    def make_interp(self, index):
        I = Contract.make_interp(self, index)
        I.total_division = True
        return I

    def globals(self):
        return {'Number': sym.VClass('Number'), 'np': VBuiltin('np'), 'pd': VBuiltin('pd'), 'deque': VBuiltin('deque')}

    def finish(self, I, args):
        self.pre_args = args
        self.pre_state = I.st.snapshot()
        I.st.ghost['_pre'] = (self.pre_state, self.pre_args)
        I.contract_pre = self.pre_state
        I.contract_pre_frame = self.pre_frame(I)

    def frame(self, name):
        return VFrame(z3.Const(name, SeqRowS))
