"""C18 for the polling dataframe sources (streamz/dataframe/core.py: PeriodicDataFrame, Random): start / stop act on the ONE flag cell
that the running polling coroutine was given (`continue_`, a one-element list shared by reference), so that stop() is seen by the
coroutine and a second start() cannot run next to a loop that is still alive."""
import z3
from pyvc import sym
from pyvc.sym import VInt, VReal, VBool, VElem, VRef, VTuple, VBuiltin, K_BOOL
from pyvc.contract import Clause
from .async_common import Segment

DF = 'streamz/dataframe/core.py'


class PeriodicSeg(Segment):
    file = DF
    files = [DF, 'streamz/core.py', 'streamz/sources.py']
    cls = 'PeriodicDataFrame'
    harness = None
    props = ['C18']
    reentrancy_generic = False
    assumptions = ('loop.add_callback(f, *args) runs f(*args) exactly once in a later segment (trusted)',
                   'the polling coroutine reads the flag only through the list object it was started with (PeriodicDataFrame._cb '
                   'is a staticmethod: it has no other access)')

    def make_self(self, I):
        flag = z3.Bool('running0')
        # ghost: live = number of polling coroutines that were scheduled and have not exited yet.  A loop that is running has its
        # coroutine; after stop() the coroutine may still be suspended inside its last cycle (live == 1 with the flag cleared)
        g = I.st.ghost
        g['live'] = VInt(z3.Int('live0'))
        I.st.assume(z3.And(g['live'].t >= 0, g['live'].t <= 1))
        I.st.assume(z3.Implies(flag, g['live'].t == 1))
        return {'continue_': I.st.new_list(z3.Unit(flag), K_BOOL), 'interval': VReal(z3.Real('interval')),
                'source': VRef(z3.Const('source', sym.Obj), 'Source'), 'kwargs': VElem(z3.Const('kwargs0', sym.Elem))}

    def make_locals(self, I, selfv):
        return {'self': selfv}

    def spec_funcs(self):
        d = Segment.spec_funcs(self)

        def is_cb(I, v):
            return VBool(isinstance(v, sym.VFunc) and v.qual.endswith('._cb'))
        d['is_polling_coroutine'] = is_cb

        def flag_now(I, lst):
            # the present content of a flag cell (a list object), e.g. of the one the attribute referred to before the call
            return VBool(I.st.list_cell(lst.loc).term[0])
        d['flag_now'] = flag_now
        return d


class PeriodicStop(PeriodicSeg):
    method = 'stop'

    def clauses(self):
        return [Clause('C18.stop_clears_the_flag_cell_the_polling_loop_reads', ['C18'], when='return',
                       text='self.continue_ is old(self.continue_) and len(self.continue_) == 1 and not self.continue_[0]',
                       note='the running coroutine holds the list object itself: rebinding the attribute to a new list leaves the '
                            'loop running for ever and lets a later start() add a second one'),
                Clause('C18.stop_starts_nothing', ['C18'], when='return', text='len(callbacks) == 0'),
                Clause('C18.stop_never_fails', ['C18'], when='raise', text='False')]


class PeriodicStart(PeriodicSeg):
    method = 'start'

    def clauses(self):
        return [Clause('C18.start_of_a_running_source_has_no_effect', ['C18'], when='return',
                       text='implies(old(self.continue_[0]), len(callbacks) == 0 and self.continue_ is old(self.continue_) '
                            'and self.continue_[0])'),
                Clause('C18.start_schedules_exactly_one_polling_loop_on_the_flag_cell_stop_will_clear', ['C18'], when='return',
                       text='implies(not old(self.continue_[0]), len(callbacks) == 1 and is_polling_coroutine(callbacks[0][0]) '
                            'and callbacks[0][1] == self.interval and callbacks[0][2] == self.source '
                            'and callbacks[0][3] is self.continue_ and len(self.continue_) == 1 and self.continue_[0])'),
                Clause('C18.at_most_one_polling_loop', ['C18'], when='return', kind='protocol',
                       replay={'scenario': 'periodic_restart_two_loops'},
                       text='implies(live == 1 and len(callbacks) >= 1, not flag_now(old(self.continue_)))',
                       note='P1: a coroutine of an earlier start() that is still suspended inside its cycle must find its own flag '
                            'cell cleared when it wakes up, otherwise it keeps polling next to the newly scheduled one'),
                Clause('C18.start_never_fails', ['C18'], when='raise', text='False')]


class RandomStop(PeriodicStop):
    cls = 'Random'


class RandomStart(PeriodicStart):
    cls = 'Random'


ALL = [PeriodicStop, PeriodicStart, RandomStop, RandomStart]


class PeriodicLoop(PeriodicSeg):
    """`PeriodicDataFrame._cb(interval, source, continue_)`, the polling coroutine (a staticmethod: the flag cell it was started
    with is its only view of start/stop): segment 0 = entry to the first sleep, 1 = after the sleep to the awaited emission,
    2 = after the emission to the next sleep or the end."""
    method = '_cb'
    start = 0
    props = ['C18', 'C03']

    def make_locals(self, I, selfv):
        cell = I.st.heap[selfv.loc].fields['continue_']
        loc = {'interval': VReal(z3.Real('interval_arg')), 'source': I.st.new_obj('Source', self.base_fields()), 'continue_': cell}
        if self.start >= 1:
            loc['last'] = VElem(z3.Const('last', sym.Elem))
        if self.start >= 2:
            loc['now'] = VElem(z3.Const('now', sym.Elem))
        I.st.ghost['stamps'] = VInt(0)
        return loc

    def globals(self):
        d = PeriodicSeg.globals(self)
        d['pd'] = VBuiltin('pd')
        return d

    def spec_funcs(self):
        d = PeriodicSeg.spec_funcs(self)

        def now(I, args, kwargs, fr):
            I.st.ghost['stamps'] = VInt(I.st.ghost['stamps'].t + 1)
            return VElem(z3.Const(sym.fresh_name('timestamp'), sym.Elem))
        d['builtin_pd.Timestamp.now'] = now

        def dict_(I, args, kwargs, fr):
            # dict(last=..., now=...): the element handed to the source, an opaque record of its two fields
            return VElem(sym.user_func('record:' + ','.join(sorted(kwargs)), len(kwargs))(*[I.as_elem(kwargs[k]) for k in sorted(kwargs)]))
        d['builtin_dict'] = dict_

        def gather(I, args, kwargs, fr):
            I.st.ghost['gathered'] = VTuple([a[1] if isinstance(a, tuple) else a for a in args])
            return sym.VAw(z3.Const(sym.fresh_name('gather'), sym.Aw))
        d['builtin_asyncio.gather'] = gather
        return d

    def clauses(self):
        if self.start == 1:
            return [Clause('C18.one_emission_per_cycle_awaited_before_the_next', ['C18', 'C03'], when='yield:2',
                           text='len(emitted) == 1 and len(gathered) == 1 and gathered[0] == emit_rets[0] and len(sleeps) == 0',
                           note='the cycle in progress may finish after stop(); its emission is awaited before anything else happens')]
        return [Clause('C18.a_new_cycle_begins_only_while_the_flag_cell_is_set', ['C18'], when='yield:1',
                       text='continue_[0] and len(sleeps) == 1 and sleeps[0] == interval and emitted == []',
                       note='P2: after stop() (cell cleared) no further sleep / poll is started'),
                Clause('C18.the_loop_ends_once_its_flag_cell_is_cleared', ['C18'], when='return',
                       text='not continue_[0] and emitted == [] and len(sleeps) == 0')]


class PeriodicLoopAfterSleep(PeriodicLoop):
    start = 1


class PeriodicLoopAfterEmission(PeriodicLoop):
    start = 2


ALL += [PeriodicLoop, PeriodicLoopAfterSleep, PeriodicLoopAfterEmission]
