"""Constructors of the node classes (streamz/core.py): the parameters a user passes must end up, unchanged, in the fields the step
functions read (queue bounds, window sizes, intervals, keys, flags, start states), the node-specific keyword arguments must not
leak into Stream.__init__, and the buffers start empty.  The step contracts (contracts/c_nodes_*.py, c_async.py) quantify over
the values of these fields; these contracts connect the fields to what the user wrote.

Callees (Stream.__init__, Queue, asyncio.Queue, convert_interval, loop.add_callback, ...) are Herbrand summaries as in
contracts/c_df_wiring.py."""
import z3
from pyvc import sym
from pyvc.sym import (VInt, VBool, VNone, VStr, VElem, VSeq, VList, VTuple, VRef, VObj, VBuiltin, VFunc, K_ELEM, K_OBJ)
from pyvc.state import State, Unsupported
from pyvc.contract import Contract, Clause
from pyvc.interp import NONE
from .c_df_wiring import herbrand, _elem

CORE = 'streamz/core.py'


class Init(Contract):
    file = CORE
    files = [CORE]
    cls = None
    params = ()                 # positional/keyword parameters of __init__ given by the caller (opaque values)
    kw = ()                     # node-specific entries of **kwargs given by the caller (opaque values)
    fields = {}                 # field name -> specification text of its value after construction
    extra = ()                  # further clause texts
    uses_loop = False
    varargs = 0                 # number of positional (*upstreams) arguments: opaque, pairwise distinct streams
    method = '__init__'
    self_fields = ()            # opaque attributes the object already has (for methods other than __init__)
    self_refs = ()              # attributes that are objects with methods
    positional = False          # pass `params` positionally, in the documented order (the signature order is part of the API)
    base = 'Stream'             # the base constructor that must be called
    props = ['C01']
    assumptions = ('Stream.__init__, queue constructors, convert_interval and IOLoop.add_callback are summarised as uninterpreted '
                   'functions of their arguments (their own contracts: c_loop.py Stream.__init__, bounded check of convert_interval)',)

    def __init__(self):
        self.qual = '%s.%s' % (self.cls, self.method)
        self.name = getattr(self, 'name', None) or self.qual
        Contract.__init__(self)

    def build(self, I):
        st = State()
        I.st = st
        g = st.ghost
        g['base_init'] = VTuple([])
        g['callbacks'] = VTuple([])
        f0 = {n: VElem(z3.Const('self_' + n, sym.Elem)) for n in self.self_fields}
        for n in self.self_refs:
            f0[n] = VRef(z3.Const('self_' + n, sym.Obj), 'Obj_' + n)
        selfv = st.new_obj(self.cls, f0)
        g['recorded'] = VTuple([])
        args = {}
        for p in self.params:
            if p.endswith(':int'):
                p = p[:-4]
                args[p] = VInt(z3.Int('arg_' + p))
                st.assume(args[p].t >= 1)
            elif p.endswith(':bool'):
                p = p[:-5]
                args[p] = VBool(z3.Bool('arg_' + p))
            else:
                args[p] = VElem(z3.Const('arg_' + p, sym.Elem))
        self.kwvals = {k: VElem(z3.Const('kw_' + k, sym.Elem)) for k in self.kw}
        for k, v in self.kwvals.items():
            g['kw_' + k] = v
        g['upstream'] = args.get('upstream', NONE)
        self.pre_args = dict(args, self=selfv)
        self.pre_state = st.snapshot()
        g['_pre'] = (self.pre_state, self.pre_args)
        I.contract_pre = self.pre_state
        I.contract_pre_frame = self.pre_frame(I)
        pos = []
        for i in range(self.varargs):
            u = VRef(z3.Const('up%d' % i, sym.Obj), 'Stream')
            g['up%d' % i] = u
            pos.append(u)
        if len(pos) > 1:
            st.assume(z3.Distinct(*[u.t for u in pos]))
        self.pre_args = dict(args, self=selfv)
        if self.positional:
            return selfv, pos + [args[p.split(':')[0]] for p in self.params], {}
        return selfv, pos, dict(args)

    def globals(self):
        return {'gen': VBuiltin('gen'), 'asyncio': VBuiltin('asyncio'), 'no_default': VStr('--no-default--'),
                'identity': VBuiltin('identity'), 'Queue': VBuiltin('Queue'), 'defaultdict': VBuiltin('defaultdict'),
                'Condition': VBuiltin('Condition'), 'core': VBuiltin('core'), 'get_stream_type': VBuiltin('get_stream_type'),
                'Streaming': VBuiltin('Streaming'), 'IOLoop': VBuiltin('IOLoop'), 'time': VBuiltin('time'), 'codecs': VBuiltin('codecs')}

    def summaries(self):
        def base_init(I, recv, args, kwargs):
            g = I.st.ghost
            if recv is None:                 # Stream.__init__(self, ...) called through the class
                recv, args = args[0], args[1:]
            kws = {k: v for k, v in kwargs.items() if k != '**'}
            if '**' in kwargs:               # **kwargs passed on: plus what the constructor itself stored into it
                for it in g.get('_kwargs_items', VTuple([])).items:
                    kws.setdefault(it.items[0].s, it.items[1])
            rec = {'args': list(args), 'kwargs': kws, 'star': kwargs.get('**')}
            g['base_init'] = VTuple(g['base_init'].items + [VStr('call')])
            g['_base_init_calls'] = g.get('_base_init_calls', []) + [rec]
            if self.uses_loop:
                I.set_attr(recv, 'loop', VRef(z3.Const('loop', sym.Obj), 'IOLoop'))
            return NONE

        def kw_pop(I, recv, args, kwargs):
            # **kwargs of the constructor: the entries this contract passes in, nothing else
            name = args[0].s
            if name in self.kwvals and not I.st.ghost.get('_popped_' + name):
                I.st.ghost['_popped_' + name] = True
                return self.kwvals[name]
            if len(args) > 1:
                return args[1]
            I.raise_('KeyError')

        def add_callback(I, recv, args, kwargs):
            g = I.st.ghost
            g['callbacks'] = VTuple(g['callbacks'].items + [args[0]])
            return NONE

        def kw_update(I, recv, args, kwargs):
            # kwargs.update(name=value) on the constructor's own **kwargs: same as kwargs['name'] = value
            for k, v in kwargs.items():
                if k != '**':
                    I.set_item(recv, VStr(k), v)
            for a in args:
                if isinstance(a, VObj) and I.st.heap[a.loc].cls == '__strdict__':
                    for k, v in I.st.heap[a.loc].fields.items():
                        I.set_item(recv, VStr(k), v)
                else:
                    raise Unsupported('kwargs.update with this argument')
            return NONE
        return {'Stream.__init__': base_init, 'DaskStream.__init__': base_init, 'Source.__init__': base_init, 'str.pop': kw_pop, 'str.update': kw_update,
                'IOLoop.add_callback': add_callback}

    def spec_funcs(self):
        def call_default(I, kind, name, recv, args, kwargs):
            short = name.split('.')[-1] if kind != 'builtin' else name
            v = herbrand(I, short, recv if kind in ('method', 'apply') else None, args, kwargs)
            g = I.st.ghost
            g['recorded'] = VTuple(g['recorded'].items + [VTuple([VStr(short), v])])
            return v

        def recorded(I, name):
            hits = [it.items[1] for it in I.st.ghost['recorded'].items if it.items[0].s == name.s]
            return hits[0] if len(hits) == 1 else VStr('--%d calls of %s--' % (len(hits), name.s))

        def recorded_all(I, name):
            return VTuple([it.items[1] for it in I.st.ghost['recorded'].items if it.items[0].s == name.s])

        def implies_(I, a, b):
            return VBool(z3.Implies(I.truth(a), I.truth(b)))

        def call_attr(I, recv, name):
            return VElem(sym.user_func('attr:' + name.s, 1)(_elem(I, recv)))

        def truthy(I, v):
            return VBool(I.truth(v))

        def call_m(I, name, recv, *args, **kwargs):
            return herbrand(I, name.s, recv, list(args), kwargs)

        def call_(I, name, *args, **kwargs):
            return herbrand(I, name.s, None, list(args), kwargs)

        def base_arg(I, k):
            calls = I.st.ghost.get('_base_init_calls', [])
            if len(calls) != 1:
                return VStr('--not-exactly-one-call--')
            rec = calls[0]
            key = k.s if isinstance(k, VStr) else k
            if isinstance(key, str):
                return rec['kwargs'].get(key, VStr('--absent--'))
            i = int(str(z3.simplify(I.num(k))))
            return rec['args'][i] if i < len(rec['args']) else VStr('--absent--')

        def base_kw_names(I):
            calls = I.st.ghost.get('_base_init_calls', [])
            return VTuple([VStr(n) for n in sorted(calls[0]['kwargs'])]) if len(calls) == 1 else VTuple([VStr('?')])

        def base_passes_kwargs(I):
            # the constructor's own **kwargs (loop=, asynchronous=, stream_name= ... given by the caller) are handed on
            calls = I.st.ghost.get('_base_init_calls', [])
            if len(calls) != 1:
                return VBool(False)
            star = calls[0]['star']
            return VBool(isinstance(star, VStr) and star.s == '__kwargs__')

        def is_cb(I, v):
            return VBool(isinstance(v, VFunc) and v.qual.endswith('.cb'))

        def empty(I, v):
            if isinstance(v, (VList, VSeq)):
                t, k = I.seq_term(v)
                return VBool(True) if t is None else VBool(z3.Length(t) == 0)
            if isinstance(v, sym.VDict):
                c = I.st.heap[v.loc]
                return VBool(True) if c.kkind is None else VBool(z3.Length(c.keys) == 0)
            if isinstance(v, VObj) and I.st.heap[v.loc].cls == '__strdict__':
                return VBool(len(I.st.heap[v.loc].fields) == 0)
            raise Unsupported('empty() of %r' % (v,))

        def maxlen(I, v):
            c = I.st.list_cell(v.loc)
            return VInt(c.maxlen) if c.maxlen is not None else NONE
        extra = {}
        if self.method == '_create_task':
            # attribute chains on opaque objects (self.loop.asyncio_loop.create_task) as Herbrand terms
            extra['attr_default'] = lambda I, v, name: VElem(sym.user_func('attr:' + name, 1)(_elem(I, v)))
        return dict(extra, **{'call_default': call_default, 'call': call_, 'call_m': call_m, 'call_attr': call_attr, 'truthy': truthy, 'recorded': recorded, 'recorded_all': recorded_all, 'implies': implies_, 'base_arg': base_arg, 'base_kw_names': base_kw_names, 'base_passes_kwargs': base_passes_kwargs, 'is_cb': is_cb,
                'empty': empty, 'maxlen': maxlen})

    def clauses(self):
        cl = []
        for f, text in self.fields.items():
            cl.append(Clause('%s.field_%s_is_what_the_caller_passed' % (self.props[0], f), list(self.props), when='return',
                             text='self.%s == %s' % (f, text) if not text.startswith('?') else text[1:]))
        for i, text in enumerate(self.extra):
            cl.append(Clause('%s.init_%d' % (self.props[0], i), list(self.props), when='return', text=text))
        if self.method == '__init__':
            cl.append(Clause('%s.base_constructor_called_exactly_once' % self.props[0], list(self.props), when='return',
                             text='len(base_init) == 1'))
        if self.uses_loop:
            cl.append(Clause('%s.forwarding_coroutine_scheduled_once_on_the_loop' % self.props[0], list(self.props), when='return',
                             text='len(callbacks) == 1 and is_cb(callbacks[0])'))
        return cl


def mk(cls_, params_, fields_, props_, kw_=(), extra_=(), uses_loop_=False, varargs_=0, tag='', positional_=False, file_=None,
       method_='__init__', self_fields_=(), self_refs_=()):
    d = {'method': method_, 'self_fields': tuple(self_fields_), 'self_refs': tuple(self_refs_)}
    if any('ensure_io_loop' in e for e in extra_) and 'C19' not in props_:
        # a node that needs a loop asks the base constructor for one: without it a pipeline that has no loop yet stays without
        props_ = list(props_) + ['C19']
    if file_:
        d.update({'file': file_, 'files': [file_, CORE]})
    return type('Init_' + cls_ + tag, (Init,), dict(d, **{'cls': cls_, 'params': tuple(params_), 'fields': dict(fields_), 'props': list(props_),
                                                'positional': positional_,
                                                'kw': tuple(kw_), 'extra': tuple(extra_), 'uses_loop': uses_loop_, 'varargs': varargs_,
                                                'name': '%s.%s%s' % (cls_, method_, ('[%s]' % tag.strip('_')) if tag else '')}))


ALL = [
    mk('buffer', ['upstream', 'n:int'], {'queue': "call('Queue', maxsize=n)"}, ['C03', 'C02'], uses_loop_=True,
       extra_=["base_arg(0) == upstream and base_arg('ensure_io_loop') == True", 'base_passes_kwargs()']),
    mk('sliding_window', ['upstream', 'n:int', 'return_partial'], {'n': 'n', 'partial': 'return_partial'}, ['C01'],
       extra_=['empty(self._buffer) and empty(self.metadata_buffer)', 'maxlen(self._buffer) == n and maxlen(self.metadata_buffer) == n',
               'base_arg(0) == upstream']),
    mk('partition', ['upstream', 'n:int', 'timeout', 'key'], {'n': 'n', '_timeout': 'timeout', '_key': 'key'}, ['C01', 'C08'],
       extra_=['base_arg(0) == upstream']),
    mk('partition_unique', ['upstream', 'n:int', 'key', 'keep'], {'n': 'n', 'key': 'key', 'keep': 'keep'}, ['C01'],
       extra_=['empty(self._buffer) and empty(self._metadata_buffer)', 'base_arg(0) == upstream']),
    mk('rate_limit', ['upstream', 'interval'], {'interval': "call('convert_interval', interval)", 'next': '0'}, ['C13'],
       extra_=["base_arg(0) == upstream and base_arg('ensure_io_loop') == True", 'base_passes_kwargs()']),
    mk('delay', ['upstream', 'interval'], {'interval': "call('convert_interval', interval)", 'queue': "call('Queue')"}, ['C02', 'C13'],
       uses_loop_=True, extra_=["base_arg(0) == upstream and base_arg('ensure_io_loop') == True", 'base_passes_kwargs()']),
    mk('timed_window', ['upstream', 'interval'], {'interval': "call('convert_interval', interval)"}, ['C08'], uses_loop_=True,
       extra_=['empty(self._buffer) and empty(self.metadata_buffer)', "base_arg(0) == upstream and base_arg('ensure_io_loop') == True",
               'base_passes_kwargs()']),
    mk('timed_window_unique', ['upstream', 'interval', 'key', 'keep'],
       {'interval': "call('convert_interval', interval)", 'key': 'key', 'keep': 'keep'}, ['C08'], uses_loop_=True,
       extra_=['empty(self._buffer) and empty(self._metadata_buffer)', "base_arg(0) == upstream and base_arg('ensure_io_loop') == True",
               'base_passes_kwargs()']),
    mk('latest', ['upstream'], {'next_metadata': 'None', '_condition': 'None'}, ['C14'], uses_loop_=True,
       extra_=['empty(self.next)', "base_arg(0) == upstream and base_arg('ensure_io_loop') == True", 'base_passes_kwargs()']),
    mk('pluck', ['upstream', 'pick'], {'pick': 'pick'}, ['C01'], extra_=['base_arg(0) == upstream']),
    mk('map_async', ['upstream', 'func', 'parallelism:int', 'stop_on_exception'],
       {'func': 'func', 'work_queue': "call('asyncio.Queue', maxsize=parallelism)", 'stop_on_exception': 'stop_on_exception',
        'work_task': 'None'}, ['C03', 'C02'],
       extra_=["base_arg(0) == upstream and base_arg('ensure_io_loop') == True"]),
    mk('accumulate', ['upstream', 'func', 'start', 'returns_state'],
       {'func': 'func', 'state': 'start', 'returns_state': 'returns_state', 'with_state': 'kw_with_state'}, ['C12', 'C01'], kw_=['with_state'],
       extra_=['base_arg(0) == upstream', "base_kw_names() == ('stream_name',)"]),
    mk('zip_latest', ['lossless'], {'lossless': 'lossless'}, ['C01'],
       extra_=['empty(self.lossless_buffer)']),
    # positional calls: the order (upstream, func, start, returns_state) is what `stream.accumulate(f, 0)` relies on, locally and on Dask
    mk('accumulate', ['upstream', 'func', 'start', 'returns_state'],
       {'func': 'func', 'state': 'start', 'returns_state': 'returns_state'}, ['C12', 'C01', 'C20'], tag='_positional', positional_=True),
    mk('accumulate', ['upstream', 'func', 'start', 'returns_state'],
       {'func': 'func', 'state': 'start', 'returns_state': 'returns_state', 'with_state': 'kw_with_state'}, ['C20', 'C12'],
       kw_=['with_state'], tag='_dask_positional', positional_=True, file_='streamz/dask.py'),
    mk('collect', ['upstream'], {}, ['C01', 'C05'], extra_=['empty(self.cache) and empty(self.metadata_cache)', 'base_arg(0) == upstream']),
    # streamz/collection.py: start / returns_state are taken out of **kwargs and handed to Stream.accumulate by keyword; everything
    # else the caller passed (with_state, agg=..., window=...) travels on inside **kwargs (C12: the plumbing of checkpoint / resume)
    mk('Streaming', ['func'], {}, ['C12', 'C06'], kw_=['start', 'returns_state', 'example', 'stream_type'], positional_=True,
       method_='accumulate_partitions', file_='streamz/collection.py', self_fields_=['example', '_stream_type'], self_refs_=['stream'],
       extra_=["recorded('accumulate') == call_m('accumulate', self.stream, func, start=kw_start, returns_state=kw_returns_state, **'__kwargs__')"]),
    # from_textfile: with from_end=True the reader starts at the end of the file however the file was handed over (path or object)
    mk('from_textfile', ['f', 'poll_interval', 'delimiter', 'from_end:bool', 'encoding'],
       {'file': 'f', 'delimiter': 'delimiter', 'poll_interval': 'poll_interval'}, ['C17', 'C18'], file_='streamz/sources.py',
       extra_=["self._decoder == call_m('apply', call('codecs.getincrementaldecoder', encoding))",
               "implies(from_end, recorded('seek') == call_m('seek', f, 0, 2))", "implies(not from_end, len(recorded_all('seek')) == 0)",
               "self.buffer == ''"]),
    # map_async: every task the node creates runs on the node's own loop (C19: one loop per pipeline), futures are passed through
    mk('map_async', ['coro'], {}, ['C19', 'C02'], method_='_create_task', self_fields_=['loop'], positional_=True, tag='_create_task',
       extra_=["implies(truthy(call('gen.is_future', coro)), result is coro)",
               "implies(not truthy(call('gen.is_future', coro)), "
               "result == call_m('apply', call_attr(call_attr(self.loop, 'asyncio_loop'), 'create_task'), coro))"]),
    # map_async lifecycle (round 8; NodeFrames F1 demands that whatever writes work_task is under contract): stop() asks the worker to
    # finish through its event -- it never cancels the task (a job inside the mapped coroutine would keep its references for ever) --
    # and forgets the pair; a stopped node gets a new worker on start()
    mk('map_async', [], {'work_task': 'None'}, ['C02', 'C05', 'C18'], method_='stop', self_fields_=['work_task'], tag='_stop',
       extra_=["len(recorded_all('cancel')) == 0", "len(recorded_all('set')) == 1"]),
    mk('map_async', [], {}, ['C02', 'C18'], method_='start', self_fields_=['work_task'], tag='_start',
       extra_=["len(recorded_all('cancel')) == 0", "self.work_task == recorded('_create_work_task')"]),
    mk('combine_latest', [], {'_initial_emit_on': 'None'}, ['C01', 'C15'], varargs_=2, tag='_emit_on_not_given',
       extra_=['list(self.emit_on) == [up0, up1]', 'len(self.last) == 2 and len(self.metadata) == 2',
               'up0 in self.missing and up1 in self.missing']),
]

for _C in ALL:
    assert _C.__name__ not in globals(), _C.__name__
    globals()[_C.__name__] = _C
