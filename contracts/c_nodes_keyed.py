"""Step contracts: partition_unique, unique, flatten (streamz/core.py)."""
import z3
from pyvc import sym
from pyvc.sym import (VInt, VBool, VNone, VStr, VElem, VSeq, VList, VTuple, VRef, VCallable, VDict,
                      K_ELEM, K_MDE, K_MD, K_AW, K_INT)
from pyvc.state import DictCell, Unsupported
from pyvc.contract import Clause
from pyvc.interp import NONE
from pyvc.loops import LoopSpec
from .core_common import NodeUpdate, R
from .c_nodes_simple import user_raise_clauses, downstream_raise_clauses

ElemArr = z3.ArraySort(sym.Elem, sym.Elem)
MdArr = z3.ArraySort(sym.Elem, sym.SeqMdS)
IntArr = z3.ArraySort(sym.Elem, z3.IntSort())


def dict_spec_funcs(d):
    def keys(I, dv):
        c = I.st.heap[dv.loc]
        if c.kkind is None:
            return VSeq(None, None)
        return VSeq(c.keys, c.kkind)

    def vals(I, dv):
        c = I.st.heap[dv.loc]
        if c.kkind is None:
            return VSeq(None, None)
        return VSeq(sym.vals_of(c.vals.sort())(c.vals, c.keys), c.vkind)

    def vals_over(I, dv, ks):
        c = I.st.heap[dv.loc]
        t, k = I.seq_term(ks)
        return VSeq(sym.vals_of(c.vals.sort())(c.vals, t), c.vkind)

    def dict_values(I, dv):
        return vals(I, dv)
    d.update({'keys': keys, 'vals': vals, 'vals_over': vals_over, 'dict_values': dict_values})
    return d


class KeySplit:
    """Pre-state ghost:  y = key(x);  present <=> y in K;  present ==> K == A ++ [y] ++ B with y not in A, B."""

    def declare_split(self, I, K, y, hint_terms=()):
        ks = K.sort()
        A = z3.Const('A', ks)
        B = z3.Const('B', ks)
        present = z3.Bool('present')
        I.st.assume(present == z3.Contains(K, z3.Unit(y)))
        I.st.assume(z3.Implies(present, z3.And(K == z3.Concat(A, z3.Unit(y), B),
                                               z3.Not(z3.Contains(A, z3.Unit(y))),
                                               z3.Not(z3.Contains(B, z3.Unit(y))))))
        I.st.ghost['_split_hints'] = [(K, y, A, B)]
        kind = K_ELEM
        I.st.ghost['A'] = VSeq(A, kind)
        I.st.ghost['B'] = VSeq(B, kind)
        I.st.ghost['present'] = VBool(present)
        I.st.ghost['y'] = VElem(y)
        self._split = (A, B, present, y)

    def split_extra(self, d):
        A, B, present, y = self._split
        return {'ghost': {'A': {'seq': d.by_kind(A, sym.K_ELEMS), 'kind': 'elem'},
                          'B': {'seq': d.by_kind(B, sym.K_ELEMS), 'kind': 'elem'},
                          'present': z3.is_true(d.ev(present)), 'y': {'elem': d.elem(y)}}}


# --------------------------------------------------------------------------- partition_unique
class PartitionUniqueFirst(KeySplit, NodeUpdate):
    cls = 'partition_unique'
    name = 'partition_unique.update[keep=first]'
    props = ['C01', 'C03', 'C04', 'C05', 'C10', 'C16']
    data_fields = ('_buffer',)
    inline = ('partition_unique._get_key',)
    keep = 'first'
    held_text = 'occ(vals(self._metadata_buffer))'

    def make_self(self, I):
        n = z3.Int('n')
        K = z3.Const('keys0', sym.SeqElemS)
        bv = z3.Const('bufvals0', ElemArr)
        mv = z3.Const('mdvals0', MdArr)
        I.st.assume(n >= 1)
        I.st.assume(z3.Length(K) < n)
        buf = I.st.new_dict(DictCell(K, bv, K_ELEM, K_ELEM))
        mdb = I.st.new_dict(DictCell(K, mv, K_ELEM, K_MD))
        keyf = VCallable('key')
        x = z3.Const('x', sym.Elem)
        self.declare_split(I, K, sym.user_func('key', 1)(x))
        return {'n': VInt(n), 'key': keyf, 'keep': VStr(self.keep), '_buffer': buf, '_metadata_buffer': mdb}

    def spec_funcs(self):
        return dict_spec_funcs(NodeUpdate.spec_funcs(self))

    def replay_extra(self, I, d):
        return self.split_extra(d)

    def new_keys(self):
        return "(old(keys(self._buffer)) if present else old(keys(self._buffer)) + [y])"

    def new_vals(self):
        return "(old(vals(self._buffer)) if present else old(vals(self._buffer)) + [x])"

    def new_mds(self):
        return "(old(vals(self._metadata_buffer)) if present else old(vals(self._metadata_buffer)) + [metadata])"

    def clauses(self):
        nk, nv, nm = self.new_keys(), self.new_vals(), self.new_mds()
        full = "(len(%s) == self.n)" % nk
        return [
            Clause('C01.emits_when_n_distinct_keys', ['C01'],
                   text='emitted == ([tup(%s)] if %s else [])' % (nv, full),
                   note='a tuple of the kept elements, in key-insertion order, exactly when n distinct keys are present'),
            Clause('C01.buffer_keys', ['C01'], text='keys(self._buffer) == ([] if %s else %s)' % (full, nk)),
            Clause('C01.buffer_vals', ['C01'], text='vals(self._buffer) == ([] if %s else %s)' % (full, nv)),
            Clause('C10.metadata_of_kept_members', ['C10'],
                   text='emitted_md == ([flat(%s)] if %s else [])' % (nm, full),
                   note='flat list: metadata of the kept members in emitted order'),
            Clause('C10.metadata_buffer_tracks_buffer', ['C10', 'C05'],
                   text='keys(self._metadata_buffer) == keys(self._buffer) and vals(self._metadata_buffer) == ([] if %s else %s)' % (full, nm)),
            Clause('C03.returns_emit_result', ['C03'], text='implies(%s, result == emit_rets[0])' % full),
        ] + self.standard_clauses() + user_raise_clauses(self) + downstream_raise_clauses(self)


class PartitionUniqueLast(PartitionUniqueFirst):
    name = 'partition_unique.update[keep=last]'
    keep = 'last'

    def new_keys(self):
        return "((A + B if present else old(keys(self._buffer))) + [y])"

    def new_vals(self):
        return "(old(vals_over(self._buffer, (A + B if present else keys(self._buffer)))) + [x])"

    def new_mds(self):
        return "(old(vals_over(self._metadata_buffer, (A + B if present else keys(self._metadata_buffer)))) + [metadata])"


# --------------------------------------------------------------------------- unique
class UniqueList(KeySplit, NodeUpdate):
    """unique(hashable=False): history kept in a list, most recent first."""
    cls = 'unique'
    name = 'unique.update[hashable=False]'
    props = ['C01', 'C03', 'C05', 'C10', 'C16']
    data_fields = ('seen',)
    bounded = True

    def make_self(self, I):
        S = z3.Const('seen0', sym.SeqElemS)
        seen = I.st.new_list(S, K_ELEM)
        x = z3.Const('x', sym.Elem)
        self.declare_split(I, S, sym.user_func('key', 1)(x))
        f = {'key': VCallable('key'), 'seen': seen}
        if self.bounded:
            m = z3.Int('maxsize')
            I.st.assume(m >= 1)
            I.st.assume(z3.Length(S) <= m)
            f['maxsize'] = VInt(m)
        else:
            f['maxsize'] = NONE
        return f

    def replay_extra(self, I, d):
        return self.split_extra(d)

    def clauses(self):
        moved = "([y] + (A + B if present else old(list(self.seen))))"
        if self.bounded:
            newseen = "(%s if len(%s) <= self.maxsize else %s[:self.maxsize])" % (moved, moved, moved)
        else:
            newseen = moved
        return [
            Clause('C01.passes_iff_not_in_history', ['C01'], text='emitted == ([] if present else [x])',
                   note='x passes iff its key is not in the recency history'),
            Clause('C01.history_is_lru', ['C01'], text='list(self.seen) == ' + newseen,
                   note='every arrival moves its key to the front; history truncated to maxsize'),
            Clause('C10.metadata_unchanged', ['C10'], text='emitted_md == ([] if present else [metadata])'),
            Clause('C03.returns_emit_result', ['C03'], text='implies(not present, result == emit_rets[0])'),
        ] + self.standard_clauses() + user_raise_clauses(self) + downstream_raise_clauses(self)


class UniqueListUnbounded(UniqueList):
    name = 'unique.update[hashable=False,maxsize=None]'
    bounded = False


class UniqueDict(KeySplit, NodeUpdate):
    """unique(hashable=True, maxsize=None): history kept in a plain dict."""
    cls = 'unique'
    name = 'unique.update[hashable=True,maxsize=None]'
    props = ['C01', 'C03', 'C05', 'C10', 'C16']
    data_fields = ('seen',)

    def make_self(self, I):
        K = z3.Const('keys0', sym.SeqElemS)
        vals = z3.Const('seenvals0', IntArr)
        seen = I.st.new_dict(DictCell(K, vals, K_ELEM, K_INT))
        x = z3.Const('x', sym.Elem)
        self.declare_split(I, K, sym.user_func('key', 1)(x))
        return {'key': VCallable('key'), 'seen': seen, 'maxsize': NONE}

    def spec_funcs(self):
        return dict_spec_funcs(NodeUpdate.spec_funcs(self))

    def replay_extra(self, I, d):
        return self.split_extra(d)

    def clauses(self):
        return [
            Clause('C01.passes_iff_not_seen', ['C01'], text='emitted == ([] if present else [x])'),
            Clause('C01.remembers_key', ['C01'],
                   text='keys(self.seen) == (old(keys(self.seen)) if present else old(keys(self.seen)) + [y])'),
            Clause('C10.metadata_unchanged', ['C10'], text='emitted_md == ([] if present else [metadata])'),
            Clause('C03.returns_emit_result', ['C03'], text='implies(not present, result == emit_rets[0])'),
        ] + self.standard_clauses() + user_raise_clauses(self) + downstream_raise_clauses(self)


# --------------------------------------------------------------------------- flatten
class FlattenUpdate(NodeUpdate):
    cls = 'flatten'
    props = ['C01', 'C03', 'C05', 'C10']
    assumptions = ('the element given to flatten is a finite iterable whose iteration has no side effect',)

    def make_self(self, I):
        return {}

    def base_fields(self):
        f = NodeUpdate.base_fields(self)
        f['current_value'] = VElem(z3.Const('cv0', sym.Elem))
        f['current_metadata'] = VSeq(z3.Const('cm0', sym.SeqMdS), K_MDE)
        return f

    def spec_funcs(self):
        d = NodeUpdate.spec_funcs(self)

        def chain(I, args, kwargs, fr):
            t, k = I.seq_term(args[0])
            return I.st.new_list(t, k)

        def next_(I, args, kwargs, fr):
            try:
                return I.list_method(args[0], 'popleft', [], {})
            except Exception as e:
                from pyvc.state import PyRaise
                if isinstance(e, PyRaise) and e.exc.cls == 'IndexError':
                    I.raise_('StopIteration')
                raise

        def items(I, v):
            return VSeq(sym.f_untup(I.as_elem(v)), K_ELEM)

        def flat_aw(I, v):
            t, k = I.seq_term(v)
            return VSeq(sym.flat_aw(t), K_AW)

        def all_empty(I, v):
            t, k = I.seq_term(v)
            if t is None:
                return VBool(True)
            return VBool(sym.all_empty_md(t))
        d.update({'builtin_chain': chain, 'builtin_next': next_, 'pieces': items, 'flat_aw': flat_aw,
                  'all_empty': all_empty})
        return d

    def loop_specs(self):
        return {('flatten.update', 0): LoopSpec(
            modifies=['local:item', 'local:L', 'local:y', 'ghost:emitted', 'ghost:emitted_md', 'ghost:emit_rets',
                      'self.current_value', 'self.current_metadata'],
            invariant=[('pieces_in_order', 'emitted + [item] + _R == pieces(x)'),
                       ('no_metadata_on_inner_pieces', 'all_empty(emitted_md) and len(emitted_md) == len(emitted)'),
                       ('awaitables_collected', 'L == flat_aw(emit_rets)'),
                       ('no_own_refcount_effect', 'delta == 0')],
            typed_locals={'L': K_AW}, props=['C01', 'C03', 'C10', 'C05', 'C04'], name='pieces')}

    def clauses(self):
        return [
            Clause('C01.emits_every_piece_in_order', ['C01'], text='emitted == pieces(x)'),
            Clause('C10.metadata_on_last_piece_only', ['C10', 'C04'],
                   text='len(emitted_md) == len(emitted) and implies(len(emitted) > 0, emitted_md[-1] == metadata '
                        'and all_empty(emitted_md[:len(emitted_md) - 1]))'),
            Clause('C03.returns_all_awaitables', ['C03'], text='list(result) == flat_aw(emit_rets)'),
        ] + self.standard_clauses()


ALL = [PartitionUniqueFirst, PartitionUniqueLast, UniqueList, UniqueListUnbounded, UniqueDict, FlattenUpdate]


# --------------------------------------------------------------------------- timed_window_unique
class TimedWindowUniqueFirst(PartitionUniqueFirst):
    cls = 'timed_window_unique'
    name = 'timed_window_unique.update[keep=first]'
    props = ['C03', 'C04', 'C05', 'C08', 'C10', 'C16']
    inline = ('timed_window_unique._get_key',)

    def make_self(self, I):
        f = PartitionUniqueFirst.make_self(self, I)
        del f['n']
        f['last'] = sym.VAw(z3.Const('last0', sym.Aw))
        f['interval'] = sym.VReal(z3.Real('interval'))
        return f

    def clauses(self):
        nk, nv, nm = self.new_keys(), self.new_vals(), self.new_mds()
        return [
            Clause('C08.keeps_first_or_last_per_key', ['C08'], text='keys(self._buffer) == %s and vals(self._buffer) == %s and emitted == []' % (nk, nv),
                   note='the buffer is the keep-first / keep-last image of the arrivals since the last tick'),
            Clause('C10.metadata_buffer_tracks_buffer', ['C10', 'C05'],
                   text='keys(self._metadata_buffer) == keys(self._buffer) and vals(self._metadata_buffer) == %s' % nm),
            Clause('C03.returns_awaitable_of_last_emission', ['C03'], text='result == old(self.last)'),
        ] + self.standard_clauses() + user_raise_clauses(self)


class TimedWindowUniqueLast(TimedWindowUniqueFirst):
    name = 'timed_window_unique.update[keep=last]'
    keep = 'last'
    new_keys = PartitionUniqueLast.new_keys
    new_vals = PartitionUniqueLast.new_vals
    new_mds = PartitionUniqueLast.new_mds


ALL += [TimedWindowUniqueFirst, TimedWindowUniqueLast]
