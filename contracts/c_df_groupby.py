"""C06 / C07 / C12: the state algebra of the group-by reductions and of value_counts (streamz/dataframe/aggregations.py):
GroupbySum, GroupbyCount, GroupbySize, GroupbyMean, GroupbyVar, ValueCounts  x  initial / on_new / on_old, and
groupby_accumulator().

Model.  A pandas object indexed by group key (the result of `df.groupby(g).sum()`, of `value_counts()`, and every state built
from them) is observed at ONE ARBITRARY key k (skolem): `VKeyed(val, present)` = the entry of k and whether k is in the index.
A `DataFrameGroupBy` is observed as the rows of group k, `VGrouped(rows_k)`.  Every obligation therefore holds for each key.
Assumed pandas contract (listed in the evidence, exercised by the bounded enumeration bounded/df_enum.py):
  * `df.groupby(g)` observed at k is the subsequence of the rows of df whose key is k (in particular none for an empty df);
    it distributes over row concatenation (the ghost history `SeenK` is the rows of key k among all rows seen);
  * `.sum() / .count() / .size() / .agg(f)` of a group-by at k are S / C / len / f of those rows, k is in the index iff the
    group has at least one row; `value_counts()` is `size` with the value itself as key;
  * `a.add(b, fill_value=0)` / `a.sub(b, fill_value=0)`: index = union, a missing side counts as 0;
  * arithmetic between keyed objects with the same index is per key; `astype(int)` and `index.name` do not change entries.
"""
import ast
import z3
from pyvc import sym
from pyvc.sym import (VFrame, VVec, VInt, VReal, VBool, VNone, VStr, VElem, VTuple, VObj, VBuiltin, VFunc, Value)
from pyvc.state import State, Unsupported
from pyvc.contract import Clause
from pyvc.interp import NONE
from .df_common import DfContract, S, C, N, Q, SeqRowS

RealS = z3.RealSort()
f_rows_col = z3.Function('rows_of_key_by_column', SeqRowS, SeqRowS)          # df.groupby(<column label>) at key k
f_rows_ser = z3.Function('rows_of_key_by_series', SeqRowS, SeqRowS, SeqRowS)  # df.groupby(<series aligned with df>) at key k
f_rows_val = z3.Function('rows_with_value', SeqRowS, SeqRowS)                # value_counts: the rows equal to the value k


class VKeyed(Value):
    """entry of the arbitrary key k in a key-indexed pandas object, and whether k is in its index"""
    frame_like = True

    def __init__(self, val, present):
        self.val = val
        self.present = present

    def __repr__(self):
        return 'VKeyed(%s, %s)' % (self.val, self.present)


class VGrouped(Value):
    """a DataFrameGroupBy observed at key k: the rows of that group"""
    frame_like = True

    def __init__(self, t):
        self.t = t


def rows_of_key(I, fn, *ts):
    """the rows of key k among the rows of a frame: a subsequence (so: none when the frame is empty)"""
    r = fn(*ts)
    I.st.assume(z3.Length(r) <= z3.Length(ts[0]))
    return r


class GroupModel:
    """frame hooks for key-indexed objects, layered over the row model of df_common.FrameModel"""

    def group_hooks(self, d):
        base_method, base_attr, base_binop, base_len = d['frame_method'], d['frame_attr'], d['frame_binop'], d['frame_len']

        def keyed_of(I, x):
            if isinstance(x, VKeyed):
                return x
            if isinstance(x, (VInt, VReal, VBool)):
                return VKeyed(I.num(x, True), z3.BoolVal(True))
            raise Unsupported('operand of a key-indexed object: %r' % (x,))

        def frame_method(I, v, name, args, kwargs):
            if isinstance(v, VFrame) and name == 'groupby':
                g = args[0] if args else kwargs.get('by')
                if isinstance(g, VFrame):
                    return VGrouped(rows_of_key(I, f_rows_ser, v.t, g.t))
                if isinstance(g, VNone):
                    I.raise_('TypeError')           # pandas: "You have to supply one of 'by' and 'level'"
                return VGrouped(rows_of_key(I, f_rows_col, v.t))
            if isinstance(v, VFrame) and name == 'value_counts' and not args and not kwargs:
                r = rows_of_key(I, f_rows_val, v.t)
                return VKeyed(z3.ToReal(z3.Length(r)), z3.Length(r) > 0)
            if isinstance(v, VGrouped):
                present = z3.Length(v.t) > 0
                if name == 'sum' and not args:
                    return VKeyed(S(v.t), present)
                if name == 'count' and not args:
                    return VKeyed(C(v.t), present)
                if name == 'size' and not args:
                    return VKeyed(z3.ToReal(z3.Length(v.t)), present)
                if name == 'agg' and len(args) == 1 and isinstance(args[0], VFunc):
                    # g.agg(f): f applied to the rows of each group
                    r = I.call_function(args[0], [VFrame(v.t)], {}, None)
                    return VKeyed(I.num(r, True), present)
                raise Unsupported('group-by method %s' % name)
            if isinstance(v, VKeyed):
                if name in ('add', 'sub') and len(args) == 1 and set(kwargs) == {'fill_value'}:
                    fv = z3.simplify(I.num(kwargs['fill_value'], True))
                    o = keyed_of(I, args[0])
                    a = z3.If(v.present, v.val, fv)
                    b = z3.If(o.present, o.val, fv)
                    return VKeyed(a + b if name == 'add' else a - b, z3.Or(v.present, o.present))
                if name == 'astype' and len(args) == 1:
                    return v
                raise Unsupported('method %s of a key-indexed object' % name)
            return base_method(I, v, name, args, kwargs)

        def frame_attr(I, v, name):
            if isinstance(v, VKeyed):
                if name == 'index':
                    return I.st.new_obj('KeyIndex', {'name': VElem(z3.Const(sym.fresh_name('index_name'), sym.Elem))})
                return None
            if isinstance(v, VGrouped):
                return None
            return base_attr(I, v, name)

        def frame_binop(I, op, a, b):
            if isinstance(a, VKeyed) or isinstance(b, VKeyed):
                x, y = keyed_of(I, a), keyed_of(I, b)
                p = z3.And(x.present, y.present)
                if isinstance(op, ast.Add):
                    return VKeyed(x.val + y.val, p)
                if isinstance(op, ast.Sub):
                    return VKeyed(x.val - y.val, p)
                if isinstance(op, ast.Mult):
                    return VKeyed(x.val * y.val, p)
                if isinstance(op, ast.Div):
                    return VKeyed(x.val / y.val, p)         # pandas: division by zero gives nan/inf, it does not raise
                if isinstance(op, ast.Pow):
                    e = z3.simplify(y.val)
                    if z3.is_rational_value(e) and e.numerator_as_long() == 2 and e.denominator_as_long() == 1:
                        return VKeyed(x.val * x.val, p)
                raise Unsupported('operator %s on a key-indexed object' % type(op).__name__)
            return base_binop(I, op, a, b)

        def frame_getitem(I, base, key):
            if isinstance(base, VGrouped):
                return base                   # g[columns]: column selection; one arbitrary column is modelled
            raise Unsupported('subscript of %r' % (base,))

        def frame_len(I, v):
            if isinstance(v, (VKeyed, VGrouped)):
                raise Unsupported('len of a key-indexed object')
            return base_len(I, v)

        def b_hasattr(I, args, kwargs, fr):
            v, n = args
            if isinstance(v, VFrame):
                return VBool(n.s in ('iloc', 'loc', 'index', 'groupby'))
            if isinstance(v, (VNone, VStr, VInt, VElem)):
                return VBool(False)
            raise Unsupported('hasattr(%r, %r)' % (v, n))

        def b_false_for_frames(I, args, kwargs, fr):
            # is_index_like(x): only for pandas Index objects; groupers here are None, labels or Series
            if isinstance(args[0], (VNone, VStr, VInt, VElem, VFrame)):
                return VBool(False)
            raise Unsupported('is_index_like(%r)' % (args[0],))

        def isinstance_hook(I, v, n):
            if n in ('np.ndarray', 'ndarray'):
                if isinstance(v, (VNone, VStr, VInt, VElem, VFrame)):
                    return False
            raise Unsupported('isinstance(..., %s)' % n)

        def val(I, x):
            return VReal(x.val)

        def present(I, x):
            return VBool(x.present)

        def rlen(I, v):
            return VReal(z3.ToReal(z3.Length(v.t)))

        d.update({'frame_method': frame_method, 'frame_attr': frame_attr, 'frame_binop': frame_binop, 'frame_len': frame_len,
                  'frame_getitem': frame_getitem, 'builtin_hasattr': b_hasattr, 'builtin_is_index_like': b_false_for_frames,
                  'isinstance': isinstance_hook, 'val': val, 'present': present, 'rlen': rlen})
        return d


# state of each aggregation: tuple of oracle functions over the rows of key k
STATE = {'GroupbySum': ('S',), 'GroupbyCount': ('C',), 'GroupbySize': ('L',), 'ValueCounts': ('L',),
         'GroupbyMean': ('S', 'C'), 'GroupbyVar': ('S', 'Q', 'C')}
H = {'S': S, 'C': C, 'Q': Q, 'L': lambda t: z3.ToReal(z3.Length(t))}
SPEC = {'S': 'S(%s)', 'C': 'C(%s)', 'Q': 'Q(%s)', 'L': 'rlen(%s)'}


def result_clause(agg, rows, res='result[1]'):
    v = 'val(%s)' % res
    if agg == 'GroupbySum':
        return '%s == S(%s)' % (v, rows)
    if agg == 'GroupbyCount':
        return '%s == C(%s)' % (v, rows)
    if agg in ('GroupbySize', 'ValueCounts'):
        return '%s == rlen(%s)' % (v, rows)
    if agg == 'GroupbyMean':
        return 'implies(C(%s) > 0, %s == S(%s) / C(%s))' % (rows, v, rows, rows)
    if agg == 'GroupbyVar':
        return ('implies(C(%s) > self.ddof and C(%s) > 0, %s == (Q(%s) - S(%s) * S(%s) / C(%s)) / (C(%s) - self.ddof))'
                % (rows, rows, v, rows, rows, rows, rows, rows))


class GroupAggBase(GroupModel, DfContract):
    agg = 'GroupbySum'
    method = 'on_new'
    series_grouper = False          # True: the grouper is a streaming Series travelling with each batch
    props = ['C06', 'C07', 'C12']
    inline = ('GroupbyVar._compute_result', 'GroupbyAggregation.grouped')
    assumptions = DfContract.assumptions + (
        'group-by model: a key-indexed pandas object is observed at one arbitrary key; df.groupby(g) at key k is the subsequence '
        'of rows of that key and distributes over row concatenation; add/sub(fill_value=0) take the union of the indexes '
        '(assumed pandas contract, exercised by the bounded enumeration of the group-by operations)',)

    def __init__(self):
        self.qual = '%s.%s' % (self.agg, self.method)
        self.name = '%s[%s]' % (self.qual, 'streaming-series grouper' if self.series_grouper else 'column grouper')
        DfContract.__init__(self)

    def spec_funcs(self):
        return self.group_hooks(DfContract.spec_funcs(self))

    def make_agg(self, I):
        f = {'columns': VElem(z3.Const('columns', sym.Elem)),
             'grouper': NONE if self.series_grouper else VElem(z3.Const('grouper_label', sym.Elem))}
        if self.agg == 'ValueCounts':
            f = {}
        if self.agg == 'GroupbyVar':
            d = z3.Int('ddof')
            I.st.assume(z3.Or(d == 0, d == 1))
            f['ddof'] = VInt(d)
        return I.st.new_obj(self.agg, f)

    def rows_k(self, I, frame, grouper):
        """ghost: the rows of key k in a batch (the same term the model of groupby produces for that batch)"""
        if self.agg == 'ValueCounts':
            return rows_of_key(I, f_rows_val, frame.t)
        if self.series_grouper:
            return rows_of_key(I, f_rows_ser, frame.t, grouper.t)
        return rows_of_key(I, f_rows_col, frame.t)

    def keyed_state(self, I, rows_t, present):
        vals = [VKeyed(H[h](rows_t), present) for h in STATE[self.agg]]
        return vals[0] if len(vals) == 1 else VTuple(vals)

    def state_clause(self, rows, res='result[0]'):
        hs = STATE[self.agg]
        if len(hs) == 1:
            return 'val(%s) == %s' % (res, SPEC[hs[0]] % rows)
        return ' and '.join('val(%s[%d]) == %s' % (res, i, SPEC[h] % rows) for i, h in enumerate(hs))

    def presence_clause(self, cond, res='result[0]'):
        hs = STATE[self.agg]
        if len(hs) == 1:
            return 'present(%s) == (%s)' % (res, cond)
        return ' and '.join('present(%s[%d]) == (%s)' % (res, i, cond) for i in range(len(hs)))

    def grouper_args(self, I, name='g'):
        if self.agg == 'ValueCounts' or not self.series_grouper:
            return NONE
        return self.frame(name)


class GroupInitial(GroupAggBase):
    method = 'initial'

    def build(self, I):
        I.st = State()
        selfv = self.make_agg(I)
        new = self.frame('new')
        g = self.grouper_args(I, 'gnew')
        if isinstance(g, VFrame):
            I.st.assume(z3.Length(g.t) == z3.Length(new.t))
        self.finish(I, {'self': selfv, 'new': new, 'grouper': g})
        return selfv, [new], {'grouper': g}

    def clauses(self):
        hs = STATE[self.agg]
        absent = self.presence_clause('False', 'result')
        return [Clause('C06.initial_state_has_no_group_whatever_the_first_batch', ['C06', 'C07', 'C12'], text=absent,
                       note='the state before any row has an empty index (it is computed from the first batch, emptied)')]


class GroupOnNew(GroupAggBase):
    method = 'on_new'

    def build(self, I):
        I.st = State()
        selfv = self.make_agg(I)
        new = self.frame('new')
        g = self.grouper_args(I, 'gnew')
        if isinstance(g, VFrame):
            I.st.assume(z3.Length(g.t) == z3.Length(new.t))
        seenk = self.frame('SeenK')                       # rows of key k among everything seen so far
        newk = VFrame(self.rows_k(I, new, g))
        I.st.ghost['SeenK'] = seenk
        I.st.ghost['NewK'] = newk
        acc = self.keyed_state(I, seenk.t, z3.Length(seenk.t) > 0)
        self.finish(I, {'self': selfv, 'acc': acc, 'new': new, 'grouper': g})
        return selfv, [acc, new], {'grouper': g}

    def clauses(self):
        rows = 'rows(SeenK, NewK)'
        return [Clause('C06.group_state_tracks_all_rows_of_the_key', ['C06', 'C12'], text=self.state_clause(rows),
                       note='for every key: state == (S, C, ...)(rows of that key among Seen ++ new), for every batch incl. empty ones'),
                Clause('C06.group_is_present_iff_it_has_a_row', ['C06', 'C12'], text=self.presence_clause('len(%s) > 0' % rows),
                       note='a key is in the index of the state iff a row of that key has been seen'),
                Clause('C06.group_value_equals_pandas_on_the_prefix', ['C06'], text=result_clause(self.agg, rows),
                       note='the emitted entry of every key equals the pandas group-by aggregation over all batches so far'),
                Clause('C06.emitted_groups_are_the_groups_seen', ['C06'], text='present(result[1]) == (len(%s) > 0)' % rows)]


class GroupOnOld(GroupAggBase):
    method = 'on_old'
    props = ['C07', 'C12']

    def build(self, I):
        I.st = State()
        selfv = self.make_agg(I)
        old = self.frame('old')
        g = self.grouper_args(I, 'gold')
        if isinstance(g, VFrame):
            I.st.assume(z3.Length(g.t) == z3.Length(old.t))
        restk = self.frame('RestK')                       # rows of key k that stay in the window
        oldk = VFrame(self.rows_k(I, old, g))
        I.st.ghost['RestK'] = restk
        I.st.ghost['OldK'] = oldk
        # windowed state: a key stays in the index after its rows left (windowed_groupby_accumulator filters by size afterwards)
        p = z3.Bool('key_in_index')
        I.st.assume(z3.Implies(z3.Length(oldk.t) + z3.Length(restk.t) > 0, p))
        acc = self.keyed_state(I, z3.Concat(oldk.t, restk.t), p)
        self.finish(I, {'self': selfv, 'acc': acc, 'old': old, 'new': old, 'grouper': g})
        return selfv, [acc, old], {'grouper': g}

    def clauses(self):
        return [Clause('C07.group_state_forgets_exactly_the_rows_that_left', ['C07', 'C12'], text=self.state_clause('RestK'),
                       note='for every key: state(old ++ rest) minus old == state(rest)'),
                Clause('C07.group_value_equals_pandas_on_the_rows_left', ['C07'], text=result_clause(self.agg, 'RestK')),
                Clause('C07.groups_with_rows_left_stay_in_the_index', ['C07'],
                       text='implies(len(RestK) > 0, present(result[1]))')]


class GroupAccumulator(GroupAggBase):
    """groupby_accumulator(acc, new, agg): first batch (acc is None) and later batches"""
    method = 'groupby_accumulator'
    first = True
    props = ['C06', 'C12']

    def __init__(self):
        GroupAggBase.__init__(self)
        self.qual = 'groupby_accumulator'
        self.name = 'groupby_accumulator[%s, %s, %s]' % (self.agg, 'streaming-series grouper' if self.series_grouper else 'column grouper',
                                                         'first batch' if self.first else 'later batch')
        self.inline = ('GroupbyVar._compute_result', 'GroupbyAggregation.grouped', self.agg + '.initial', self.agg + '.on_new')

    def build(self, I):
        I.st = State()
        agg = self.make_agg(I)
        new = self.frame('new')
        g = self.grouper_args(I, 'gnew')
        if isinstance(g, VFrame):
            I.st.assume(z3.Length(g.t) == z3.Length(new.t))
        newk = VFrame(self.rows_k(I, new, g))
        if self.first:
            seenk = VFrame(z3.Empty(SeqRowS))
            acc = NONE
        else:
            seenk = self.frame('SeenK')
            acc = self.keyed_state(I, seenk.t, z3.Length(seenk.t) > 0)
        I.st.ghost['SeenK'] = seenk
        I.st.ghost['NewK'] = newk
        arg = VTuple([new, g]) if isinstance(g, VFrame) else new
        self.finish(I, {'self': agg, 'agg': agg, 'acc': acc, 'new': arg})
        return None, [acc, arg], {'agg': agg}

    def clauses(self):
        rows = 'rows(SeenK, NewK)'
        return [Clause('C06.group_state_tracks_all_rows_of_the_key', ['C06', 'C12'], text=self.state_clause(rows)),
                Clause('C06.group_is_present_iff_it_has_a_row', ['C06', 'C12'], text=self.presence_clause('len(%s) > 0' % rows)),
                Clause('C06.group_value_equals_pandas_on_the_prefix', ['C06'], text=result_clause(self.agg, rows)),
                Clause('C06.emitted_groups_are_the_groups_seen', ['C06'], text='present(result[1]) == (len(%s) > 0)' % rows),
                Clause('C06.never_raises', ['C06', 'C07'], when='raise', text='False',
                       note='a group-by aggregation must not fail on any batch (an exception ends the stream)')]


def _mk(base, agg, ser, **kw):
    name = '%s_%s_%s' % (base.__name__, agg, 'ser' if ser else 'col') + ''.join('_%s' % v for v in kw.values())
    d = {'agg': agg, 'series_grouper': ser}
    d.update(kw)
    return type(name, (base,), d)


ALL = []
for _agg in ['GroupbySum', 'GroupbyCount', 'GroupbySize', 'GroupbyMean', 'GroupbyVar', 'ValueCounts']:
    for _ser in ((False,) if _agg == 'ValueCounts' else (False, True)):
        for _base in (GroupInitial, GroupOnNew, GroupOnOld):
            _c = _mk(_base, _agg, _ser)
            globals()[_c.__name__] = _c
            ALL.append(_c)
        if _agg != 'ValueCounts':
            for _first in (True, False):
                _c = _mk(GroupAccumulator, _agg, _ser, first=_first)
                globals()[_c.__name__] = _c
                ALL.append(_c)


# ------------------------------------------------------------------------------------------------ windowed group-by
from pyvc.sym import VSeq, VList, VCallable, Kind, KSeq
from pyvc.loops import LoopSpec
from .c_df_windows import WindowBase, K_FRAME, SeqFrameS, cat_rows

f_iskey = z3.Function('row_has_key_k', sym.Row, z3.BoolSort())
rk = sym.SpecFun('rows_of_key', [], SeqRowS, SeqRowS, zero=lambda: z3.Empty(SeqRowS),
                 one=lambda r: z3.If(f_iskey(r), z3.Unit(r), z3.Empty(SeqRowS)), plus=lambda a, b: z3.Concat(a, b))
K_FRAME_NONE = Kind('frame_with_label_grouper', SeqRowS, lambda t: VTuple([VFrame(t), NONE]))


class VKAbs(Value):
    """state / value of an arbitrary group-by aggregation, observed at key k: which rows it describes, and whether k is in its index"""
    frame_like = True

    def __init__(self, rows, present, what):
        self.rows, self.present, self.what = rows, present, what

    def fresh_like(self, base):
        return VKAbs(z3.Const(sym.fresh_name(base + '_rows'), SeqRowS), z3.Bool(sym.fresh_name(base + '_present')), self.what)


class VKBool(Value):
    """boolean key-indexed object (a mask) observed at key k"""
    frame_like = True

    def __init__(self, b, present):
        self.b, self.present = b, present


def _keyed_fresh(self, base):
    return VKeyed(z3.Real(sym.fresh_name(base + '_val')), z3.Bool(sym.fresh_name(base + '_present')))


VKeyed.fresh_like = _keyed_fresh


class WindowedGroupby(GroupModel, WindowBase):
    """windowed_groupby_accumulator with a column grouper (agg.grouper is a label, batches are plain frames), for an arbitrary
    group-by aggregation `agg` and window policy `diff` that satisfy their contracts (proved above / in c_df_windows); the
    size bookkeeping (GroupbySize) is the real code.  Stream groupers (the `groupers` deque, diff_align) stay bounded-only."""
    qual = 'windowed_groupby_accumulator'
    props = ['C07', 'C12']
    first = False
    tuple_state = False
    inline = ('GroupbySize.initial', 'GroupbySize.on_new', 'GroupbySize.on_old', 'GroupbyAggregation.grouped')
    assumptions = GroupAggBase.assumptions + (
        'windowed group-by: only the column-grouper form is under contract; with a streaming grouper (groupers deque, diff_align) '
        'the function is covered by the bounded enumeration only',)

    def __init__(self):
        self.name = 'windowed_groupby_accumulator[column grouper, %s state, %s batch]' % (
            'tuple' if self.tuple_state else 'single', 'first' if self.first else 'later')
        WindowBase.__init__(self)

    def mk_state(self, rows, p):
        if self.tuple_state:
            return VTuple([VKAbs(rows, p, 'st0'), VKAbs(rows, p, 'st1')])
        return VKAbs(rows, p, 'st')

    def build(self, I):
        st = State()
        I.st = st
        g = st.ghost
        D = z3.Const('dfs0', SeqFrameS)
        new = self.frame('new')
        agg = st.new_obj('AbstractGAgg', {'columns': VElem(z3.Const('columns', sym.Elem)),
                                          'grouper': VElem(z3.Const('grouper_label', sym.Elem))})
        rows0 = z3.Empty(SeqRowS) if self.first else cat_rows(D)
        if self.first:
            acc = NONE
        else:
            p0 = z3.Bool('key_in_index')
            st.assume(z3.Implies(z3.Length(rk(rows0)) > 0, p0))
            acc = st.new_obj('__strdict__', {'dfs': st.new_list(D, K_FRAME), 'state': self.mk_state(rows0, p0),
                                             'size-state': VKeyed(z3.ToReal(z3.Length(rk(rows0))), p0)})
        g['rows_of_state'] = VFrame(rows0)
        g['D2'] = VSeq(z3.Const('dfs_after', SeqFrameS), K_FRAME)
        g['OLD'] = VSeq(z3.Const('old_frames', SeqFrameS), K_FRAME)
        self.finish(I, {'acc': acc, 'new': new, 'agg': agg})
        return None, [acc, new], {'diff': VCallable('diff', may_raise=False), 'window': VInt(z3.Int('window')), 'agg': agg}

    def summaries(self):
        outer = self

        def describes_rows(I, state, rows, what):
            items = state.items if isinstance(state, VTuple) else [state]
            ok = z3.And([it.rows == rows for it in items] + [it.present == items[0].present for it in items[1:]])
            I.oblige(what, ok, kind='callsite')
            I.st.obligations[-1].props = ['C07', 'C12']
            return items[0].present

        def initial(I, recv, args, kwargs):
            return outer.mk_state(z3.Empty(SeqRowS), z3.BoolVal(False))

        def on_new(I, recv, args, kwargs):
            state, new = args
            I.oblige('agg.on_new.is_given_the_batch_grouper', z3.BoolVal(isinstance(kwargs.get('grouper'), VNone)), kind='callsite')
            rows = I.st.ghost['rows_of_state'].t
            p = describes_rows(I, state, rows, 'agg.on_new.state_describes_the_rows')
            nr = z3.Concat(rows, new.t)
            I.st.ghost['rows_of_state'] = VFrame(nr)
            p2 = z3.Or(p, z3.Length(rk(new.t)) > 0)
            return VTuple([outer.mk_state(nr, p2), VKAbs(nr, p2, 'res')])

        def on_old(I, recv, args, kwargs):
            state, old = args
            rows = I.st.ghost['rows_of_state'].t
            p = describes_rows(I, state, rows, 'agg.on_old.state_describes_the_rows')
            I.oblige('agg.on_old.removed_rows_are_the_oldest', z3.PrefixOf(old.t, rows), kind='callsite')
            I.st.obligations[-1].props = ['C07', 'C12']
            rest = z3.Const(sym.fresh_name('rest'), SeqRowS)
            I.st.assume(rows == z3.Concat(old.t, rest))
            I.st.ghost['rows_of_state'] = VFrame(rest)
            return VTuple([outer.mk_state(rest, p), VKAbs(rest, p, 'res')])

        def new_size(I, recv, args, kwargs):
            return I.st.new_obj('GroupbySize', {'columns': args[0], 'grouper': args[1]})
        return {'AbstractGAgg.initial': initial, 'AbstractGAgg.on_new': on_new, 'AbstractGAgg.on_old': on_old,
                'GroupbySize.__new__': new_size}

    def make_interp(self, index):
        I = WindowBase.make_interp(self, index)
        orig = I.call_opaque

        def call_opaque(f, args, kwargs):
            if f.name == 'diff':
                g = I.st.ghost
                dfs, new = args
                t, k = I.seq_term(dfs)
                before = cat_rows(t) if t is not None else z3.Empty(SeqRowS)
                D2, OLD = g['D2'].t, g['OLD'].t
                I.st.assume(z3.Concat(cat_rows(OLD), cat_rows(D2)) == z3.Concat(before, new.t))    # contract of the window policy
                return VTuple([I.st.new_list(D2, K_FRAME), I.st.new_list(OLD, K_FRAME)])
            return orig(f, args, kwargs)
        I.call_opaque = call_opaque
        return I

    def spec_funcs(self):
        d = self.group_hooks(WindowBase.spec_funcs(self))
        base_method, base_getitem = d['frame_method'], d['frame_getitem']

        def frame_method(I, v, name, args, kwargs):
            if isinstance(v, VFrame) and name == 'groupby':
                if isinstance(args[0], VNone):
                    I.raise_('TypeError')
                return VGrouped(rk(v.t))
            if isinstance(v, VKBool) and name == 'all' and not args:
                a = z3.Bool(sym.fresh_name('mask_all'))
                I.st.assume(z3.Implies(a, z3.Implies(v.present, v.b)))      # all() over every key, k among them
                return VBool(a)
            return base_method(I, v, name, args, kwargs)

        def frame_compare(I, op, a, b):
            if isinstance(a, VKeyed) and isinstance(b, (VInt, VReal)):
                y = I.num(b, True)
                if isinstance(op, ast.NotEq):
                    return VKBool(a.val != y, a.present)
                if isinstance(op, ast.Eq):
                    return VKBool(a.val == y, a.present)
                if isinstance(op, ast.Gt):
                    return VKBool(a.val > y, a.present)
            raise Unsupported('comparison of key-indexed objects')

        def frame_getitem(I, base, key):
            if isinstance(key, VKBool):
                if isinstance(base, VKeyed):
                    return VKeyed(base.val, z3.And(base.present, key.b))
                if isinstance(base, VKAbs):
                    return VKAbs(base.rows, z3.And(base.present, key.b), base.what)
            return base_getitem(I, base, key)

        def b_zip(I, args, kwargs, fr):
            a, b = args
            if isinstance(b, VBuiltin) and b.name == 'repeat_none':
                t, k = I.seq_term(a)
                if t is None:
                    t = z3.Empty(SeqFrameS)
                I.oblige('zip.both_sequences_have_the_same_length', I.num(b.n) == z3.Length(t), kind='callsite')
                return VSeq(t, K_FRAME_NONE)
            raise Unsupported('zip(...)')

        def binop_default(I, op, a, b):
            if isinstance(op, ast.Mult) and isinstance(a, VList) and isinstance(b, VInt):
                items = I.concrete_items(a)
                if items is not None and len(items) == 1 and (isinstance(items[0], VNone) or z3.is_true(z3.simplify(I.eq(items[0], NONE)))):
                    r = VBuiltin('repeat_none')
                    r.n = b
                    return r
            raise Unsupported('operator %s' % type(op).__name__)

        def b_series_like(I, args, kwargs, fr):
            if isinstance(args[0], (VNone, VStr, VInt, VElem)):
                return VBool(False)
            raise Unsupported('is_series_like(%r)' % (args[0],))

        def dict_display(I, pairs):
            return I.st.new_obj('__strdict__', {k.s: v for k, v in pairs})

        def rows_now(I):
            return I.st.ghost['rows_of_state']

        def rk_(I, v):
            return VFrame(rk(v.t))

        def describes(I, x, rows):
            items = x.items if isinstance(x, VTuple) else [x]
            return VBool(z3.And([it.rows == rows.t for it in items]))

        def present_(I, x):
            if isinstance(x, VTuple):
                return VBool(z3.And([it.present == x.items[0].present for it in x.items[1:]] + [x.items[0].present]))
            return VBool(x.present)

        def same_index(I, x, y):
            xs = x.items if isinstance(x, VTuple) else [x]
            return VBool(z3.And([it.present == y.present for it in xs]))
        d.update({'frame_method': frame_method, 'frame_compare': frame_compare, 'frame_getitem': frame_getitem,
                  'builtin_zip': b_zip, 'binop_default': binop_default, 'builtin_is_series_like': b_series_like,
                  'dict_display': dict_display, 'rows_now': rows_now, 'rk': rk_, 'describes': describes, 'present': present_,
                  'same_index': same_index})
        return d

    def globals(self):
        g = dict(WindowBase.globals(self))
        g.update({'is_series_like': VBuiltin('is_series_like'), 'is_index_like': VBuiltin('is_index_like'), 'zip': VBuiltin('zip'),
                  'GroupbySize': sym.VClass('GroupbySize')})
        return g

    def loop_specs(self):
        return {('windowed_groupby_accumulator', 0): LoopSpec(
            modifies=['local:state', 'local:result', 'local:size_state', 'local:_', 'ghost:rows_of_state'],
            invariant=[('state_describes_remaining_rows', 'describes(state, rows_now()) and describes(result, rows_now())'),
                       ('remaining_rows', 'rows_now() == cat(_R) + cat(D2)'),
                       ('size_counts_remaining_rows_of_the_key', 'val(size_state) == rlen(rk(rows_now()))'),
                       ('indexes_agree', 'same_index(state, size_state) and same_index(result, size_state)'),
                       ('keys_with_rows_are_in_the_index', 'implies(len(rk(rows_now())) > 0, present(size_state))')],
            props=['C07', 'C12'], name='decay')}

    def clauses(self):
        return [Clause('C07.group_state_is_the_aggregation_over_the_window', ['C07', 'C12'], when='return',
                       text="describes(result[0]['state'], cat(D2)) and list(result[0]['dfs']) == D2 "
                            "and val(result[0]['size-state']) == rlen(rk(cat(D2)))",
                       note='for every key: state and size bookkeeping describe exactly the rows the window policy kept'),
                Clause('C07.group_value_is_the_aggregation_over_the_window', ['C07'], when='return',
                       text='describes(result[1], cat(D2))'),
                Clause('C07.groups_with_no_row_left_disappear', ['C07'], when='return',
                       text="present(result[1]) == (len(rk(cat(D2))) > 0) and present(result[0]['state']) == (len(rk(cat(D2))) > 0) "
                            "and present(result[0]['size-state']) == (len(rk(cat(D2))) > 0)",
                       note='a key is reported iff at least one of its rows is inside the window; every present key has its exact statistic'),
                Clause('C07.never_raises', ['C07'], when='raise', text='False')]


def _mkw(first, tup):
    name = 'WindowedGroupby_%s_%s' % ('first' if first else 'later', 'tuple' if tup else 'single')
    return type(name, (WindowedGroupby,), {'first': first, 'tuple_state': tup})


for _first in (True, False):
    for _tup in (False, True):
        _c = _mkw(_first, _tup)
        globals()[_c.__name__] = _c
        ALL.append(_c)
