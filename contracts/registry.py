"""Which contract serves which property, and the trusted base per property."""
import importlib

MODULES = ['contracts.c_nodes_simple', 'contracts.c_nodes_buffered', 'contracts.c_nodes_keyed', 'contracts.c_emit', 'contracts.c_async', 'contracts.c_nodes_combine', 'contracts.c_kafka', 'contracts.c_loop', 'contracts.c_textfile', 'contracts.c_sources', 'contracts.c_topology', 'contracts.c_dask', 'contracts.c_df_reductions', 'contracts.c_df_groupby', 'contracts.c_df_windows', 'contracts.c_df_rolling', 'contracts.c_lemmas', 'contracts.c_orderedset', 'contracts.c_emit_public', 'contracts.c_df_wiring', 'contracts.c_init', 'contracts.c_periodic', 'contracts.c_frames']

CONTRACTS = []      # (module, class name, props)
for m in MODULES:
    mod = importlib.import_module(m)
    for C in mod.ALL:
        props = set(C.props)
        try:
            # a contract serves every property one of its clauses is tagged with (generic clauses such as reentrancy,
            # balance, "what is emitted is awaited" carry their own tags)
            for cl in C().clauses():
                props |= set(cl.props)
        except Exception:
            pass
        if getattr(C, 'cls', None) in ('buffer', 'combine_latest', 'delay', 'latest', 'partition', 'rate_limit', 'sliding_window',
                                       'timed_window', 'union', 'zip') and m.startswith('contracts.c_') and 'init' not in m:
            # streamz/dask.py re-exports these nodes unchanged for Dask pipelines (`class X(DaskStream, core.X): pass`, checked
            # syntactically in c_dask.py): their step contracts are what makes the Dask pipeline equivalent to the local one
            props.add('C20')
        if 'C04' in props:
            # C09 (commit only after complete processing, at-least-once) is the hold discipline of every node that may sit below
            # the Kafka source composed with the commit-value contract (DESIGN section 6, C09; lemma L-HOLD)
            props.add('C09')
        if 'C03' in props:
            # what a step hands back to the emitter (C03) is also what makes asynchronous consumers run at all (C02) and what
            # carries their failures back (C16)
            props |= {'C02', 'C16'}
        CONTRACTS.append((m, C.__name__, sorted(props)))

# a constructor contract serves every property the step / segment contracts of its class serve: the steps quantify over the
# values of the fields, the constructor connects the fields to what the user wrote (a timeout of 0 turned into None by the
# constructor breaks C02 / C08 through the step that never arms a timer)
_by_cls = {}
for _m, _n, _p in CONTRACTS:
    if _m != 'contracts.c_init':
        _c = getattr(importlib.import_module(_m), _n)
        if getattr(_c, 'cls', None):
            _by_cls.setdefault(_c.cls, set()).update(_p)
for _i, (_m, _n, _p) in enumerate(CONTRACTS):
    if _m == 'contracts.c_init':
        _c = getattr(importlib.import_module(_m), _n)
        if getattr(_c, 'method', '__init__') == '__init__' and getattr(_c, 'cls', None) in _by_cls:
            CONTRACTS[_i] = (_m, _n, sorted(set(_p) | (_by_cls[_c.cls] - {'C20'})))

COMMON_TRUSTED = [
    'pyvc (self-written AST->z3 verification-condition generator) and its encoding of the Python subset (DESIGN 2.2)',
    'z3 5.1.0 (z3-solver wheel), cvc5 1.0.3 for z3 unknowns',
    'CPython semantics of the supported subset (dict insertion order, exception propagation)',
]
COMMON_ASSUMPTIONS = [
    'Python ints are mathematical integers; floats are treated as reals (no rounding)',
    'user callables are deterministic functions of their arguments that may raise; they do not touch node state',
    'decorators, docstrings, logger.* calls and imports inside bodies are dropped by the extraction',
]
TRUSTED_BASE = {}
ASSUMPTIONS = {}
EXTRA_CHECKS = {}


def _bounded(pid, script='df_enum.py', what='real accumulator vs pandas on the concatenated prefix disagree', as_error=False):
    """BOUNDED stand-in next to the proofs of the dataframe properties: the real accumulators with real pandas over an
    enumerated space (bounded/df_enum.py).  Reported under coverage.bounded, never counted in obligations/discharged;
    a mismatch is a violation with the concrete failing input."""
    def run(tier, seed):
        import json, os, subprocess
        here = os.path.dirname(os.path.dirname(os.path.abspath(__file__)))
        repo = os.environ.get('VERIF_REPO', '/repo')
        try:
            p = subprocess.run(['/venv/bin/python', os.path.join(here, 'bounded', script), pid, tier, str(seed), repo],
                               capture_output=True, text=True, timeout=3000)
            d = json.loads(p.stdout)
        except Exception as e:
            return {'coverage': {'bounded': {'error': repr(e)}}, 'violations': [], 'errors': ['bounded enumeration %s failed: %r' % (script, e)]}
        viol, errs = [], []
        for f in d['failures']:
            if as_error:
                # an ASSUMED contract of a dependency is not met by the installed library: the proofs rest on a false assumption;
                # that is a broken check (exit 3), not a violation of the property by streamz
                errs.append('%s: %s (%s)' % (what, f.get('op', '?'), json.dumps(f, default=repr)[:400]))
            else:
                viol.append({'name': 'bounded/%s' % f.get('op', '?'), 'input': f,
                             'detail': what})
        return {'coverage': {'bounded': {'label': 'BOUNDED (not proof)', 'space': d['space'], 'cases': d['cases'],
                                         'distinct_cases': d['distinct'], 'operations': d['ops'], 'failures': len(d['failures']),
                                         'samples': d['samples']}},
                'violations': viol, 'errors': errs}
    return run


for _pid in ('C06', 'C07', 'C11', 'C12', 'C16'):
    EXTRA_CHECKS[_pid] = [_bounded(_pid)]
for _pid in ('C06', 'C07', 'C11', 'C12'):
    # zip(...).map(...) is how operations between streaming dataframes and literals are wired: pack_literals
    EXTRA_CHECKS[_pid].append(_bounded(_pid, 'pure_enum.py', 'the real helper disagrees with its list-level meaning on this concrete input'))
for _pid in ('C13', 'C08', 'C17', 'C10', 'C04'):
    EXTRA_CHECKS[_pid] = [_bounded(_pid, 'pure_enum.py', 'the real helper disagrees with its meaning on this concrete input')]
EXTRA_CHECKS['C01'] = [_bounded('C01', 'pure_enum.py', 'the real helper disagrees with its list-level meaning on this concrete input')]
# bounded conformance of the ASSUMED library contracts (tornado Queue / Condition / timers, asyncio.Queue, OrderedWeakrefSet, zict.LRU)
# against the installed libraries; a mismatch is a checker error (a false assumption), never a violation
for _pid in ('C01', 'C02', 'C03', 'C08', 'C13', 'C14', 'C15', 'C18'):
    EXTRA_CHECKS.setdefault(_pid, []).append(_bounded(_pid, 'lib_conformance.py', 'assumed contract of a dependency is not met by the installed library', as_error=True))
