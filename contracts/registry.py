"""Which contract serves which property, and the trusted base per property."""
import importlib

MODULES = ['contracts.c_nodes_simple', 'contracts.c_nodes_buffered', 'contracts.c_nodes_keyed', 'contracts.c_emit', 'contracts.c_async', 'contracts.c_nodes_combine', 'contracts.c_kafka', 'contracts.c_loop', 'contracts.c_textfile', 'contracts.c_sources', 'contracts.c_topology', 'contracts.c_dask', 'contracts.c_df_reductions', 'contracts.c_df_windows']

CONTRACTS = []      # (module, class name, props)
for m in MODULES:
    mod = importlib.import_module(m)
    for C in mod.ALL:
        CONTRACTS.append((m, C.__name__, list(C.props)))

COMMON_TRUSTED = [
    'pyvc (self-written AST->z3 verification-condition generator) and its encoding of the Python subset (DESIGN 2.2)',
    'z3 5.1.0 (z3-solver wheel), cvc5 1.0.3 for z3 unknowns',
    'CPython semantics of the supported subset (dict insertion order, exception propagation)',
]
COMMON_ASSUMPTIONS = [
    'Python ints are mathematical integers; floats are treated as reals (no rounding)',
    'user callables are deterministic functions of their arguments that may raise; they do not touch node state',
    'decorators, docstrings, logger.* calls and imports inside bodies are dropped by the extraction',
]
TRUSTED_BASE = {}
ASSUMPTIONS = {}
EXTRA_CHECKS = {}
