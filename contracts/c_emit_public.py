"""Stream.emit (streamz/core.py), the public entry point: C03 (the caller gets one awaitable that covers everything downstream,
or blocks in sync() until everything downstream has finished) and the per-thread `asynchronous` flag that selects between the
two modes (C03/C19: it must be restored on every exit, a leaked flag would turn later blocking emits into non-blocking ones)."""
import z3
from pyvc import sym
from pyvc.sym import (VInt, VBool, VNone, VStr, VElem, VSeq, VList, VTuple, VRef, VObj, VCallable, VAw, VExc, VBuiltin, VFunc,
                      K_ELEM, K_MDE, K_MD, K_AW, K_INT, K_OBJ, K_AWS)
from pyvc.state import State, PyRaise, Unsupported, SegmentYield
from pyvc.contract import Contract, Clause
from pyvc.interp import NONE, Frame, Resume
from pyvc.repoindex import locate_nested
from .core_common import CoreSummaries, CORE

f_converted = z3.Function('convert_yielded', sym.SeqAwS, sym.Aw)     # tornado: one future for a list of awaitables (trusted)
f_gathered = z3.Function('asyncio_gather', sym.SeqAwS, sym.Aw)


# Stream.emit is the entry point of every pipeline: the properties about what is delivered (none lost, order, spacing) depend on the
# push happening exactly once, with the loop thread marked asynchronous while downstream nodes (which may emit further) run
ENTRY = ['C01', 'C02', 'C08', 'C13', 'C14']


class EmitPublic(CoreSummaries, Contract):
    """variants: the thread flag is absent / present before the call; the node has a loop / has none"""
    file = CORE
    qual = 'Stream.emit'
    props = ['C02', 'C03', 'C16', 'C19']
    flag_present = False
    has_loop = True
    mode_undecided = False      # True: the node's asynchronous attribute is None (an inner node of a blocking pipeline, or loop= given alone)
    emit_may_raise = True
    assumptions = ('gen.convert_yielded(list of awaitables) is one future that completes when all of them have (tornado, trusted)',
                   'sync(loop, coro_fn) runs coro_fn() on the loop and blocks the calling thread until it has finished, re-raising '
                   'its exception (streamz.core.sync: threads, outside the verified subset, trusted)',
                   'thread_state is a threading.local(): an object whose attributes are private to the calling thread (trusted)')

    def __init__(self):
        self.name = 'Stream.emit[thread flag %s, %s%s]' % ('set' if self.flag_present else 'absent',
                                                           'node has a loop' if self.has_loop else 'no loop',
                                                           ', mode undecided (asynchronous is None)' if self.mode_undecided else '')
        Contract.__init__(self)

    def build(self, I):
        st = State()
        I.st = st
        self.init_ghost(st)
        g = st.ghost
        g['sync_calls'] = VTuple([])
        fields = {'__ref__': VRef(z3.Const('self_ref', sym.Obj), 'Stream'), 'current_value': NONE, 'current_metadata': NONE,
                  'loop': VRef(z3.Const('loop', sym.Obj), 'IOLoop') if self.has_loop else NONE,
                  'asynchronous': NONE if self.mode_undecided else VBool(z3.Bool('self_asynchronous')),
                  'downstreams': VRef(z3.Const('downstreams', sym.Obj), 'OrderedWeakrefSet'), 'name': NONE}
        selfv = st.new_obj('Stream', fields)
        tfields = {}
        if self.flag_present:
            tfields['asynchronous'] = VBool(z3.Bool('flag0'))
        ts = st.new_obj('ThreadLocal', tfields)
        I.globals['thread_state'] = ts
        g['ts'] = ts
        g['flag0'] = tfields.get('asynchronous', NONE)
        x = VElem(z3.Const('x', sym.Elem))
        md = VSeq(z3.Const('md', sym.SeqMdS), K_MDE)
        asy = VBool(z3.Bool('asynchronous_arg'))
        self.pre_args = {'self': selfv, 'x': x, 'asynchronous': asy, 'metadata': md}
        self.pre_state = st.snapshot()
        g['_pre'] = (self.pre_state, self.pre_args)
        I.contract_pre = self.pre_state
        I.contract_pre_frame = self.pre_frame(I)
        return selfv, [x], {'asynchronous': asy, 'metadata': md}

    def globals(self):
        return {'gen': VBuiltin('gen'), 'asyncio': VBuiltin('asyncio'), 'sync': VBuiltin('sync')}

    def summaries(self):
        d = self.core_summaries()

        return d

    def spec_funcs(self):
        d = self.core_spec_funcs()

        def convert_yielded(I, args, kwargs, fr):
            try:
                t, k = I.seq_term(args[0])
            except Unsupported:
                t = None
            if t is None or t.sort() != sym.SeqAwS:
                # not a list of awaitables: some other future about which nothing is known
                return VAw(z3.Const(sym.fresh_name('converted_other'), sym.Aw))
            return VAw(f_converted(t))

        def converted(I, v):
            t, k = I.seq_term(v)
            return VAw(f_converted(t))

        def sync_(I, args, kwargs, fr):
            g = I.st.ghost
            g['sync_calls'] = VTuple(g['sync_calls'].items + [VTuple(list(args))])
            return NONE

        def flag_now(I):
            c = I.st.heap[I.st.ghost['ts'].loc]
            return c.fields.get('asynchronous', NONE)

        def direct(I):
            # the mode selection of emit, over the pre-state
            pre_self = self.pre_state.heap[self.pre_args['self'].loc].fields
            f0 = self.pre_state.ghost['flag0']
            ts_async = I.truth(f0) if not isinstance(f0, VNone) else z3.BoolVal(False)
            no_loop = z3.BoolVal(not self.has_loop)
            return VBool(z3.Or(no_loop, I.truth(self.pre_args['asynchronous']), I.truth(pre_self['asynchronous']), ts_async))

        def is_nested_fn(I, v, name):
            return VBool(isinstance(v, VFunc) and v.qual.endswith(name.s))
        d.update({'builtin_sync': sync_, 'builtin_gen.convert_yielded': convert_yielded, 'converted': converted, 'flag_now': flag_now,
                  'direct_mode': direct, 'is_nested_fn': is_nested_fn})
        return d

    def clauses(self):
        restore = ('flag_now() == flag0' if self.flag_present else 'flag_now() == False or flag_now() is None')
        return [
            Clause('C03.direct_mode_pushes_exactly_once', ['C03'] + ENTRY, when='return',
                   text='implies(direct_mode(), emitted == [x] and emitted_md == [metadata] and len(sync_calls) == 0)'),
            Clause('C03.direct_mode_returns_one_awaitable_covering_every_downstream_result', ['C03'], when='return',
                   text=('implies(direct_mode(), result == converted(emit_rets[0]))' if self.has_loop
                         else 'implies(direct_mode(), result is None)'),
                   note='with a loop the caller can await everything that happens downstream; without a loop the call is purely synchronous'),
            Clause('C03.blocking_mode_hands_the_push_to_sync_once', ['C03'] + ENTRY, when='return',
                   text='implies(not direct_mode(), emitted == [] and len(sync_calls) == 1 and sync_calls[0][0] == self.loop '
                        'and is_nested_fn(sync_calls[0][1], "_"))',
                   note='the push itself happens on the loop thread inside the nested coroutine (contract Stream.emit.<locals>._)'),
            Clause('C19.thread_flag_restored_on_every_exit', ['C03', 'C19'], when='any', text=restore,
                   note='a flag left behind would make later blocking emits of this thread non-blocking (and vice versa)'),
            Clause('C16.failure_of_the_push_reaches_the_caller', ['C16', 'C03'], when='raise:DownstreamError', text='emitted == [x]'),
        ]


class EmitPublicFlagSet(EmitPublic):
    flag_present = True


class EmitPublicModeUndecided(EmitPublic):
    # a node with a loop whose mode was never decided is NOT asynchronous: its callbacks belong on its loop (sync), not on
    # whichever thread happens to call emit
    mode_undecided = True


class EmitPublicModeUndecidedFlagSet(EmitPublic):
    mode_undecided = True
    flag_present = True


class EmitPublicNoLoop(EmitPublic):
    has_loop = False


class EmitPublicNoLoopFlagSet(EmitPublic):
    has_loop = False
    flag_present = True


class EmitBlockingCoroutine(EmitPublic):
    """the nested coroutine `_` that sync() runs on the loop thread in blocking mode; `start` = 0 (to the await) or 1 (after it)"""
    name0 = 'Stream.emit.<locals>._'
    start = 0
    resume_exc = False
    flag_present = False          # the loop thread's own flag before the coroutine runs

    def __init__(self):
        EmitPublic.__init__(self)
        self.name = '%s@%d%s' % (self.name0, self.start, '[downstream failed]' if self.resume_exc else '')

    def unit(self, I, index):
        rel, fnode = index.function('Stream.emit')
        fn = locate_nested(fnode, '_')
        f = VFunc('Stream.emit.<locals>._', fn)

        def run(I):
            selfv, args, kwargs = self.build(I)
            g = I.st.ghost
            g['gathered'] = VTuple([])
            outer = Frame('Stream.emit', {'self': selfv, 'x': args[0], 'metadata': kwargs['metadata']})
            fr = Frame('Stream.emit.<locals>._', {})
            fr.closure = outer
            if self.start == 1:
                # resumed after the await: the flag was set by the first segment, the push has happened
                I.st.heap[g['ts'].loc].fields['asynchronous'] = VBool(True)
                g['flag0'] = VBool(True)
                self.pre_state = I.st.snapshot()
                g['_pre'] = (self.pre_state, self.pre_args)
                I.contract_pre = self.pre_state
            g['value'] = VElem(z3.Const('gather_result', sym.Elem))
            res = Resume(exc=VExc('DownstreamError')) if self.resume_exc else Resume(g['value'])
            try:
                v = I.run_segment(f, fr, self.start, res)
            except (PyRaise, SegmentYield) as e:
                if not hasattr(e, 'frame') or e.frame is None:
                    e.frame = fr
                raise
            return v, fr
        return run

    def spec_funcs(self):
        d = EmitPublic.spec_funcs(self)

        def gather(I, args, kwargs, fr):
            g = I.st.ghost
            items = []
            for a in args:
                items.append(a[1] if isinstance(a, tuple) else a)
            g['gathered'] = VTuple(g['gathered'].items + items)
            return VAw(z3.Const(sym.fresh_name('gather'), sym.Aw))
        d['builtin_asyncio.gather'] = gather
        return d

    def cover(self, outcomes):
        return [('segment reaches a yield or return', any(o.kind in ('yield', 'return') for o in outcomes) or self.resume_exc)]

    def clauses(self):
        if self.start == 0:
            return [Clause('C03.blocking_mode_pushes_once_and_waits_for_everything_downstream', ['C03'] + ENTRY, when='yield:1',
                           text='emitted == [x] and emitted_md == [metadata] and len(gathered) == 1 and gathered[0] == emit_rets[0] '
                                'and flag_now() == True',
                           note='the calling thread stays blocked in sync() until every downstream awaitable has completed'),
                    Clause('C19.loop_thread_flag_removed_when_the_push_fails', ['C03', 'C19', 'C16'], when='raise',
                           text='flag_now() is None and emitted == [x]')]
        return [Clause('C19.loop_thread_flag_removed_afterwards', ['C03', 'C19'], when='any', text='flag_now() is None'),
                Clause('C03.nothing_pushed_twice', ['C03'], when='any', text='emitted == []')]


class EmitBlockingCoroutineResumed(EmitBlockingCoroutine):
    start = 1


class EmitBlockingCoroutineResumedFailed(EmitBlockingCoroutine):
    start = 1
    resume_exc = True


ALL = [EmitPublic, EmitPublicFlagSet, EmitPublicModeUndecided, EmitPublicModeUndecidedFlagSet, EmitPublicNoLoop, EmitPublicNoLoopFlagSet,
       EmitBlockingCoroutine, EmitBlockingCoroutineResumed, EmitBlockingCoroutineResumedFailed]


# --------------------------------------------------------------------------- sync(): the part that blocks the calling thread
class SyncWait(Contract):
    """`sync(loop, func)` after it has posted its runner coroutine to the loop, without `callback_timeout`: the calling thread is
    handed the result (or the exception) only once the runner has finished, however long that takes.  (C03: the blocking emit
    does not return before every consumer has handled the element.)  The runner runs on another thread: its only interface to
    this code is the `threading.Event` it sets when it has finished (modelled: `wait(t)` returns whether the event is set by then,
    an arbitrary answer; `is_set()` reads it)."""
    file = CORE
    files = [CORE]
    qual = 'sync'
    name = 'sync[waiting for the runner, no callback_timeout]'
    props = ['C03', 'C02']
    assumptions = ('threading.Event: wait(t) returns True iff the event is set when it returns, is_set() reads the same flag; the '
                   'runner coroutine sets it exactly when it has finished (trusted; threads are outside the verified subset)',
                   'the statements of sync() before and including loop.add_callback(f) are not part of this unit (closure set-up)')

    def unit(self, I, index):
        import ast
        rel, fnode = index.function('sync')
        k = None
        for i, s in enumerate(fnode.body):
            if isinstance(s, ast.Expr) and isinstance(s.value, ast.Call) and isinstance(s.value.func, ast.Attribute) \
                    and s.value.func.attr == 'add_callback':
                k = i
        if k is None:
            raise KeyError('locator does not resolve: the statement that posts the runner in sync()')
        stmts = fnode.body[k + 1:]

        def run(I):
            from pyvc.state import ReturnSignal
            st = State()
            I.st = st
            g = st.ghost
            g['flag'] = VBool(z3.Bool('runner_finished0'))
            g['waits'] = VInt(0)
            err = st.new_list(z3.Unit(z3.Const('error0', sym.Elem)), K_ELEM)
            res = st.new_list(z3.Unit(z3.Const('result0', sym.Elem)), K_ELEM)
            loc = {'e': VRef(z3.Const('event', sym.Obj), 'Event'), 'timeout': NONE, 'error': err, 'result': res,
                   'loop': VRef(z3.Const('loop', sym.Obj), 'IOLoop')}
            self.pre_args = dict(loc)
            self.pre_state = st.snapshot()
            g['_pre'] = (self.pre_state, self.pre_args)
            I.contract_pre = self.pre_state
            I.contract_pre_frame = self.pre_frame(I)
            fr = Frame('sync', loc)
            from pyvc.repoindex import find_loops
            fr.loop_ids = {id(n): i for i, n in enumerate(find_loops(fnode))}
            try:
                I.exec_block(stmts, fr)
            except ReturnSignal as r:
                return r.value, fr
            return NONE, fr
        return run

    def summaries(self):
        def wait(I, recv, args, kwargs):
            g = I.st.ghost
            now = z3.Bool(sym.fresh_name('finished_by_then'))
            g['flag'] = VBool(z3.Or(g['flag'].t, now))
            g['waits'] = VInt(g['waits'].t + 1)
            return VBool(g['flag'].t)

        def is_set(I, recv, args, kwargs):
            return VBool(I.st.ghost['flag'].t)
        return {'Event.wait': wait, 'Event.is_set': is_set}

    def spec_funcs(self):
        def raise_value(I, v):
            # `raise error[0]`: the exception object the runner stored
            raise PyRaise(VExc('RunnerError'))
        return {'raise_value': raise_value}

    def loop_specs(self):
        from pyvc.loops import LoopSpec
        return {('sync', 0): LoopSpec(modifies=['ghost:flag', 'ghost:waits'], invariant=[('waits_counted', 'waits >= 0')],
                                      props=['C03'], name='wait')}

    def cover(self, outcomes):
        return [('some path leaves the function', any(o.kind in ('return', 'raise') for o in outcomes))]

    def clauses(self):
        return [Clause('C03.blocking_call_returns_only_after_the_runner_has_finished', ['C03', 'C02'], when='return', text='flag',
                       note='a wait that gives up after a fixed time would hand control back while consumers are still busy'),
                Clause('C03.blocking_call_raises_only_after_the_runner_has_finished', ['C03', 'C02'], when='raise', text='flag')]


ALL += [SyncWait]
