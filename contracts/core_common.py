"""Shared contracts of streamz/core.py used by the per-node contracts.

Callee contracts applied at call sites (summaries).  Each summary states the
postcondition of a function that is *itself* proved against its real body by
the contracts in contracts/c_emit.py:
    Stream._emit          -> EmitBody         (fan-out loop, ref-count plumbing)
    Stream._retain_refs   -> RetainBody
    Stream._release_refs  -> ReleaseBody
    RefCounter.retain/release -> RefCounterBody
"""
import z3
from pyvc import sym
from pyvc.sym import (VInt, VBool, VNone, VStr, VElem, VSeq, VList, VTuple, VRef, VObj, VCallable, VAw,
                      VExc, K_ELEM, K_MDE, K_MD, K_AW, K_OBJ, K_INT)
from pyvc.state import State, PyRaise, Unsupported, ObjCell
from pyvc.contract import Contract, Clause
from pyvc.interp import NONE

CORE = 'streamz/core.py'
R = z3.Const('r', sym.Obj)          # the skolemised reference counter all accounting obligations talk about


def md_term(I, md):
    """Seq(Md) term of a metadata argument, or None if it is not a flat list / None."""
    if isinstance(md, VNone):
        return z3.Empty(sym.SeqMdS)
    if isinstance(md, (VSeq, VList)):
        t, k = I.seq_term(md)
        if t is None:
            return z3.Empty(sym.SeqMdS)
        if k is K_MDE:
            return t
    return None


class CoreSummaries:
    """Mixin providing the ghost state and the callee summaries."""
    emit_may_raise = True
    props_shape = ('C10',)

    def init_ghost(self, st):
        st.ghost['emitted'] = VSeq(z3.Empty(sym.SeqElemS), K_ELEM)
        st.ghost['emitted_md'] = VSeq(z3.Empty(sym.SeqSeqMdS), K_MD)
        st.ghost['emit_rets'] = VSeq(z3.Empty(z3.SeqSort(sym.SeqAwS)), sym.K_AWS)
        st.ghost['delta'] = VInt(0)
        st.ghost['emit_raised'] = VBool(False)
        st.ghost['_snaps'] = []
        st.ghost['_released_neg'] = []

    # ---- Stream._emit
    def s_emit(self, I, recv, args, kwargs):
        x = args[0]
        md = args[1] if len(args) > 1 else kwargs.get('metadata', NONE)
        mdt = md_term(I, md)
        if mdt is None:
            I.oblige('emit.metadata_is_None_or_flat_list_of_dicts', False, kind='callsite',
                     note='the metadata handed to _emit is neither None nor a flat list of dictionaries: %r' % (md,))
            I.st.obligations[-1].props = ['C10', 'C05']
            I.st.obligations[-1].replay = {'kind': 'metadata_shape', 'when': 'any'}
            mdt = z3.Const(sym.fresh_name('md_any'), sym.SeqMdS)
        g = I.st.ghost
        if any(t.eq(mdt) for t in g.get('_released_terms', [])) and not z3.is_app_of(z3.simplify(mdt), z3.Z3_OP_SEQ_EMPTY):
            # the very metadata list that is handed downstream was already released by this node in this step: the count can reach
            # zero (and the completion callback be scheduled) while the element is still on its way
            I.oblige('emit.metadata_is_released_only_after_it_has_been_handed_downstream', False, kind='callsite',
                     note='_release_refs(md) precedes _emit(.., md) in the same step')
            I.st.obligations[-1].props = ['C04', 'C05', 'C09']
        if isinstance(x, VList) and isinstance(recv, VObj):
            # aliasing: the object handed downstream must not be one of the node's own live containers, otherwise elements
            # the node appends later show up inside a batch that has already been delivered (and are delivered again)
            for fname, fv in I.st.heap[recv.loc].fields.items():
                if isinstance(fv, VList) and fv.loc == x.loc:
                    I.oblige('emit.emitted_object_is_not_a_live_buffer_of_the_node', False, kind='callsite',
                             note='self.%s itself is passed to _emit' % fname)
                    I.st.obligations[-1].props = ['C08', 'C02', 'C01']
        g['emitted'] = VSeq(z3.Concat(g['emitted'].t, z3.Unit(I.as_elem(x))), K_ELEM)
        g['emitted_md'] = VSeq(z3.Concat(g['emitted_md'].t, z3.Unit(mdt)), K_MD)
        I.set_attr(recv, 'current_value', x)
        I.set_attr(recv, 'current_metadata', md)
        g['_snaps'] = g['_snaps'] + [I.st.snapshot()]
        if self.emit_may_raise and not I.spec_mode:
            rb = z3.Bool(sym.fresh_name('emit_raises'))
            if I.branch(rb):
                g['emit_raised'] = VBool(True)
                I.st.events.append({'kind': 'emit_raise', 'index': z3.Length(g['emit_rets'].t)})
                raise PyRaise(VExc('DownstreamError'))
        ret = z3.Const(sym.fresh_name('emit_ret'), sym.SeqAwS)
        g['emit_rets'] = VSeq(z3.Concat(g['emit_rets'].t, z3.Unit(ret)), sym.K_AWS)
        g['_last_emit_ret'] = ret
        return I.st.new_list(ret, K_AW)

    # ---- Stream._retain_refs / _release_refs  (effect on the skolem counter R)
    def _refs_effect(self, I, args, kwargs, sign):
        md = args[0]
        n = args[1] if len(args) > 1 else kwargs.get('n', VInt(1))
        if isinstance(md, VNone):
            I.raise_('TypeError')       # `for m in None`
        t, k = I.seq_term(md) if isinstance(md, (VSeq, VList)) else (None, None)
        if isinstance(md, VTuple):
            raise Unsupported('_retain/_release_refs on a tuple display')
        if t is None:
            return NONE                 # empty untyped list
        if k is K_MDE:
            eff = I.num(n) * sym.occ(R, t)
        elif k is K_MD:
            # a list of *lists*: `'ref' in m` is a membership test on a list of dicts -> False for every m
            eff = z3.IntVal(0)
            I.st.notes.append('retain/release over a list of lists has no effect')
        else:
            raise Unsupported('_retain/_release_refs over %s' % k)
        g = I.st.ghost
        g['delta'] = VInt(g['delta'].t + sign * eff)
        if sign < 0 and k is K_MDE:
            g['_released_terms'] = g.get('_released_terms', []) + [t]
        if sign < 0:
            # B2: a node releases only what it holds
            held0 = self.own_pre(I)
            I.oblige('release_only_what_is_held', held0 + g['delta'].t >= 0, kind='callsite',
                     note='B2: own holds (held at entry + own retains - own releases) would become negative')
            I.st.obligations[-1].props = ['C05', 'C04', 'C16']
            I.st.obligations[-1].replay = {'kind': 'release_only_what_is_held', 'when': 'any', 'held': self.held_text}
        return NONE

    def s_retain(self, I, recv, args, kwargs):
        return self._refs_effect(I, args, kwargs, +1)

    def s_release(self, I, recv, args, kwargs):
        return self._refs_effect(I, args, kwargs, -1)

    def frame_clause(self, fields=None):
        """All data fields keep their pre-state value."""
        def fn(self_, I, o, fr):
            pre = self.pre_state.heap[self.pre_args['self'].loc]
            post = o.state.heap[self.pre_args['self'].loc]
            fs = []
            for f in (fields if fields is not None else self.data_fields):
                fs.append(values_equal_across(I, self.pre_state, pre.fields[f], o.state, post.fields[f]))
            return z3.And(fs) if fs else z3.BoolVal(True)
        return fn

    def held_during_emit_clause(self):
        """H1 at the moment of each emission: the references handed downstream are still held -- by this node (what it held at
        entry plus its own retains minus its own releases so far) or by its caller, which holds the metadata of the current
        call until update() returns.  A node that releases first and emits afterwards lets the count touch zero while the
        element is on its way."""
        def fn(self_, I, o, fr):
            snaps = o.state.ghost['_snaps']
            if not snaps:
                return None
            held_pre = self.held(I, self.pre_state)
            md = self.pre_args.get('metadata')
            arg = z3.IntVal(0)
            if md is not None and not isinstance(md, VNone):
                t, k = I.seq_term(md)
                if t is not None:
                    arg = sym.occ(R, t)
            fs = []
            for s in snaps:
                g = s.ghost
                emd = g['emitted_md'].t
                n = z3.Length(emd)
                last = emd[n - 1]
                fs.append(held_pre + g['delta'].t + arg >= sym.occ(R, last))
            return z3.And(fs)
        return fn

    def same_exception_clause(self, cls):
        def fn(self_, I, o, fr):
            return z3.BoolVal(o.kind == 'raise' and o.value.cls == cls)
        return fn

    held_text = None

    def own_pre(self, I):
        return self.held(I, self.pre_state)

    def held(self, I, st):
        """Abstraction function: how many holds on the counter R the node legitimately keeps in state st."""
        if not self.held_text:
            return z3.IntVal(0)
        from pyvc.interp import Frame
        fr = Frame(self.qual + '.<held>')
        fr.locals.update(self.pre_args)
        cur = I.st
        I.st = st
        try:
            return I.num(I.eval_spec(self.held_text, fr))
        finally:
            I.st = cur

    def core_summaries(self):
        def n_down(I, recv, args, kwargs):
            # trusted OrderedWeakrefSet contract: len() == number of live children (an arbitrary number >= 0)
            n = z3.Int('n_downstreams')
            I.st.assume(n >= 0)
            return VInt(n)

        def list_down(I, recv, args, kwargs):
            D = z3.Const('D_downstreams', sym.SeqObjS)
            I.st.assume(z3.Length(D) == z3.Int('n_downstreams'))
            return I.st.new_list(D, K_OBJ)
        return {'Stream._emit': self.s_emit, 'Stream._retain_refs': self.s_retain,
                'Stream._release_refs': self.s_release, 'len:OrderedWeakrefSet': n_down,
                'list:OrderedWeakrefSet': list_down}

    # ---- spec functions usable in clause texts
    def core_spec_funcs(self):
        def occ_(I, md):
            t, k = I.seq_term(md)
            if t is None:
                return VInt(0)
            if k is K_MDE:
                return VInt(sym.occ(R, t))
            if k is K_MD:
                return VInt(sym.occs(R, t))
            raise Unsupported('occ over %s' % k)

        def flat_(I, mdl):
            t, k = I.seq_term(mdl)
            return VSeq(sym.flat(t), K_MDE)

        def implies_(I, a, b):
            return VBool(z3.Implies(I.truth(a), I.truth(b)))

        def tup_(I, s):
            t, k = I.seq_term(s)
            return VElem(sym.f_tup(t))

        def elem_(I, v):
            return VElem(I.as_elem(v))

        def iff_(I, a, b):
            return VBool(I.truth(a) == I.truth(b))
        def fst(I, v):
            if isinstance(v, VTuple):
                return v.items[0]
            return VElem(sym.f_untup(I.as_elem(v))[0])

        def snd(I, v):
            if isinstance(v, VTuple):
                return v.items[1]
            return VElem(sym.f_untup(I.as_elem(v))[1])
        return {'fst': fst, 'snd': snd, 'occ': occ_, 'flat': flat_, 'implies': implies_, 'tup': tup_, 'elem': elem_, 'iff': iff_}


def values_equal_across(I, st_a, a, st_b, b):
    """z3 Bool: value a (in state st_a) equals value b (in state st_b)."""
    cur = I.st
    try:
        def norm(st, v):
            I.st = st
            if isinstance(v, VList):
                c = st.list_cell(v.loc)
                if c.kind is None:
                    return ('empty', None)
                return ('seq', c.term, c.kind)
            if isinstance(v, VSeq):
                return ('seq', v.t, v.kind)
            if isinstance(v, sym.VDict):
                c = st.heap[v.loc]
                if c.kkind is None:
                    return ('empty', None)
                return ('dict', c.keys, c.vals)
            if isinstance(v, sym.VSet):
                c = st.heap[v.loc]
                return ('set', c.member)
            return ('val', v)
        na, nb = norm(st_a, a), norm(st_b, b)
        if na[0] == 'empty' or nb[0] == 'empty':
            if na[0] == nb[0]:
                return z3.BoolVal(True)
            o = nb if na[0] == 'empty' else na
            if o[0] in ('seq', 'dict'):
                return z3.Length(o[1]) == 0
            return z3.BoolVal(False)
        if na[0] != nb[0]:
            return z3.BoolVal(False)
        if na[0] == 'seq':
            return na[1] == nb[1] if na[2] is nb[2] else z3.BoolVal(False)
        if na[0] == 'dict':
            # equal on every present key, same insertion order
            k = z3.Const(sym.fresh_name('anykey'), na[1].sort().basis())
            return z3.And(na[1] == nb[1], z3.ForAll([k], z3.Implies(z3.Contains(na[1], z3.Unit(k)),
                                                                    z3.Select(na[2], k) == z3.Select(nb[2], k))))
        if na[0] == 'set':
            return na[1] == nb[1]
        I.st = st_b
        return I.eq(na[1], nb[1])
    finally:
        I.st = cur


class NodeUpdate(CoreSummaries, Contract):
    """Contract skeleton for  <node>.update(self, x, who=None, metadata=None)."""
    file = CORE
    cls = None
    method = 'update'
    harness = 'node_harness'
    data_fields = ()            # fields that make up the node's data state (frame / re-entrancy clauses)

    def __init__(self):
        self.qual = '%s.%s' % (self.cls, self.method)
        Contract.__init__(self)

    def summaries(self):
        return self.core_summaries()

    def spec_funcs(self):
        return self.core_spec_funcs()

    def make_self(self, I):
        raise NotImplementedError

    def base_fields(self):
        return {'__ref__': VRef(z3.Const('self_ref', sym.Obj), 'Stream'),
                'current_value': NONE, 'current_metadata': NONE,
                'loop': VRef(z3.Const('loop', sym.Obj), 'IOLoop'),
                'downstreams': VRef(z3.Const('downstreams', sym.Obj), 'OrderedWeakrefSet'),
                'name': NONE}

    def call_args(self, I):
        x = VElem(z3.Const('x', sym.Elem))
        md = VSeq(z3.Const('md', sym.SeqMdS), K_MDE)
        who = VRef(z3.Const('who', sym.Obj), 'Stream')
        return x, who, md

    def build(self, I):
        st = State()
        I.st = st
        self.init_ghost(st)
        fields = self.base_fields()
        fields.update(self.make_self(I))
        selfv = st.new_obj(self.cls, fields)
        x, who, md = self.call_args(I)
        self.pre_args = {'self': selfv, 'x': x, 'who': who, 'metadata': md}
        self.requires(I, selfv, x, who, md)
        self.pre_state = st.snapshot()
        st.ghost['_pre'] = (self.pre_state, self.pre_args)
        I.contract_pre = self.pre_state
        I.contract_pre_frame = self.pre_frame(I)
        return selfv, [x], {'who': who, 'metadata': md}

    def requires(self, I, selfv, x, who, md):
        I.st.assume(who.t != z3.Const('self_ref', sym.Obj))

    # -- generic clauses -------------------------------------------------
    def frame_clause(self, fields=None):
        """All data fields keep their pre-state value."""
        def fn(self_, I, o, fr):
            pre = self.pre_state.heap[self.pre_args['self'].loc]
            post = o.state.heap[self.pre_args['self'].loc]
            fs = []
            for f in (fields if fields is not None else self.data_fields):
                fs.append(values_equal_across(I, self.pre_state, pre.fields[f], o.state, post.fields[f]))
            return z3.And(fs) if fs else z3.BoolVal(True)
        return fn

    def reentrancy_clause(self):
        """Data state at the moment of every _emit call equals the data state at exit
        (the node is a complete step machine when it is re-entered through a feedback edge)."""
        def fn(self_, I, o, fr):
            snaps = o.state.ghost['_snaps']
            post = o.state.heap[self.pre_args['self'].loc]
            fs = []
            for s in snaps:
                cell = s.heap[self.pre_args['self'].loc]
                for f in self.data_fields:
                    fs.append(values_equal_across(I, s, cell.fields[f], o.state, post.fields[f]))
            return z3.And(fs) if fs else None
        return fn

    def same_exception_clause(self, cls):
        def fn(self_, I, o, fr):
            return z3.BoolVal(o.kind == 'raise' and o.value.cls == cls)
        return fn

    def balance_clause(self):
        """B1: own effect on the counter equals the change of what the node holds."""
        def fn(self_, I, o, fr):
            return o.state.ghost['delta'].t == self.held(I, o.state) - self.held(I, self.pre_state)
        return fn

    def no_over_release_clause(self):
        """On a failing emission the node may keep holds it will never give up (the failed element is never
        checkpointed) but it must not have released more than it still accounts for."""
        def fn(self_, I, o, fr):
            return o.state.ghost['delta'].t >= self.held(I, o.state) - self.held(I, self.pre_state)
        return fn

    def standard_clauses(self, passthrough=True):
        rp = {'held': self.held_text, 'data_fields': list(self.data_fields)}
        cl = [
            Clause('C05.balance', ['C05', 'C04'], fn=self.balance_clause(), when='return', kind='balance', replay=rp,
                   note='own ref-count effect == held(post) - held(pre)'),
            Clause('C16.no_over_release_on_downstream_failure', ['C05', 'C16'], fn=self.no_over_release_clause(),
                   when='raise:DownstreamError', kind='no_over_release', replay=rp),
            Clause('C04.handed_over_references_are_held_during_the_downstream_call', ['C04', 'C05'], fn=self.held_during_emit_clause(),
                   when='normal', note='H1 at every emission: release only after the downstream call has returned'),
            Clause('C01.reentrancy', ['C01', 'C05'], fn=self.reentrancy_clause(), when='return', kind='reentrancy', replay=rp,
                   note='state is final before every emission'),
        ]
        return cl

    # -- replay ------------------------------------------------------------
    def replay_input(self, I, model, outcome):
        from pyvc.decode import Decoder
        d = Decoder(model, R)
        pre = self.pre_state.heap[self.pre_args['self'].loc]
        fields = {}
        for name, v in pre.fields.items():
            if name in ('__ref__', 'current_value', 'current_metadata', 'loop', 'downstreams', 'name'):
                continue
            fields[name] = d.value(I, self.pre_state, v)
        script = []
        st = outcome.state if outcome is not None else I.st
        for ev in st.events:
            if ev['kind'] == 'opaque':
                script.append({'kind': 'opaque', 'name': ev['name'], 'raised': ev['raised'],
                               'args': [d.elem(a) for a in ev['args']],
                               'result': d.elem(ev['result']) if not ev['raised'] else None,
                               'truthy': d.truthy(ev['result']) if not ev['raised'] else None})
            elif ev['kind'] == 'emit_raise':
                script.append({'kind': 'emit_raise', 'index': d.int(ev['index'])})
        return {'harness': self.harness, 'class': self.cls, 'method': self.method, 'fields': fields,
                'x': d.elem(self.pre_args['x'].t), 'metadata': d.md(self.pre_args['metadata'].t),
                'who': d.obj(self.pre_args['who'].t), 'self_ref': d.obj(z3.Const('self_ref', sym.Obj)),
                'script': script, 'extra': self.replay_extra(I, d)}

    def replay_extra(self, I, d):
        return {}
