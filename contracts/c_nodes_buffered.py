"""Step contracts of the buffering synchronous nodes of streamz/core.py."""
import z3
from pyvc import sym
from pyvc.sym import (VInt, VBool, VNone, VStr, VElem, VSeq, VList, VTuple, VRef, VCallable, VAw,
                      K_ELEM, K_MDE, K_MD, K_AW, K_INT, K_OBJ)
from pyvc.state import ListCell, DictCell, SetCell, PyRaise
from pyvc.contract import Clause
from pyvc.interp import NONE
from pyvc.loops import LoopSpec
from .core_common import NodeUpdate, R
from .c_nodes_simple import PASS_THROUGH_PLUMBING, user_raise_clauses, downstream_raise_clauses, ARGS, KWARGS


def deque_field(I, name, kind, maxlen=None):
    t = z3.Const(name, z3.SeqSort(kind.sort))
    return I.st.new_list(t, kind, 'deque', maxlen), t


def list_field(I, name, kind):
    t = z3.Const(name, z3.SeqSort(kind.sort))
    return I.st.new_list(t, kind, 'list'), t


# --------------------------------------------------------------------------- sliding_window
class SlidingWindowUpdate(NodeUpdate):
    cls = 'sliding_window'
    props = ['C01', 'C03', 'C04', 'C05', 'C10']
    data_fields = ('_buffer',)

    def make_self(self, I):
        n = z3.Int('n')
        buf, self.buf_t = deque_field(I, 'buf0', K_ELEM, n)
        mdb, self.mdb_t = deque_field(I, 'mdb0', K_MD, n)
        I.st.assume(n >= 1)
        # node invariant: the metadata buffer describes the last min(len, n-1) window members
        lb, lm = z3.Length(self.buf_t), z3.Length(self.mdb_t)
        I.st.assume(lb <= n)
        I.st.assume(lm == z3.If(lb <= n - 1, lb, n - 1))
        return {'n': VInt(n), '_buffer': buf, 'metadata_buffer': mdb, 'partial': VBool(z3.Bool('partial'))}

    held_text = 'occ(list(self.metadata_buffer))'

    def clauses(self):
        newbuf = "(old(list(self._buffer)) + [x] if old(len(self._buffer)) < self.n else old(list(self._buffer))[1:] + [x])"
        emits = "(self.partial or len(self._buffer) == self.n)"
        return [
            Clause('C01.window_is_last_n', ['C01'], text='list(self._buffer) == ' + newbuf,
                   note='the window holds the last n elements in arrival order'),
            Clause('C01.emits_window', ['C01'],
                   text='emitted == ([tup(list(self._buffer))] if %s else [])' % emits),
            Clause('C10.metadata_of_members', ['C10'],
                   text='emitted_md == ([flat(old(list(self.metadata_buffer)) + [metadata])] if %s else [])' % emits,
                   note='metadata of exactly the members of the emitted window, in member order'),
            Clause('inv.metadata_buffer', ['C05', 'C10'],
                   text='len(self.metadata_buffer) == (len(self._buffer) if len(self._buffer) <= self.n - 1 else self.n - 1)',
                   note='node invariant re-established'),
            Clause('inv.metadata_buffer_content', ['C05', 'C10'],
                   text='list(self.metadata_buffer) == (old(list(self.metadata_buffer)) + [metadata] if old(len(self.metadata_buffer)) + 1 <= self.n - 1 else (old(list(self.metadata_buffer)) + [metadata])[1:])'),
            Clause('C03.returns_emit_result', ['C03'],
                   text='implies(%s, result == emit_rets[0])' % emits),
        ] + self.standard_clauses() + downstream_raise_clauses(self)


# --------------------------------------------------------------------------- collect
class CollectUpdate(NodeUpdate):
    cls = 'collect'
    props = ['C01', 'C04', 'C05', 'C10']
    data_fields = ('cache',)

    def make_self(self, I):
        cache, self.cache_t = deque_field(I, 'cache0', K_ELEM)
        mdc, self.mdc_t = deque_field(I, 'mdc0', K_MDE)
        return {'cache': cache, 'metadata_cache': mdc}

    held_text = 'occ(list(self.metadata_cache))'

    def clauses(self):
        return [
            Clause('C01.caches', ['C01'], text='list(self.cache) == old(list(self.cache)) + [x] and emitted == []'),
            Clause('C10.caches_metadata', ['C10'],
                   text='list(self.metadata_cache) == old(list(self.metadata_cache)) + metadata'),
        ] + self.standard_clauses()


class CollectFlush(NodeUpdate):
    cls = 'collect'
    method = 'flush'
    props = ['C01', 'C04', 'C05', 'C10']
    data_fields = ('cache', 'metadata_cache')

    make_self = CollectUpdate.make_self
    held_text = CollectUpdate.held_text

    def build(self, I):
        r = NodeUpdate.build(self, I)
        return r[0], [], {}

    def clauses(self):
        return [
            Clause('C01.flush_emits_cache_once', ['C01'], text='emitted == [tup(old(list(self.cache)))]'),
            Clause('C01.flush_empties_cache', ['C01'], text='len(self.cache) == 0 and len(self.metadata_cache) == 0'),
            Clause('C10.flush_metadata', ['C10'], text='emitted_md == [old(list(self.metadata_cache))]'),
        ] + self.standard_clauses()


# --------------------------------------------------------------------------- slice
class SliceUpdate(NodeUpdate):
    cls = 'slice'
    props = ['C01', 'C03', 'C05', 'C10', 'C15']
    data_fields = ('state',)
    inline = ('slice._check_end',)
    end_is_none = False

    def make_self(self, I):
        state, star, step = z3.Int('state'), z3.Int('star'), z3.Int('step')
        I.st.assume(state >= 0)
        I.st.assume(star >= 0)
        I.st.assume(step >= 1)
        up = VRef(z3.Const('who', sym.Obj), 'Stream')      # the single upstream is the caller
        f = {'state': VInt(state), 'star': VInt(star), 'step': VInt(step), 'upstreams': VTuple([up])}
        if self.end_is_none:
            f['end'] = NONE
        else:
            end = z3.Int('end')
            # the node is still attached: by the list-slice meaning it is detached once `end` positions have
            # been seen (end == 0: detached at construction, see SliceInit)
            I.st.assume(end >= 0)
            I.st.assume(state < end)
            f['end'] = VInt(end)
        I.st.ghost['detached'] = VBool(False)
        return f

    def summaries(self):
        d = NodeUpdate.summaries(self)

        def remove_downstream(I, recv, args, kwargs):
            I.st.ghost['detached'] = VBool(True)
            return NONE
        d['Stream._remove_downstream'] = remove_downstream
        d['Stream.emit'] = self.s_public_emit
        return d

    def s_public_emit(self, I, recv, args, kwargs):
        """Stream.emit called from inside a node: same data effect as _emit; it returns a single awaitable
        (asynchronous mode) or blocks / returns None -- never the list the emitter has to wait for."""
        self.s_emit(I, recv, args, kwargs)
        return NONE

    def clauses(self):
        inside = "(old(self.state) >= self.star and (old(self.state) - self.star) % self.step == 0" + \
                 ("" if self.end_is_none else " and old(self.state) < self.end") + ")"
        cl = [
            Clause('C01.list_slice_semantics', ['C01'],
                   text='emitted == ([x] if %s else [])' % inside,
                   note='position i passes iff start <= i < end and (i - start) % step == 0, like list[start:end:step]'),
            Clause('C01.counts_positions', ['C01'], text='self.state == old(self.state) + 1'),
            Clause('C10.metadata_unchanged', ['C10'], text='emitted_md == ([metadata] if %s else [])' % inside),
            Clause('C03.returns_emit_result', ['C03'], text='implies(%s, result == emit_rets[0])' % inside,
                   note='the awaitables of the consumers must reach the emitter'),
        ]
        gx = {'ghost_exprs': {'detached': 'self not in list(self.upstreams[0].downstreams)'}}
        if self.end_is_none:
            cl.append(Clause('C15.never_detached', ['C15', 'C01'], text='not detached', replay=gx))
        else:
            cl.append(Clause('C15.detached_after_end', ['C15', 'C01'],
                             text='iff(detached, self.state >= self.end)', replay=gx))
        return cl + self.standard_clauses()


class SliceUpdateNoEnd(SliceUpdate):
    name = 'slice.update[end=None]'
    end_is_none = True


ALL = [SlidingWindowUpdate, CollectUpdate, CollectFlush, SliceUpdate, SliceUpdateNoEnd]
