"""Step contracts of the buffering synchronous nodes of streamz/core.py."""
import z3
from pyvc import sym
from pyvc.sym import (VInt, VBool, VNone, VStr, VElem, VSeq, VList, VTuple, VRef, VCallable, VAw,
                      K_ELEM, K_MDE, K_MD, K_AW, K_INT, K_OBJ)
from pyvc.state import ListCell, DictCell, SetCell, PyRaise
from pyvc.contract import Clause, Contract
from pyvc.state import State
CORE = "streamz/core.py"
from pyvc.interp import NONE
from pyvc.loops import LoopSpec
from .core_common import NodeUpdate, R
from .c_nodes_simple import PASS_THROUGH_PLUMBING, user_raise_clauses, downstream_raise_clauses, ARGS, KWARGS


def deque_field(I, name, kind, maxlen=None):
    t = z3.Const(name, z3.SeqSort(kind.sort))
    return I.st.new_list(t, kind, 'deque', maxlen), t


def list_field(I, name, kind):
    t = z3.Const(name, z3.SeqSort(kind.sort))
    return I.st.new_list(t, kind, 'list'), t


# --------------------------------------------------------------------------- sliding_window
class SlidingWindowUpdate(NodeUpdate):
    cls = 'sliding_window'
    props = ['C01', 'C03', 'C04', 'C05', 'C10']
    data_fields = ('_buffer',)

    def make_self(self, I):
        n = z3.Int('n')
        buf, self.buf_t = deque_field(I, 'buf0', K_ELEM, n)
        mdb, self.mdb_t = deque_field(I, 'mdb0', K_MD, n)
        I.st.assume(n >= 1)
        # node invariant: the metadata buffer describes the last min(len, n-1) window members
        lb, lm = z3.Length(self.buf_t), z3.Length(self.mdb_t)
        I.st.assume(lb <= n)
        I.st.assume(lm == z3.If(lb <= n - 1, lb, n - 1))
        return {'n': VInt(n), '_buffer': buf, 'metadata_buffer': mdb, 'partial': VBool(z3.Bool('partial'))}

    held_text = 'occ(list(self.metadata_buffer))'

    def clauses(self):
        newbuf = "(old(list(self._buffer)) + [x] if old(len(self._buffer)) < self.n else old(list(self._buffer))[1:] + [x])"
        emits = "(self.partial or len(self._buffer) == self.n)"
        return [
            Clause('C01.window_is_last_n', ['C01'], text='list(self._buffer) == ' + newbuf,
                   note='the window holds the last n elements in arrival order'),
            Clause('C01.emits_window', ['C01'],
                   text='emitted == ([tup(list(self._buffer))] if %s else [])' % emits),
            Clause('C10.metadata_of_members', ['C10'],
                   text='emitted_md == ([flat(old(list(self.metadata_buffer)) + [metadata])] if %s else [])' % emits,
                   note='metadata of exactly the members of the emitted window, in member order'),
            Clause('inv.metadata_buffer', ['C05', 'C10'],
                   text='len(self.metadata_buffer) == (len(self._buffer) if len(self._buffer) <= self.n - 1 else self.n - 1)',
                   note='node invariant re-established'),
            Clause('inv.metadata_buffer_content', ['C05', 'C10'],
                   text='list(self.metadata_buffer) == (old(list(self.metadata_buffer)) + [metadata] if old(len(self.metadata_buffer)) + 1 <= self.n - 1 else (old(list(self.metadata_buffer)) + [metadata])[1:])'),
            Clause('C03.returns_emit_result', ['C03'],
                   text='implies(%s, result == emit_rets[0])' % emits),
        ] + self.standard_clauses() + downstream_raise_clauses(self)


# --------------------------------------------------------------------------- collect
class CollectUpdate(NodeUpdate):
    cls = 'collect'
    props = ['C01', 'C04', 'C05', 'C10']
    data_fields = ('cache',)

    def make_self(self, I):
        cache, self.cache_t = deque_field(I, 'cache0', K_ELEM)
        mdc, self.mdc_t = deque_field(I, 'mdc0', K_MDE)
        return {'cache': cache, 'metadata_cache': mdc}

    held_text = 'occ(list(self.metadata_cache))'

    def clauses(self):
        return [
            Clause('C01.caches', ['C01'], text='list(self.cache) == old(list(self.cache)) + [x] and emitted == []'),
            Clause('C10.caches_metadata', ['C10'],
                   text='list(self.metadata_cache) == old(list(self.metadata_cache)) + metadata'),
        ] + self.standard_clauses()


class CollectFlush(NodeUpdate):
    cls = 'collect'
    method = 'flush'
    props = ['C01', 'C04', 'C05', 'C10']
    data_fields = ('cache', 'metadata_cache')

    make_self = CollectUpdate.make_self
    held_text = CollectUpdate.held_text

    def build(self, I):
        r = NodeUpdate.build(self, I)
        return r[0], [], {}

    def clauses(self):
        return [
            Clause('C01.flush_emits_cache_once', ['C01'], text='emitted == [tup(old(list(self.cache)))]'),
            Clause('C01.flush_empties_cache', ['C01'], text='len(self.cache) == 0 and len(self.metadata_cache) == 0'),
            Clause('C10.flush_metadata', ['C10'], text='emitted_md == [old(list(self.metadata_cache))]'),
        ] + self.standard_clauses()


# --------------------------------------------------------------------------- slice
class SliceUpdate(NodeUpdate):
    cls = 'slice'
    props = ['C01', 'C03', 'C05', 'C10', 'C15']
    data_fields = ('state',)
    inline = ('slice._check_end',)
    end_is_none = False

    def make_self(self, I):
        state, star, step = z3.Int('state'), z3.Int('star'), z3.Int('step')
        I.st.assume(state >= 0)
        I.st.assume(star >= 0)
        I.st.assume(step >= 1)
        up = VRef(z3.Const('who', sym.Obj), 'Stream')      # the single upstream is the caller
        f = {'state': VInt(state), 'star': VInt(star), 'step': VInt(step), 'upstreams': VTuple([up])}
        if self.end_is_none:
            f['end'] = NONE
        else:
            end = z3.Int('end')
            # the node is still attached: by the list-slice meaning it is detached once `end` positions have
            # been seen (end == 0: detached at construction, see SliceInit)
            I.st.assume(end >= 0)
            I.st.assume(state < end)
            f['end'] = VInt(end)
        I.st.ghost['detached'] = VBool(False)
        return f

    def summaries(self):
        d = NodeUpdate.summaries(self)

        def remove_downstream(I, recv, args, kwargs):
            I.st.ghost['detached'] = VBool(True)
            return NONE
        d['Stream._remove_downstream'] = remove_downstream
        d['Stream.emit'] = self.s_public_emit
        return d

    def s_public_emit(self, I, recv, args, kwargs):
        """Stream.emit called from inside a node: same data effect as _emit; it returns a single awaitable
        (asynchronous mode) or blocks / returns None -- never the list the emitter has to wait for."""
        self.s_emit(I, recv, args, kwargs)
        return NONE

    def clauses(self):
        inside = "(old(self.state) >= self.star and (old(self.state) - self.star) % self.step == 0" + \
                 ("" if self.end_is_none else " and old(self.state) < self.end") + ")"
        cl = [
            Clause('C01.list_slice_semantics', ['C01'],
                   text='emitted == ([x] if %s else [])' % inside,
                   note='position i passes iff start <= i < end and (i - start) % step == 0, like list[start:end:step]'),
            Clause('C01.counts_positions', ['C01'], text='self.state == old(self.state) + 1'),
            Clause('C10.metadata_unchanged', ['C10'], text='emitted_md == ([metadata] if %s else [])' % inside),
            Clause('C03.returns_emit_result', ['C03'], text='implies(%s, result == emit_rets[0])' % inside,
                   note='the awaitables of the consumers must reach the emitter'),
        ]
        gx = {'ghost_exprs': {'detached': 'self not in list(self.upstreams[0].downstreams)'}}
        if self.end_is_none:
            cl.append(Clause('C15.never_detached', ['C15', 'C01'], text='not detached', replay=gx))
        else:
            cl.append(Clause('C15.detached_after_end', ['C15', 'C01'],
                             text='iff(detached, self.state >= self.end)', replay=gx))
        return cl + self.standard_clauses()


class SliceUpdateNoEnd(SliceUpdate):
    name = 'slice.update[end=None]'
    end_is_none = True


class SliceInit(Contract):
    """slice.__init__(upstream, start, end, step): the fields the step contract quantifies over are what the caller wrote
    (None meaning 0 / no end / 1), counting starts at position 0, and the invariant of the step contract is established:
    a node whose window is already over (end == 0) is detached before the first element can reach it."""
    file = CORE
    files = [CORE]
    qual = 'slice.__init__'
    props = ['C01', 'C15']
    inline = ('slice._check_end',)
    given = (True, True, True)          # which of start / end / step are integers (the others are None)
    harness = None

    def __init__(self):
        self.name = 'slice.__init__[%s]' % ', '.join('%s=%s' % (n, 'int' if g else 'None') for n, g in zip(('start', 'end', 'step'), self.given))
        Contract.__init__(self)

    def build(self, I):
        st = State()
        I.st = st
        g = st.ghost
        args = {}
        for n, giv in zip(('start', 'end', 'step'), self.given):
            if giv:
                v = z3.Int('arg_' + n)
                st.assume(v >= 0)        # negative indices: ValueError, clause below
                args[n] = VInt(v)
            else:
                args[n] = NONE
            g['arg_' + n] = args[n]
        up = VRef(z3.Const('upstream', sym.Obj), 'Stream')
        g['detached'] = VBool(False)
        g['base_init_calls'] = VInt(0)
        selfv = st.new_obj('slice', {})
        self.pre_args = dict(args, self=selfv, upstream=up)
        self.pre_state = st.snapshot()
        g['_pre'] = (self.pre_state, self.pre_args)
        I.contract_pre = self.pre_state
        I.contract_pre_frame = self.pre_frame(I)
        return selfv, [up], dict(args)

    def summaries(self):
        def base_init(I, recv, args, kwargs):
            g = I.st.ghost
            selfv, up = args[0], args[1]
            I.set_attr(selfv, 'upstreams', VTuple([up]))
            g['base_init_calls'] = VInt(g['base_init_calls'].t + 1)
            g['base_upstream_ok'] = VBool(I.eq(up, self.pre_args['upstream']))
            return NONE

        def remove_downstream(I, recv, args, kwargs):
            I.st.ghost['detached'] = VBool(z3.And(I.eq(recv, self.pre_args['upstream']), I.eq(args[0], self.pre_args['self'], identity=True)))
            return NONE

        def kw_pop(I, recv, args, kwargs):
            return args[1] if len(args) > 1 else NONE
        return {'Stream.__init__': base_init, 'Stream._remove_downstream': remove_downstream, 'str.pop': kw_pop}

    def spec_funcs(self):
        def implies_(I, a, b):
            return VBool(z3.Implies(I.truth(a), I.truth(b)))

        def iff_(I, a, b):
            return VBool(I.truth(a) == I.truth(b))
        return {'implies': implies_, 'iff': iff_}

    def clauses(self):
        s, e, t = self.given
        cl = [Clause('C01.counting_starts_at_position_0', ['C01'], text='self.state == 0'),
              Clause('C01.start_is_what_the_caller_wrote', ['C01'], text='self.star == %s' % ('arg_start' if s else '0')),
              Clause('C01.step_is_what_the_caller_wrote', ['C01'],
                     text='self.step == (arg_step if arg_step != 0 else 1)' if t else 'self.step == 1',
                     note='step=None and step=0 both mean 1 (`step or 1`)'),
              Clause('C01.end_is_what_the_caller_wrote', ['C01'], text='self.end == arg_end' if e else 'self.end is None'),
              Clause('C15.attached_to_the_upstream_by_the_base_constructor', ['C15', 'C01'], text='base_init_calls == 1 and base_upstream_ok'),
              Clause('C15.a_window_that_is_already_over_is_detached_at_construction', ['C15', 'C01'],
                     text='iff(detached, arg_end == 0)' if e else 'not detached',
                     note='list[start:0:step] is empty: with end == 0 not even the first element may pass, so the node must not '
                          'stay attached until its first update (the step contract assumes state < end on entry)'),
              Clause('C01.nonnegative_arguments_are_accepted', ['C01'], when='raise', text='False')]
        return cl


def _mk_slice_init(given):
    return type('SliceInit_' + ''.join('i' if g else 'n' for g in given), (SliceInit,), {'given': given})


SLICE_INITS = [_mk_slice_init((a, b, c)) for a in (True, False) for b in (True, False) for c in (True, False)]
for _c in SLICE_INITS:
    globals()[_c.__name__] = _c

ALL = [SlidingWindowUpdate, CollectUpdate, CollectFlush, SliceUpdate, SliceUpdateNoEnd] + SLICE_INITS
