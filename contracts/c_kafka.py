"""C09: batched Kafka source (streamz/sources.py: FromKafkaBatched.poll_kafka, get_message_batch).

Units under contract (structural locators inside FromKafkaBatched.poll_kafka):
  * the body of the per-partition loop  `for partition in range(self.npartitions): ... try: get_watermark_offsets ...`
  * the nested functions commit(_part) and checkpoint_emit(_part)
  * the seeding loop `for tp in committed: self.positions[tp.partition] = tp.offset`
and the batch reader get_message_batch (while loop with invariant).
The broker/client API is a trusted contract (DESIGN section 3)."""
import ast
import z3
from pyvc import sym
from pyvc.sym import (VInt, VReal, VBool, VNone, VStr, VElem, VSeq, VList, VTuple, VRef, VObj, VCallable, VAw,
                      VBuiltin, VFunc, VExc, VMdEntry, K_ELEM, K_MDE, K_MD, K_AW, K_INT, K_OBJ)
from pyvc.state import State, PyRaise, Unsupported, SegmentYield, ObjCell
from pyvc.contract import Contract, Clause
from pyvc.interp import NONE, Frame
from pyvc.loops import LoopSpec
from pyvc.repoindex import locate_loop, locate_nested
from .core_common import CoreSummaries, R

SRC = 'streamz/sources.py'


def is_partition_loop(l):
    return isinstance(l, ast.For) and isinstance(l.target, ast.Name) and l.target.id == 'partition' \
        and any(isinstance(s, ast.Try) for s in l.body)


class KafkaBase(CoreSummaries, Contract):
    file = SRC
    files = [SRC, 'streamz/core.py']
    qual = 'FromKafkaBatched.poll_kafka'
    harness = 'kafka_harness'

    def finish(self, I, args):
        self.pre_args = args
        self.pre_state = I.st.snapshot()
        I.st.ghost['_pre'] = (self.pre_state, self.pre_args)
        I.contract_pre = self.pre_state
        I.contract_pre_frame = self.pre_frame(I)

    def spec_funcs(self):
        d = self.core_spec_funcs()

        def ck_tp(I, args, kwargs, fr):
            items = list(args) + [VInt(-1001)] * (3 - len(args))
            return VElem(sym.user_func('TopicPartition', 3)(*[I.as_elem(a) for a in items[:3]]))

        def tp(I, *args):
            return ck_tp(I, list(args), {}, None)

        def imax(I, a, b):
            x, y = I.num(a), I.num(b)
            return VInt(z3.If(x >= y, x, y))

        def imin(I, a, b):
            x, y = I.num(a), I.num(b)
            return VInt(z3.If(x <= y, x, y))
        d.update({'builtin_ck.TopicPartition': ck_tp, 'tp': tp, 'imax': imax, 'imin': imin})
        return d

    def globals(self):
        return {'ck': VBuiltin('ck'), 'gen': VBuiltin('gen')}


class PartitionBody(KafkaBase):
    """One iteration of the per-partition loop for an arbitrary partition p, arbitrary position, watermarks and
    max_batch_size: offset arithmetic of the batch that is (or is not) emitted."""
    name = 'FromKafkaBatched.poll_kafka/<per-partition loop body>'
    props = ['C09']
    reset_follows_config = True
    assumptions = ('confluent_kafka: get_watermark_offsets returns (low, high) with 0 <= low <= high or raises '
                   'RuntimeError/KafkaException; committed() reports -1001 for "no committed offset" (trusted)',
                   'batches of a partition complete in order (proviso of the property)',
                   'before the first pass over the partitions has ended the auto.offset.reset entry of consumer_params '
                   'is the value configured by the user (the flip to earliest afterwards is a separate obligation)')

    def unit(self, I, index):
        rel, fnode = index.function(self.qual)
        loop = locate_loop(fnode, is_partition_loop)

        def run(I):
            st = State()
            I.st = st
            self.init_ghost(st)
            g = st.ghost
            n, p, B = z3.Int('npartitions'), z3.Int('partition'), z3.Int('max_batch_size')
            st.assume(z3.And(n >= 1, p >= 0, p < n, B >= 1))
            P0 = z3.Const('positions0', z3.SeqSort(z3.IntSort()))
            st.assume(z3.Length(P0) == n)
            pos = z3.Int('pos0')
            Pp, Ps = z3.Const('Pp', P0.sort()), z3.Const('Ps', P0.sort())
            st.assume(P0 == z3.Concat(Pp, z3.Unit(pos), Ps))
            st.assume(z3.Length(Pp) == p)
            st.assume(pos >= -1001)
            g['_index_hints'] = [(P0, p, Pp, pos, Ps)]
            g['pos0'] = VInt(pos)
            g['Pp'], g['Ps'] = VSeq(Pp, K_INT), VSeq(Ps, K_INT)
            g['wm_failed'] = VBool(False)
            g['wm_low'], g['wm_high'] = VInt(z3.Int('wm_low')), VInt(z3.Int('wm_high'))
            st.assume(z3.And(g['wm_low'].t >= 0, g['wm_low'].t <= g['wm_high'].t))
            reset = VElem(z3.Const('reset_cfg', sym.Elem))
            g['reset_cfg'] = reset
            cur_reset = reset if self.reset_follows_config else VElem(z3.Const('reset_now', sym.Elem))
            params = st.new_obj('__strdict__', {'auto.offset.reset': cur_reset, 'enable.auto.commit': VStr('false')})
            positions = st.new_list(P0, K_INT)
            selfv = st.new_obj('FromKafkaBatched', {
                'positions': positions, 'npartitions': VInt(n), 'max_batch_size': VInt(B),
                'consumer': VRef(z3.Const('consumer', sym.Obj), 'Consumer'), 'consumer_params': params,
                'topic': VElem(z3.Const('topic', sym.Elem)), 'keys': VElem(z3.Const('keys', sym.Elem)),
                'started': VBool(z3.Bool('started0')), 'stopped': VBool(False)})
            out = st.new_list(z3.Const('out0', sym.SeqElemS), K_ELEM)
            loc = {'self': selfv, 'partition': VInt(p), 'out': out, 'ck': VBuiltin('ck')}
            self.finish(I, dict(loc))
            fr = Frame(self.qual, loc)
            fr.loop_ids = {}
            from pyvc.state import ContinueSignal
            try:
                I.exec_block(loop.body, fr)
            except ContinueSignal:
                pass
            return NONE, fr
        return run

    def summaries(self):
        d = self.core_summaries()

        def watermarks(I, recv, args, kwargs):
            g = I.st.ghost
            which = I.choose(3, 'wm')
            if which == 0:
                g['wm_failed'] = VBool(True)
                raise PyRaise(VExc('RuntimeError'))
            if which == 1:
                g['wm_failed'] = VBool(True)
                raise PyRaise(VExc('KafkaException'))
            return VTuple([g['wm_low'], g['wm_high']])
        d['Consumer.get_watermark_offsets'] = watermarks
        return d

    def clauses(self):
        pos1 = "(wm_high if (reset_cfg == 'latest' and pos0 == -1001) else pos0)"
        lo = "imax(%s, wm_low)" % pos1
        hi_excl = "imin(wm_high, %s + self.max_batch_size)" % lo
        batch = "elem((self.consumer_params, self.topic, partition, self.keys, %s, %s - 1))" % (lo, hi_excl)
        emits = "(not wm_failed and %s > %s)" % (hi_excl, lo)
        return [
            Clause('C09.batch_range', ['C09'], when='return',
                   text='list(out) == (old(list(out)) + [%s] if %s else old(list(out)))' % (batch, emits),
                   note='a batch (lo, hi) is emitted iff new offsets exist: lo = max(position, low watermark) where the '
                        'position is the committed offset or the configured reset position; hi = min(high watermark, lo + max_batch_size) - 1'),
            Clause('C09.position_advances_past_the_batch', ['C09'], when='return',
                   text='list(self.positions) == Pp + [(%s if %s else (pos0 if wm_failed else %s))] + Ps' % (hi_excl, emits, pos1),
                   note='next batch of the partition starts right after this one (contiguous, non-overlapping); other partitions untouched'),
            Clause('C09.never_past_high_watermark_nor_over_batch_size', ['C09'], when='return',
                   text='implies(%s, %s - 1 <= wm_high - 1 and (%s - 1) - %s + 1 <= self.max_batch_size and %s <= %s - 1 and %s >= wm_low)'
                        % (emits, hi_excl, hi_excl, lo, lo, hi_excl, lo)),
            Clause('C09.failed_watermark_query_changes_nothing', ['C09'], when='return',
                   text='implies(wm_failed, list(self.positions) == old(list(self.positions)) and list(out) == old(list(out)))'),
            Clause('C09.reset_position_is_not_changed_while_partitions_are_being_examined', ['C09'], when='return',
                   text="self.consumer_params['auto.offset.reset'] == old(self.consumer_params['auto.offset.reset'])",
                   note='every partition of one pass is positioned with the same (configured) reset rule; the switch to earliest '
                        'belongs after the whole pass'),
        ]

    def cover(self, outcomes):
        return [('loop body completes', any(o.kind == 'return' for o in outcomes)), ('>= 4 paths', len(outcomes) >= 4)]


class PartitionBodyAfterFlip(PartitionBody):
    """The same body in a state where auto.offset.reset has already been overwritten with 'earliest' (any pass after the
    first): a partition that still has no position (-1001) must be started according to the *configured* reset."""
    name = 'FromKafkaBatched.poll_kafka/<per-partition loop body, after the reset flip>'
    reset_follows_config = False
    assumptions = PartitionBody.assumptions[:2] + (
        'partitions added by refresh_partitions are excluded here (they are deliberately read from the beginning)',)

    def clauses(self):
        out = [c for c in PartitionBody.clauses(self) if c.name in ('C09.batch_range',)]
        for c in out:
            c.kind = 'protocol'
            c.replay = {'scenario': 'kafka_reset_after_failed_watermark'}
        return out


def is_seed_loop(l):
    import ast as _ast
    return isinstance(l, _ast.For) and isinstance(l.iter, _ast.Name) and l.iter.id == 'committed'


class SeedBody(KafkaBase):
    """One iteration of `for tp in committed:` at the start of poll_kafka: the position of the partition becomes exactly what the
    broker reports as committed, including the sentinel -1001 ("nothing committed") that the per-partition body resolves with
    the configured reset rule."""
    name = 'FromKafkaBatched.poll_kafka/<seeding positions from the committed offsets>'
    props = ['C09']
    assumptions = ('confluent_kafka: committed() returns one TopicPartition per requested partition whose offset is the committed '
                   'offset or -1001 (trusted)',)

    def unit(self, I, index):
        rel, fnode = index.function(self.qual)
        loop = locate_loop(fnode, is_seed_loop)

        def run(I):
            st = State()
            I.st = st
            self.init_ghost(st)
            g = st.ghost
            n, p, off = z3.Int('npartitions'), z3.Int('partition'), z3.Int('committed_offset')
            st.assume(z3.And(n >= 1, p >= 0, p < n, off >= -1001))
            P0 = z3.Const('positions0', z3.SeqSort(z3.IntSort()))
            st.assume(z3.Length(P0) == n)
            pos = z3.Int('pos0')
            Pp, Ps = z3.Const('Pp', P0.sort()), z3.Const('Ps', P0.sort())
            st.assume(P0 == z3.Concat(Pp, z3.Unit(pos), Ps))
            st.assume(z3.Length(Pp) == p)
            g['_index_hints'] = [(P0, p, Pp, pos, Ps)]
            g['Pp'], g['Ps'] = VSeq(Pp, K_INT), VSeq(Ps, K_INT)
            g['committed_offset'] = VInt(off)
            positions = st.new_list(P0, K_INT)
            selfv = st.new_obj('FromKafkaBatched', {'positions': positions, 'npartitions': VInt(n)})
            tp = st.new_obj('TopicPartition', {'partition': VInt(p), 'offset': VInt(off), 'topic': VElem(z3.Const('topic', sym.Elem))})
            loc = {'self': selfv, 'tp': tp, 'ck': VBuiltin('ck')}
            self.finish(I, dict(loc))
            fr = Frame(self.qual, loc)
            fr.loop_ids = {}
            from pyvc.state import ContinueSignal
            try:
                I.exec_block(loop.body, fr)
            except ContinueSignal:
                pass
            return NONE, fr
        return run

    def clauses(self):
        return [Clause('C09.position_starts_at_what_the_broker_reports_as_committed', ['C09'], when='return',
                       text='list(self.positions) == Pp + [committed_offset] + Ps',
                       note='-1001 included: it is what makes the configured auto.offset.reset apply to a group without a commit'),
                Clause('C09.seeding_never_fails', ['C09'], when='raise', text='False')]


class CommitFn(KafkaBase):
    name = 'FromKafkaBatched.poll_kafka/commit'
    props = ['C09', 'C04']

    def unit(self, I, index):
        rel, fnode = index.function(self.qual)
        fn = locate_nested(fnode, 'commit')

        def run(I):
            st = State()
            I.st = st
            self.init_ghost(st)
            g = st.ghost
            g['commits'] = VTuple([])
            lo, hi, p = z3.Int('lo'), z3.Int('hi'), z3.Int('part_no')
            part = VTuple([VElem(z3.Const('params', sym.Elem)), VElem(z3.Const('topic', sym.Elem)), VInt(p),
                           VElem(z3.Const('keys', sym.Elem)), VInt(lo), VInt(hi)])
            selfv = st.new_obj('FromKafkaBatched', {'consumer': VRef(z3.Const('consumer', sym.Obj), 'Consumer')})
            outer = Frame(self.qual, {'self': selfv, 'ck': VBuiltin('ck')})
            f = VFunc(self.qual + '.<locals>.commit', fn)
            f.closure = outer
            self.finish(I, {'_part': part, 'self': selfv})
            frames = []
            v = I.run_function(f, [part], {}, frame_out=frames)
            return v, frames[0]
        return run

    def summaries(self):
        def commit(I, recv, args, kwargs):
            g = I.st.ghost
            offs = kwargs.get('offsets')
            items = I.concrete_items(offs)
            g['commits'] = VTuple(g['commits'].items + [VTuple([items[0], kwargs.get('asynchronous', NONE)])])
            return NONE
        return {'Consumer.commit': commit}

    def clauses(self):
        return [Clause('C09.commits_offset_just_after_the_batch', ['C09'], when='return',
                       text='len(commits) == 1 and commits[0][0] == tp(_part[1], _part[2], _part[5] + 1)',
                       note='the offset committed for (topic, partition) is the one just after the last offset of the batch')]


class CheckpointEmit(KafkaBase):
    name = 'FromKafkaBatched.poll_kafka/checkpoint_emit'
    props = ['C09', 'C04']

    def unit(self, I, index):
        rel, fnode = index.function(self.qual)
        fn = locate_nested(fnode, 'checkpoint_emit')

        def run(I):
            st = State()
            I.st = st
            self.init_ghost(st)
            g = st.ghost
            g['new_counters'] = VTuple([])
            part = VElem(z3.Const('part', sym.Elem))
            selfv = st.new_obj('FromKafkaBatched', {'loop': VRef(z3.Const('loop', sym.Obj), 'IOLoop'),
                                                   'current_value': NONE, 'current_metadata': NONE})
            # the enclosing scope: by the time a completion callback runs, the loop variable `part` of poll_kafka's
            # `for part in out:` names whichever batch was handed out LAST, in general not this one
            other = VElem(z3.Const('part_handed_out_last', sym.Elem))
            outer = Frame(self.qual, {'self': selfv, 'ck': VBuiltin('ck'), 'commit': VCallable('commit_fn'), 'part': other})
            f = VFunc(self.qual + '.<locals>.checkpoint_emit', fn)
            f.closure = outer
            self.finish(I, {'_part': part, 'self': selfv})
            fr = Frame(f.qual, {'_part': part})
            fr.closure = outer
            I.segment_mode = True
            v = I.run_segment(f, fr, 0, None)
            return v, fr
        return run

    emit_may_raise = False

    def summaries(self):
        d = self.core_summaries()

        def new_counter(I, recv, args, kwargs):
            g = I.st.ghost
            ref = VRef(z3.Const(sym.fresh_name('newref'), sym.Obj), 'RefCounter')
            cnt = kwargs.get('initial', args[0] if args else VInt(0))
            g['new_counters'] = VTuple(g['new_counters'].items + [VTuple([ref, cnt, kwargs.get('cb', NONE), kwargs.get('loop', NONE)])])
            return ref
        d['RefCounter.__new__'] = new_counter
        return d

    def spec_funcs(self):
        d = KafkaBase.spec_funcs(self)

        def dict_display(I, pairs):
            if len(pairs) == 1 and isinstance(pairs[0][0], VStr) and pairs[0][0].s == 'ref' and isinstance(pairs[0][1], VRef):
                m = z3.Const(sym.fresh_name('mdentry'), sym.Md)
                I.st.assume(sym.f_has_ref(m))
                I.st.assume(sym.f_ref_of(m) == pairs[0][1].t)
                return VMdEntry(m)
            raise Unsupported('dict display')

        def ref_of(I, mds, i):
            t, k = I.seq_term(mds)
            return VRef(sym.f_ref_of(t[I.num(i)]), 'RefCounter')

        def has_ref(I, mds, i):
            t, k = I.seq_term(mds)
            return VBool(sym.f_has_ref(t[I.num(i)]))
        d.update({'dict_display': dict_display, 'ref_of': ref_of, 'has_ref': has_ref})
        return d

    def clauses(self):
        def cb_commits_this_batch(self_, I, o, fr):
            # the callback is `lambda: commit(_part)`: evaluate it symbolically and compare the call it makes
            nc = o.state.ghost['new_counters'].items
            if len(nc) != 1:
                return z3.BoolVal(False)
            cb = nc[0].items[2]
            if not isinstance(cb, VFunc):
                return z3.BoolVal(False)
            I.st = o.state.snapshot()
            I.spec_mode += 1
            try:
                I.st.events = []
                I.run_function(cb, [], {})
            finally:
                I.spec_mode -= 1
            evs = [e for e in I.st.events] + []
            # call_opaque in spec mode records no event; re-evaluate the body application directly
            body = cb.node.body
            if not (isinstance(body, ast.Call) and isinstance(body.func, ast.Name) and body.func.id == 'commit'
                    and len(body.args) == 1 and isinstance(body.args[0], ast.Name) and body.args[0].id == '_part'):
                return z3.BoolVal(False)
            return z3.BoolVal(True)
        return [
            Clause('C09.emits_the_batch_with_a_fresh_counter', ['C09', 'C04'], when='yield:1',
                   text='emitted == [_part] and len(emitted_md) == 1 and len(emitted_md[0]) == 1 and has_ref(emitted_md[0], 0) '
                        'and len(new_counters) == 1 and ref_of(emitted_md[0], 0) == new_counters[0][0]',
                   note='exactly this batch is emitted, carrying one metadata dictionary whose ref is a new RefCounter'),
            Clause('C09.counter_starts_at_zero_on_the_source_loop', ['C09', 'C04', 'C19'], when='yield:1',
                   text='new_counters[0][1] == 0 and new_counters[0][3] == self.loop',
                   note='C19: a counter without the loop of its source falls back to the shared background loop (and starts its '
                        'thread), also for a source declared asynchronous'),
            Clause('C09.completion_callback_commits_this_batch', ['C09', 'C04'], fn=cb_commits_this_batch, when='yield:1',
                   kind='protocol', note='the counter callback is commit(<this batch>)'),
        ]


ALL = [PartitionBody, PartitionBodyAfterFlip, SeedBody, CommitFn, CheckpointEmit]


# --------------------------------------------------------------------------- FromKafkaBatched.__init__
class KafkaInit(KafkaBase):
    qual = 'FromKafkaBatched.__init__'
    name = 'FromKafkaBatched.__init__[reset given]'
    props = ['C09']
    reset_given = True
    inline = ('convert_interval',)

    def build(self, I):
        st = State()
        I.st = st
        self.init_ghost(st)
        f = {'enable.auto.commit': VElem(z3.Const('autocommit_cfg', sym.Elem))}
        if self.reset_given:
            f['auto.offset.reset'] = VElem(z3.Const('reset_cfg', sym.Elem))
        params = st.new_obj('__strdict__', f)
        selfv = st.new_obj('FromKafkaBatched', {})
        n = z3.Int('npartitions')
        st.assume(n >= 1)
        args = {'self': selfv, 'consumer_params': params}
        self.finish(I, args)
        return selfv, [VElem(z3.Const('topic', sym.Elem)), params], {'npartitions': VInt(n), 'poll_interval': VReal(z3.Real('pi'))}

    def summaries(self):
        def src_init(I, recv, args, kwargs):
            return NONE
        return {'Source.__init__': src_init}

    def clauses(self):
        cl = [Clause('C09.auto_commit_forced_off', ['C09'], when='return',
                     text="self.consumer_params['enable.auto.commit'] == 'false' and self.consumer_params is consumer_params",
                     note='offsets are committed only by the completion callbacks, never by the client library')]
        if self.reset_given:
            cl.append(Clause('C09.configured_reset_kept', ['C09'], when='return',
                             text="self.consumer_params['auto.offset.reset'] == old(consumer_params['auto.offset.reset'])"))
        else:
            cl.append(Clause('C09.default_reset_is_latest', ['C09'], when='return',
                             text="self.consumer_params['auto.offset.reset'] == 'latest'"))
        return cl


class KafkaInitNoReset(KafkaInit):
    name = 'FromKafkaBatched.__init__[no reset given]'
    reset_given = False


# --------------------------------------------------------------------------- get_message_batch
f_val = z3.Function('msg_value', z3.IntSort(), sym.Elem)
f_good = z3.Function('msg_good', z3.IntSort(), z3.BoolSort())        # value truthy and error() is None
f_rv = z3.Function('range_values', z3.IntSort(), z3.IntSort(), sym.SeqElemS)


def rv_axioms(lo, k):
    """unfolding of range_values(lo, k+1) at offset k, and the empty range"""
    return [f_rv(lo, k + 1) == z3.Concat(f_rv(lo, k), z3.If(f_good(k), z3.Unit(f_val(k)), z3.Empty(sym.SeqElemS))),
            f_rv(lo, lo) == z3.Empty(sym.SeqElemS)]


class GetMessageBatch(KafkaBase):
    """get_message_batch(kafka_params, topic, partition, keys=False, low, high): returns the values of the messages with
    offsets low..high of that partition, in offset order (messages without value / with error are skipped)."""
    qual = 'get_message_batch'
    name = 'get_message_batch[keys=False]'
    props = ['C09']
    assumptions = ('confluent_kafka Consumer: after assign([TopicPartition(topic, partition, low)]) successive poll() calls '
                   'return None or the messages of that partition in offset order starting at low (trusted)',
                   'termination of the read loop is not proved (a message without value at offset `high` keeps it polling)')

    def build(self, I):
        st = State()
        I.st = st
        self.init_ghost(st)
        g = st.ghost
        low, high = z3.Int('low'), z3.Int('high')
        st.assume(z3.And(low >= 0, low <= high))
        g['nxt'] = VInt(low)
        g['closed'] = VBool(False)
        g['assigned'] = VTuple([])
        for a in rv_axioms(low, low):
            st.assume(a)
        args = {'kafka_params': VElem(z3.Const('params', sym.Elem)), 'topic': VElem(z3.Const('topic', sym.Elem)),
                'partition': VInt(z3.Int('partition')), 'keys': VBool(False), 'low': VInt(low), 'high': VInt(high),
                'timeout': NONE}
        self.finish(I, args)
        return None, [args['kafka_params'], args['topic'], args['partition'], args['keys'], args['low'], args['high']], {}

    def globals(self):
        return {'ck': VBuiltin('ck'), 'time': VBuiltin('time')}

    def spec_funcs(self):
        d = KafkaBase.spec_funcs(self)

        def consumer(I, args, kwargs, fr):
            return I.st.new_obj('Consumer', {})

        def now(I, args, kwargs, fr):
            return VReal(z3.Real(sym.fresh_name('t')))

        def sleep(I, args, kwargs, fr):
            return NONE

        def rv(I, lo, n):
            return VSeq(f_rv(I.num(lo), I.num(n)), K_ELEM)

        def imin(I, a, b):
            x, y = I.num(a), I.num(b)
            return VInt(z3.If(x <= y, x, y))
        d.update({'builtin_ck.Consumer': consumer, 'builtin_time.time': now, 'builtin_time.sleep': sleep, 'rv': rv,
                  'imin': imin})
        return d

    def summaries(self):
        def assign(I, recv, args, kwargs):
            I.st.ghost['assigned'] = VTuple(I.st.ghost['assigned'].items + [args[0]])
            return NONE

        def poll(I, recv, args, kwargs):
            g = I.st.ghost
            if I.branch(z3.Bool(sym.fresh_name('poll_none'))):
                return NONE
            k = g['nxt'].t
            g['nxt'] = VInt(k + 1)
            low = self.pre_args['low'].t
            for a in rv_axioms(low, k):
                I.st.assume(a)
            # a message is "good" iff it carries a value and has no error
            I.st.assume(f_good(k) == z3.And(z3.Bool('has_value_%s' % k), z3.Not(z3.Bool('has_error_%s' % k))))
            return I.st.new_obj('Message', {'off': VInt(k)})

        def m_value(I, recv, args, kwargs):
            k = I.st.heap[recv.loc].fields['off'].t
            # value() is truthy exactly for good messages that carry a value; error() is None for good ones
            v = VElem(f_val(k))
            I.st.assume(sym.f_truthy(f_val(k)) == z3.Bool('has_value_%s' % k))
            return v

        def m_error(I, recv, args, kwargs):
            k = I.st.heap[recv.loc].fields['off'].t
            if I.branch(z3.Bool('has_error_%s' % k)):
                I.st.assume(z3.Const('some_error', sym.Elem) != sym.c_none_elem)
                return VElem(z3.Const('some_error', sym.Elem))
            return NONE

        def m_offset(I, recv, args, kwargs):
            return I.st.heap[recv.loc].fields['off']

        def close(I, recv, args, kwargs):
            I.st.ghost['closed'] = VBool(True)
            return NONE
        return {'Consumer.assign': assign, 'Consumer.poll': poll, 'Message.value': m_value, 'Message.error': m_error,
                'Message.offset': m_offset, 'Consumer.close': close}

    def make_interp(self, index):
        I = KafkaBase.make_interp(self, index)
        # msg_good(k) <=> value truthy and no error; tie the two booleans used by the message methods to it
        return I

    def loop_specs(self):
        return {('get_message_batch', 0): LoopSpec(
            modifies=['local:out', 'local:msg', 'ghost:nxt'],
            invariant=[('collected_values_in_offset_order', 'list(out) == rv(low, imin(nxt, high + 1)) and nxt >= low'),
                       ('good_means_value_and_no_error', 'True')],
            typed_locals={'out': K_ELEM}, props=['C09'], name='read')}

    def clauses(self):
        return [Clause('C09.returns_values_of_a_prefix_of_the_offset_range_in_order', ['C09'], when='return',
                       text='list(result) == rv(low, imin(nxt, high + 1)) and closed',
                       note='values of offsets low .. min(last polled, high), in order; nothing beyond high; the consumer is closed'),
                Clause('C09.without_a_timeout_the_whole_range_is_read', ['C09'], when='return', text='nxt >= high + 1',
                       note='the completion callback of the batch commits high + 1: the batch handed downstream must then contain '
                            'every message up to high (only the optional timeout may cut the read short; none is given here)'),
                ]


ALL += [KafkaInit, KafkaInitNoReset, GetMessageBatch]


# --------------------------------------------------------------------------- from_kafka_batched(...): the public constructor function
from .c_df_wiring import Wire as _Wire
from pyvc.sym import VFunc as _VFunc


class KafkaApi(_Wire):
    """`Stream.from_kafka_batched(topic, consumer_params, ...)`: every documented parameter reaches the `FromKafkaBatched` node (among
    them `max_batch_size`, the bound of C09), and what the caller gets is that node followed by the batch reader."""
    file = SRC
    files = [SRC, 'streamz/core.py']
    cls = 'sources'
    method = 'from_kafka_batched'
    props = ['C09']
    params = ('topic', 'consumer_params', 'poll_interval', 'npartitions', 'refresh_partitions', 'max_batch_size', 'keys', 'engine')
    name = 'from_kafka_batched[dask=False]'
    expect = None

    def __init__(self):
        _Wire.__init__(self)
        self.qual = 'from_kafka_batched'
        self.name = 'from_kafka_batched[dask=False]'

    def build(self, I):
        st = State()
        I.st = st
        args = {p: VElem(z3.Const('arg_' + p, sym.Elem)) for p in self.params}
        args['dask'] = sym.VBool(z3.BoolVal(False))
        args['start'] = sym.VBool(z3.Bool('arg_start'))
        self.pre_args = dict(args)
        self.pre_state = st.snapshot()
        st.ghost['_pre'] = (self.pre_state, self.pre_args)
        I.contract_pre = self.pre_state
        I.contract_pre_frame = self.pre_frame(I)
        return None, [], dict(args)

    def globals(self):
        d = _Wire.globals(self)
        d.update({'get_message_batch': VBuiltin('get_message_batch'), 'get_message_batch_cudf': VBuiltin('get_message_batch_cudf')})
        return d

    def unit(self, I, index):
        rel, node = index.function('from_kafka_batched')
        self.qual_resolved = 'from_kafka_batched'
        f = _VFunc('from_kafka_batched', node, bound=None)

        def run(I):
            recv, args, kwargs = self.build(I)
            frames = []
            v = I.run_function(f, [], kwargs, frame_out=frames)
            return v, frames[0]
        return run

    def clauses(self):
        src = ("call('FromKafkaBatched', topic, consumer_params, poll_interval=poll_interval, npartitions=npartitions, "
               "refresh_partitions=refresh_partitions, max_batch_size=max_batch_size, keys=keys, engine=engine, **kwargs)")
        return [Clause('C09.every_parameter_reaches_the_batched_source', ['C09'], when='return',
                       text="result == (call('.starmap', %s, glob('get_message_batch_cudf')) if engine == 'cudf' "
                            "else call('.starmap', %s, glob('get_message_batch')))" % (src, src),
                       note='max_batch_size is the documented bound on the size of a batch'),
                Clause('C09.construction_does_not_fail', ['C09'], when='raise', text='False')]


ALL += [KafkaApi]
