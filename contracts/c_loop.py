"""C19: event loop / asynchronous-mode inheritance (streamz/core.py: Stream.__init__, _set_loop, _inform_loop,
_set_asynchronous, _inform_asynchronous, get_io_loop)."""
import z3
from pyvc import sym
from pyvc.sym import (VInt, VBool, VNone, VStr, VElem, VSeq, VList, VTuple, VRef, VObj, VCallable, VBuiltin, VExc,
                      K_ELEM, K_OBJ, K_OPTLOOP, K_STREAM)
from pyvc.state import State, PyRaise, Unsupported
from pyvc.contract import Contract, Clause
from pyvc.interp import NONE, Frame
from pyvc.loops import LoopSpec

CORE = 'streamz/core.py'
LoopArr = z3.ArraySort(sym.Obj, sym.Obj)
AsyncArr = z3.ArraySort(sym.Obj, sym.Elem)
TRUE_E, FALSE_E, NONE_E = sym.str_elem('True'), sym.str_elem('False'), sym.c_none_elem
NONE_O = sym.c_none_obj

first_loop = sym.SpecFun('first_loop', [LoopArr], sym.SeqObjS, sym.Obj,
                         zero=lambda fm: NONE_O, one=lambda fm, u: z3.Select(fm, u),
                         plus=lambda a, b: z3.If(a != NONE_O, a, b))
first_async = sym.SpecFun('first_async', [AsyncArr], sym.SeqObjS, sym.Elem,
                          zero=lambda fm: NONE_E, one=lambda fm, u: z3.If(sym.f_truthy(z3.Select(fm, u)), z3.Select(fm, u), NONE_E),
                          plus=lambda a, b: z3.If(a != NONE_E, a, b))


class LoopBase(Contract):
    file = CORE
    harness = 'loop_harness'

    def prepare_index(self, idx):
        idx.field_kinds[('Stream', 'loop')] = K_OPTLOOP
        idx.field_kinds[('Stream', 'asynchronous')] = K_ELEM
        idx.field_kinds[('Stream', 'downstreams')] = K_OBJ
        idx.field_kinds[('Stream', 'upstreams')] = sym.KSeq(K_STREAM)

    def setup(self, I):
        st = State()
        I.st = st
        g = st.ghost
        L0 = z3.Const('loops0', LoopArr)
        A0 = z3.Const('asyncs0', AsyncArr)
        st.fieldmaps[('Stream', 'loop')] = L0
        st.fieldmaps[('Stream', 'asynchronous')] = A0
        o = z3.Const('any_o', sym.Obj)
        st.assume(z3.ForAll([o], z3.Or(z3.Select(A0, o) == NONE_E, z3.Select(A0, o) == TRUE_E, z3.Select(A0, o) == FALSE_E)))
        st.assume(sym.f_truthy(TRUE_E))
        st.assume(z3.Not(sym.f_truthy(FALSE_E)))
        st.assume(z3.Not(sym.f_truthy(NONE_E)))
        st.assume(z3.Distinct(TRUE_E, FALSE_E, NONE_E))
        U = z3.Const('U', sym.SeqObjS)
        st.assume(z3.Not(z3.Contains(U, z3.Unit(NONE_O))))
        g['U'] = VSeq(U, K_STREAM)
        g['added_to'] = VSeq(z3.Empty(sym.SeqObjS), K_OBJ)
        g['threads_started'] = VInt(0)
        self.U, self.L0, self.A0 = U, L0, A0
        return st

    def finish(self, I, args):
        self.pre_args = args
        self.pre_state = I.st.snapshot()
        I.st.ghost['_pre'] = (self.pre_state, self.pre_args)
        I.contract_pre = self.pre_state
        I.contract_pre_frame = self.pre_frame(I)

    def spec_funcs(self):
        def first_loop_(I, seq):
            fm = I.st.fieldmap('Stream', 'loop', sym.Obj)
            return VRef(first_loop(fm, I.seq_term(seq)[0]), 'IOLoop?')

        def first_async_(I, seq):
            fm = I.st.fieldmap('Stream', 'asynchronous', sym.Elem)
            return VElem(first_async(fm, I.seq_term(seq)[0]))

        def implies_(I, a, b):
            return VBool(z3.Implies(I.truth(a), I.truth(b)))

        def loop_of(I, u):
            fm = I.st.fieldmap('Stream', 'loop', sym.Obj)
            return VRef(z3.Select(fm, u.t), 'IOLoop?')

        def async_of(I, u):
            fm = I.st.fieldmap('Stream', 'asynchronous', sym.Elem)
            return VElem(z3.Select(fm, u.t))

        def elem_(I, v):
            return VElem(I.as_elem(v))
        def async0_of(I, u):
            return VElem(z3.Select(self.A0, u.t))

        def loop0_of(I, u):
            return VRef(z3.Select(self.L0, u.t), 'IOLoop?')
        return {'async0_of': async0_of, 'loop0_of': loop0_of, 'first_loop': first_loop_, 'first_async': first_async_, 'implies': implies_, 'loop_of': loop_of,
                'async_of': async_of, 'elem': elem_}

    def declare_witness(self, I):
        """Lemma L-FIRST (proved by induction in lemma_obligations): if first_async(U) (resp. first_loop(U)) is not None
        some member of U carries that value.  uw / ul name such members."""
        st = I.st
        uw, ul = z3.Const('uw', sym.Obj), z3.Const('ul', sym.Obj)
        fa = first_async(self.A0, self.U)
        fl = first_loop(self.L0, self.U)
        st.assume(z3.Contains(self.U, z3.Unit(uw)))
        st.assume(z3.Implies(fa != NONE_E, z3.Select(self.A0, uw) == fa))
        st.assume(z3.Contains(self.U, z3.Unit(ul)))
        st.assume(z3.Implies(fl != NONE_O, z3.Select(self.L0, ul) == fl))
        st.ghost['uw'] = VRef(uw, 'Stream')
        st.ghost['ul'] = VRef(ul, 'Stream')

    # contract of <node>._inform_loop(l) / _inform_asynchronous(a) applied to *another* node (recursive percolation):
    # raises ValueError if that node already has a different value; otherwise afterwards the node has the value; any
    # other node either keeps its value or had none and now has the informed value; a deeper conflict may raise.
    def s_inform(self, cls, field, none, sort):
        def f(I, recv, args, kwargs):
            fm = I.st.fieldmap(cls, field, sort)
            val = I.term_of(args[0], I.index.field_kind(cls, field))
            cur = z3.Select(fm, recv.t)
            if I.branch(z3.And(cur != none, cur != val)):
                raise PyRaise(VExc('ValueError'))
            if I.branch(cur == val):
                return NONE
            if I.branch(z3.Bool(sym.fresh_name('deep_conflict'))):
                raise PyRaise(VExc('ValueError'))
            new = z3.Const(sym.fresh_name('fm_' + field), fm.sort())
            o = z3.Const(sym.fresh_name('o'), sym.Obj)
            I.st.assume(z3.ForAll([o], z3.Or(z3.Select(new, o) == z3.Select(fm, o),
                                             z3.And(z3.Select(fm, o) == none, z3.Select(new, o) == val))))
            I.st.assume(z3.Select(new, recv.t) == val)
            I.st.fieldmaps[(cls, field)] = new
            return NONE
        return f


class SetLoopNone(LoopBase):
    qual = 'Stream._set_loop'
    name = 'Stream._set_loop[loop=None]'
    props = ['C19']

    def build(self, I):
        st = self.setup(I)
        selfv = st.new_obj('Stream', {'upstreams': st.new_list(self.U, K_STREAM), 'loop': VRef(z3.Const('oldloop', sym.Obj), 'IOLoop?'),
                                      '__ref__': VRef(z3.Const('self_ref', sym.Obj), 'Stream')})
        self.finish(I, {'self': selfv})
        return selfv, [NONE], {}

    def loop_specs(self):
        return {('Stream._set_loop', 0): LoopSpec(
            modifies=[], invariant=[('no_loop_among_processed', 'first_loop(_P) is None and self.loop is None')],
            props=['C19'], name='scan')}

    def clauses(self):
        return [Clause('C19.inherits_loop_of_first_upstream_that_has_one', ['C19'], when='return',
                       text='self.loop is first_loop(U)',
                       note='G2: without an explicit loop the node takes the loop of its pipeline (first upstream with a loop), else None')]


class SetAsyncNone(LoopBase):
    qual = 'Stream._set_asynchronous'
    name = 'Stream._set_asynchronous[asynchronous=None]'
    props = ['C19']

    def build(self, I):
        st = self.setup(I)
        selfv = st.new_obj('Stream', {'upstreams': st.new_list(self.U, K_STREAM), 'asynchronous': VElem(z3.Const('olda', sym.Elem)),
                                      '__ref__': VRef(z3.Const('self_ref', sym.Obj), 'Stream')})
        self.finish(I, {'self': selfv})
        return selfv, [NONE], {}

    def loop_specs(self):
        return {('Stream._set_asynchronous', 0): LoopSpec(
            modifies=[], invariant=[('no_async_among_processed', 'first_async(_P) is None and self.asynchronous is None')],
            props=['C19'], name='scan')}

    def clauses(self):
        return [Clause('C19.inherits_asynchronous_mode_of_upstream', ['C19'], when='return',
                       text='elem(self.asynchronous) == first_async(U)',
                       note='G2: a node extending an asynchronous pipeline is asynchronous')]


class SetLoopGiven(LoopBase):
    """_set_loop(l) with an explicit loop on a node under construction (no downstreams yet)."""
    qual = 'Stream._set_loop'
    name = 'Stream._set_loop[loop given]'
    props = ['C19']
    inline = ('Stream._inform_loop',)
    field = 'loop'

    def build(self, I):
        st = self.setup(I)
        l = VRef(z3.Const('L', sym.Obj), 'IOLoop?')
        st.assume(l.t != NONE_O)
        selfv = st.new_obj('Stream', {'upstreams': st.new_list(self.U, K_STREAM), 'loop': VRef(z3.Const('oldloop', sym.Obj), 'IOLoop?'),
                                      'downstreams': st.new_list(z3.Empty(sym.SeqObjS), K_STREAM),
                                      '__ref__': VRef(z3.Const('self_ref', sym.Obj), 'Stream')})
        u0 = z3.Const('u0', sym.Obj)
        st.assume(z3.Contains(self.U, z3.Unit(u0)))
        st.ghost['u0'] = VRef(u0, 'Stream')
        self.declare_witness(I)
        self.finish(I, {'self': selfv, 'loop': l})
        return selfv, [l], {}

    def summaries(self):
        return {'Stream._inform_loop': self.dispatch_inform}

    def dispatch_inform(self, I, recv, args, kwargs):
        if isinstance(recv, VObj):
            rel, node = I.index.function('Stream._inform_loop')
            return I.run_function(sym.VFunc('Stream._inform_loop', node, bound=recv), args, kwargs)
        return self.s_inform('Stream', 'loop', NONE_O, sym.Obj)(I, recv, args, kwargs)

    def loop_specs(self):
        inv = [('processed_upstreams_share_the_loop', 'implies(u0 in _P, loop_of(u0) is loop) and implies(uw in _P, loop_of(uw) is loop)'),
               ('own_loop_set', 'self.loop is loop')]
        return {('Stream._inform_loop', 0): LoopSpec(modifies=['fieldmap:Stream.loop'], invariant=inv, props=['C19'], name='up'),
                ('Stream._inform_loop', 1): LoopSpec(modifies=['fieldmap:Stream.loop'],
                                                     invariant=[('own_loop_set', 'self.loop is loop'),
                                                                ('upstreams_keep_the_loop', 'loop_of(u0) is loop and loop_of(uw) is loop')],
                                                     props=['C19'], name='down')}

    def clauses(self):
        return [Clause('C19.explicit_loop_is_honoured', ['C19'], when='return', text='self.loop is loop',
                       note='G1: an explicitly given loop is the node\'s loop'),
                Clause('C19.loop_percolates_to_every_upstream', ['C19'], when='return', text='loop_of(u0) is loop',
                       note='for an arbitrary upstream u0: it ends with the same loop (or the call raised)'),
                Clause('C19.conflict_raises_ValueError', ['C19'], when='raise', text='True', kind='text'),
                ]

    def cover(self, outcomes):
        return [('normal exit reachable', any(o.kind == 'return' for o in outcomes)),
                ('conflict path reachable', any(o.kind == 'raise' and o.value.cls == 'ValueError' for o in outcomes))]


ALL = [SetLoopNone, SetAsyncNone, SetLoopGiven]


class SetAsyncGiven(SetLoopGiven):
    qual = 'Stream._set_asynchronous'
    name = 'Stream._set_asynchronous[value given]'
    inline = ('Stream._inform_asynchronous',)
    value = True

    def build(self, I):
        st = self.setup(I)
        a = VBool(z3.Bool('a_given'))
        selfv = st.new_obj('Stream', {'upstreams': st.new_list(self.U, K_STREAM), 'asynchronous': VElem(z3.Const('olda', sym.Elem)),
                                      'downstreams': st.new_list(z3.Empty(sym.SeqObjS), K_STREAM),
                                      '__ref__': VRef(z3.Const('self_ref', sym.Obj), 'Stream')})
        u0 = z3.Const('u0', sym.Obj)
        st.assume(z3.Contains(self.U, z3.Unit(u0)))
        st.ghost['u0'] = VRef(u0, 'Stream')
        self.declare_witness(I)
        self.finish(I, {'self': selfv, 'asynchronous': a})
        return selfv, [a], {}

    def summaries(self):
        return {'Stream._inform_asynchronous': self.dispatch_inform}

    def dispatch_inform(self, I, recv, args, kwargs):
        if isinstance(recv, VObj):
            rel, node = I.index.function('Stream._inform_asynchronous')
            return I.run_function(sym.VFunc('Stream._inform_asynchronous', node, bound=recv), args, kwargs)
        return self.s_inform('Stream', 'asynchronous', NONE_E, sym.Elem)(I, recv, args, kwargs)

    def loop_specs(self):
        inv = [('processed_upstreams_share_the_mode', 'implies(u0 in _P, async_of(u0) == elem(asynchronous)) and implies(uw in _P, async_of(uw) == elem(asynchronous))'),
               ('own_mode_set', 'elem(self.asynchronous) == elem(asynchronous)'),
               ('values_only_filled_in', 'async_of(uw) == async0_of(uw) or (async0_of(uw) is None and async_of(uw) == elem(asynchronous))')]
        return {('Stream._inform_asynchronous', 0): LoopSpec(modifies=['fieldmap:Stream.asynchronous'], invariant=inv,
                                                             props=['C19'], name='up'),
                ('Stream._inform_asynchronous', 1): LoopSpec(modifies=['fieldmap:Stream.asynchronous'],
                                                             invariant=[inv[1], inv[2], ('upstreams_keep_the_mode', 'async_of(u0) == elem(asynchronous) and async_of(uw) == elem(asynchronous)')],
                                                             props=['C19'], name='down')}

    def clauses(self):
        return [Clause('C19.explicit_mode_is_honoured', ['C19'], when='return', text='elem(self.asynchronous) == elem(asynchronous)'),
                Clause('C19.mode_percolates_to_every_upstream', ['C19'], when='return', text='async_of(u0) == elem(asynchronous)'),
                Clause('C19.conflict_raises_ValueError', ['C19'], when='raise', text='True')]


ALL += [SetAsyncGiven]


# --------------------------------------------------------------------------- Stream.__init__
ds_of = sym.SpecFun('ds_of', [z3.ArraySort(sym.Obj, sym.Obj)], sym.SeqObjS, sym.SeqObjS,
                    zero=lambda fm: z3.Empty(sym.SeqObjS), one=lambda fm, u: z3.Unit(z3.Select(fm, u)),
                    plus=lambda a, b: z3.Concat(a, b))
CURRENT = z3.Const('CURRENT_LOOP', sym.Obj)
BACKGROUND = z3.Const('BACKGROUND_LOOP', sym.Obj)


class StreamInit(SetAsyncGiven):
    qual = 'Stream.__init__'
    name = 'Stream.__init__'
    props = ['C19', 'C15']
    inline = ('Stream._set_loop', 'Stream._set_asynchronous', 'Stream._inform_loop', 'Stream._inform_asynchronous')
    assumptions = ('get_io_loop(a) returns IOLoop.current() when a is truthy and the shared background loop otherwise '
                   '(contract of get_io_loop; its thread creation is trusted CPython/tornado behaviour)',
                   'recursive percolation (_inform_loop/_inform_asynchronous on other nodes) is used through its contract: '
                   'it raises on a conflicting value, otherwise only fills in missing values (partial-correctness induction)')

    def build(self, I):
        st = self.setup(I)
        a = VElem(z3.Const('a_arg', sym.Elem))
        st.assume(z3.Or(a.t == NONE_E, a.t == TRUE_E, a.t == FALSE_E))
        l = VRef(z3.Const('l_arg', sym.Obj), 'IOLoop?')
        e = VBool(z3.Bool('ensure_io_loop'))
        st.assume(z3.Distinct(CURRENT, BACKGROUND, NONE_O))
        selfv = st.new_obj('Stream', {'__ref__': VRef(z3.Const('self_ref', sym.Obj), 'Stream')})
        u0 = z3.Const('u0', sym.Obj)
        st.assume(z3.Contains(self.U, z3.Unit(u0)))
        st.ghost['u0'] = VRef(u0, 'Stream')
        self.declare_witness(I)
        st.fieldmaps[('Stream', 'downstreams')] = z3.Const('dsets0', z3.ArraySort(sym.Obj, sym.Obj))
        ups = st.new_list(self.U, K_STREAM)      # the caller's own list object: the node must not keep (alias) it
        self.finish(I, {'self': selfv, 'asynchronous': a, 'loop': l, 'ensure_io_loop': e, 'upstreams': ups})
        return selfv, [], {'upstreams': ups, 'loop': l, 'asynchronous': a, 'ensure_io_loop': e}

    def summaries(self):
        def new_set(I, recv, args, kwargs):
            return I.st.new_list(z3.Empty(sym.SeqObjS), K_STREAM)

        def add(I, recv, args, kwargs):
            g = I.st.ghost
            g['added_to'] = VSeq(z3.Concat(g['added_to'].t, z3.Unit(recv.t)), K_OBJ)
            g['added_what'] = args[0]
            return NONE

        def get_io_loop(I, recv, args, kwargs):
            a = args[0]
            return VRef(z3.If(I.truth(a), CURRENT, BACKGROUND), 'IOLoop?')
        return {'Stream._inform_asynchronous': self.dispatch_inform, 'Stream._inform_loop': self.dispatch_inform_loop,
                'OrderedWeakrefSet.__new__': new_set, '*.add': add, 'get_io_loop': get_io_loop}

    def globals(self):
        return {'OrderedWeakrefSet': sym.VClass('OrderedWeakrefSet'), 'get_io_loop': sym.VFunc('get_io_loop', None)}

    def dispatch_inform_loop(self, I, recv, args, kwargs):
        if isinstance(recv, VObj):
            rel, node = I.index.function('Stream._inform_loop')
            return I.run_function(sym.VFunc('Stream._inform_loop', node, bound=recv), args, kwargs)
        return self.s_inform('Stream', 'loop', NONE_O, sym.Obj)(I, recv, args, kwargs)

    def loop_specs(self):
        d = {}
        d.update(SetLoopNone.loop_specs(self))
        d.update(SetAsyncNone.loop_specs(self))
        d.update(SetLoopGiven.loop_specs(self))
        d.update(SetAsyncGiven.loop_specs(self))
        # the inform loops run while other fields of self are already set: keep them in the frame
        d[('Stream.__init__', 0)] = LoopSpec(modifies=['ghost:added_to'], invariant=[('registered_with_processed_upstreams', 'added_to == ds_of(_P)')],
                                             props=['C15', 'C19'], name='register')
        return d

    def spec_funcs(self):
        d = LoopBase.spec_funcs(self)

        def ds_of_(I, seq):
            fm = I.st.fieldmap('Stream', 'downstreams', sym.Obj)
            return VSeq(ds_of(fm, I.seq_term(seq)[0]), K_OBJ)
        d['ds_of'] = ds_of_
        d['CURRENT'] = lambda I: VRef(CURRENT, 'IOLoop?')
        d['BACKGROUND'] = lambda I: VRef(BACKGROUND, 'IOLoop?')
        return d

    def clauses(self):
        a_given = '(asynchronous is not None)'
        l_given = '(loop is not None)'
        no_up_loop = '(old(first_loop(U)) is None)'
        no_up_async = '(old(first_async(U)) is None)'
        return [
            Clause('C19.G1_explicit_asynchronous_is_honoured', ['C19'], when='return',
                   text='implies(%s, elem(self.asynchronous) == asynchronous)' % a_given,
                   note='explicitly requesting a mode yields that mode (or raises on conflict); it is never silently replaced'),
            Clause('C19.G1_explicit_loop_is_honoured', ['C19'], when='return',
                   text='implies(%s, self.loop is loop)' % l_given),
            Clause('C19.G2_inherits_mode_of_the_pipeline', ['C19'], when='return',
                   text="implies(not %s and not %s, elem(self.asynchronous) == old(first_async(U)))" % (a_given, no_up_async)),
            Clause('C19.G2_inherits_loop_of_the_pipeline', ['C19'], when='return',
                   text='implies(not %s and not %s, self.loop is old(first_loop(U)))' % (l_given, no_up_loop)),
            Clause('C19.G4_asynchronous_node_uses_the_callers_current_loop', ['C19'], when='return',
                   text="implies(elem(self.asynchronous) == 'True' and not %s and %s, self.loop is CURRENT())" % (l_given, no_up_loop)),
            Clause('C19.G5_loop_requiring_node_falls_back_to_the_background_loop', ['C19'], when='return',
                   text="implies(ensure_io_loop and not %s and not %s and %s and %s, "
                        "elem(self.asynchronous) == 'False' and self.loop is BACKGROUND())" % (a_given, l_given, no_up_loop, no_up_async)),
            Clause('C19.G5_the_fallback_mode_percolates_to_the_pipeline', ['C19'], when='return',
                   text="implies(ensure_io_loop and not %s and not %s and %s and %s, async_of(u0) == 'False')"
                        % (a_given, l_given, no_up_loop, no_up_async),
                   note='the whole pipeline is put into blocking mode together with the background loop: a node added later with '
                        'asynchronous=True must find the conflict (u0 is an arbitrary upstream)'),
            Clause('C19.plain_node_without_information_stays_unset', ['C19'], when='return',
                   text="implies(not ensure_io_loop and not %s and not %s and %s and %s, self.loop is None and self.asynchronous is None)"
                        % (a_given, l_given, no_up_loop, no_up_async)),
            Clause('C15.registered_as_downstream_of_every_upstream', ['C15', 'C19'], when='return',
                   text='added_to == ds_of(U) and list(self.upstreams) == U'),
            Clause('C15.the_node_owns_its_list_of_upstreams', ['C15'], when='return',
                   text='not (self.upstreams is upstreams) and list(upstreams) == U',
                   note='two nodes built from the same list must not share it: connect / disconnect / destroy on one of them would '
                        'edit the links of the other on one end only'),
            Clause('C19.only_ValueError_is_raised', ['C19'], when='raise', text='True'),
        ]

    def cover(self, outcomes):
        return [('normal exit reachable', any(o.kind == 'return' for o in outcomes)),
                ('conflict path reachable', any(o.kind == 'raise' and o.value.cls == 'ValueError' for o in outcomes))]


ALL += [StreamInit]


# --------------------------------------------------------------------------- percolation through a node inside a graph
class InformLoopInGraph(SetLoopGiven):
    """_inform_loop(l) on a node that has upstreams AND downstreams (the general percolation step): on normal exit the node and
    every neighbour carry l; a neighbour that already carries a different loop makes the call raise -- in either direction."""
    qual = 'Stream._inform_loop'
    name = 'Stream._inform_loop[node inside a graph]'
    inline = ()
    # C03 / C02: a node that never learns the loop of its pipeline emits inline on the caller's thread and discards the awaitables of
    # its consumers (Stream.emit, `self.loop is None` branch): backpressure in the threaded mode rests on the percolation
    props = ['C19', 'C03']

    def build(self, I):
        st = self.setup(I)
        l = VRef(z3.Const('L', sym.Obj), 'IOLoop?')
        st.assume(l.t != NONE_O)
        Dn = z3.Const('Dn', sym.SeqObjS)
        st.assume(z3.Not(z3.Contains(Dn, z3.Unit(NONE_O))))
        selfv = st.new_obj('Stream', {'upstreams': st.new_list(self.U, K_STREAM), 'loop': VRef(z3.Const('oldloop', sym.Obj), 'IOLoop?'),
                                      'downstreams': st.new_list(Dn, K_STREAM),
                                      '__ref__': VRef(z3.Const('self_ref', sym.Obj), 'Stream')})
        u0, d0 = z3.Const('u0', sym.Obj), z3.Const('d0', sym.Obj)
        st.assume(z3.Contains(self.U, z3.Unit(u0)))
        st.assume(z3.Contains(Dn, z3.Unit(d0)))
        st.ghost['u0'] = VRef(u0, 'Stream')
        st.ghost['d0'] = VRef(d0, 'Stream')
        self.declare_witness(I)
        self.finish(I, {'self': selfv, 'loop': l})
        return selfv, [l], {}

    def summaries(self):
        def inform(I, recv, args, kwargs):
            return self.s_inform('Stream', 'loop', NONE_O, sym.Obj)(I, recv, args, kwargs)
        return {'Stream._inform_loop': inform}

    def loop_specs(self):
        return {('Stream._inform_loop', 0): LoopSpec(
                    modifies=['fieldmap:Stream.loop'],
                    invariant=[('processed_upstreams_share_the_loop', 'implies(u0 in _P, loop_of(u0) is loop)'),
                               ('own_loop_set', 'self.loop is loop')], props=['C19'], name='up'),
                ('Stream._inform_loop', 1): LoopSpec(
                    modifies=['fieldmap:Stream.loop'],
                    invariant=[('own_loop_set', 'self.loop is loop'), ('upstreams_keep_the_loop', 'loop_of(u0) is loop'),
                               ('processed_downstreams_share_the_loop', 'implies(d0 in _P, loop_of(d0) is loop)')],
                    props=['C19'], name='down')}

    def clauses(self):
        return [Clause('C19.node_takes_the_loop_or_already_had_it', ['C19'], when='return', text='self.loop is loop'),
                Clause('C19.loop_percolates_upstream', ['C19'], when='return',
                       text='implies(old(self.loop) is None, loop_of(u0) is loop)'),
                Clause('C19.loop_percolates_downstream_or_conflict_raises', ['C19'], when='return',
                       text='implies(old(self.loop) is None, loop_of(d0) is loop)',
                       note='a downstream neighbour that carries a different loop must make the call raise: a pipeline is never '
                            'silently split across two loops'),
                Clause('C19.conflict_raises_ValueError', ['C19'], when='raise', text='True')]


class InformAsyncInGraph(InformLoopInGraph):
    qual = 'Stream._inform_asynchronous'
    name = 'Stream._inform_asynchronous[node inside a graph]'

    def build(self, I):
        st = self.setup(I)
        a = VBool(z3.Bool('a_given'))
        Dn = z3.Const('Dn', sym.SeqObjS)
        selfv = st.new_obj('Stream', {'upstreams': st.new_list(self.U, K_STREAM), 'asynchronous': VElem(z3.Const('olda', sym.Elem)),
                                      'downstreams': st.new_list(Dn, K_STREAM),
                                      '__ref__': VRef(z3.Const('self_ref', sym.Obj), 'Stream')})
        st.assume(z3.Or(z3.Const('olda', sym.Elem) == NONE_E, z3.Const('olda', sym.Elem) == TRUE_E, z3.Const('olda', sym.Elem) == FALSE_E))
        u0, d0 = z3.Const('u0', sym.Obj), z3.Const('d0', sym.Obj)
        st.assume(z3.Contains(self.U, z3.Unit(u0)))
        st.assume(z3.Contains(Dn, z3.Unit(d0)))
        st.ghost['u0'] = VRef(u0, 'Stream')
        st.ghost['d0'] = VRef(d0, 'Stream')
        self.declare_witness(I)
        self.finish(I, {'self': selfv, 'asynchronous': a})
        return selfv, [a], {}

    def summaries(self):
        def inform(I, recv, args, kwargs):
            return self.s_inform('Stream', 'asynchronous', NONE_E, sym.Elem)(I, recv, args, kwargs)
        return {'Stream._inform_asynchronous': inform}

    def loop_specs(self):
        return {('Stream._inform_asynchronous', 0): LoopSpec(
                    modifies=['fieldmap:Stream.asynchronous'],
                    invariant=[('processed_upstreams_share_the_mode', 'implies(u0 in _P, async_of(u0) == elem(asynchronous))'),
                               ('own_mode_set', 'elem(self.asynchronous) == elem(asynchronous)')], props=['C19'], name='up'),
                ('Stream._inform_asynchronous', 1): LoopSpec(
                    modifies=['fieldmap:Stream.asynchronous'],
                    invariant=[('own_mode_set', 'elem(self.asynchronous) == elem(asynchronous)'),
                               ('upstreams_keep_the_mode', 'async_of(u0) == elem(asynchronous)'),
                               ('processed_downstreams_share_the_mode', 'implies(d0 in _P, async_of(d0) == elem(asynchronous))')],
                    props=['C19'], name='down')}

    def clauses(self):
        return [Clause('C19.node_takes_the_mode_or_already_had_it', ['C19'], when='return', text='elem(self.asynchronous) == elem(asynchronous)'),
                Clause('C19.mode_percolates_upstream', ['C19'], when='return',
                       text='implies(old(self.asynchronous) is None, async_of(u0) == elem(asynchronous))'),
                Clause('C19.mode_percolates_downstream_or_conflict_raises', ['C19'], when='return',
                       text='implies(old(self.asynchronous) is None, async_of(d0) == elem(asynchronous))'),
                Clause('C19.conflict_raises_ValueError', ['C19'], when='raise', text='True')]


ALL += [InformLoopInGraph, InformAsyncInGraph]


# --------------------------------------------------------------------------- get_io_loop (C19)
class GetIoLoop(Contract):
    """get_io_loop(asynchronous): asynchronous callers get THEIR loop (IOLoop.current()) whatever else exists (a dask client, the
    shared background loop) and start no thread; blocking callers get the dask client's loop if a default client exists, else the
    one shared background loop, which is created (with its thread) at most once."""
    file = CORE
    files = [CORE]
    qual = 'get_io_loop'
    props = ['C19']
    dask_client = 'none'         # 'none' (module attribute is None) | 'absent' (getter raises ValueError) | 'present'
    assumptions = ('IOLoop.current() is the loop of the calling thread/coroutine; IOLoop(make_current=False) is a fresh loop; '
                   'threading.Thread(target=loop.start).start() runs that loop in a background thread (tornado/CPython, trusted)',
                   'distributed.client.default_client() returns the default client or raises ValueError (trusted)')

    def __init__(self):
        self.name = 'get_io_loop[dask default client: %s]' % self.dask_client
        Contract.__init__(self)

    def build(self, I):
        st = State()
        I.st = st
        g = st.ghost
        g['threads_started'] = VInt(0)
        g['client_consulted'] = VInt(0)
        g['loops_created'] = VInt(0)
        g['current_loop'] = VRef(z3.Const('current_loop', sym.Obj), 'IOLoop')
        g['client_loop'] = VRef(z3.Const('client_loop', sym.Obj), 'IOLoop')
        L = z3.Const('io_loops0', sym.SeqObjS)
        st.assume(z3.Length(L) <= 1)             # the shared loop is created at most once (invariant of the module state)
        loops = st.new_list(L, K_OBJ)
        g['io_loops0'] = VSeq(L, K_OBJ)
        g['io_loops_obj'] = loops
        I.globals['_io_loops'] = loops
        I.globals['_dask_default_client'] = NONE if self.dask_client == 'none' else sym.VBuiltin('dask_default_client')
        a = VElem(z3.Const('asynchronous', sym.Elem))
        self.pre_args = {'asynchronous': a}
        self.pre_state = st.snapshot()
        g['_pre'] = (self.pre_state, self.pre_args)
        I.contract_pre = self.pre_state
        I.contract_pre_frame = self.pre_frame(I)
        return None, [a], {}

    def globals(self):
        return {'IOLoop': sym.VBuiltin('IOLoop'), 'threading': sym.VBuiltin('threading')}

    def spec_funcs(self):
        def current(I, args, kwargs, fr):
            return I.st.ghost['current_loop']

        def new_loop(I, args, kwargs, fr):
            g = I.st.ghost
            g['loops_created'] = VInt(g['loops_created'].t + 1)
            lp = VRef(z3.Const(sym.fresh_name('new_loop'), sym.Obj), 'IOLoop')
            I.st.assume(lp.t != g['current_loop'].t)
            I.st.assume(lp.t != g['client_loop'].t)
            g['new_loop'] = lp
            return lp

        def thread(I, args, kwargs, fr):
            t = I.st.new_obj('Thread', {'target': kwargs.get('target', NONE), 'daemon': VBool(False)})
            return t

        def default_client(I, args, kwargs, fr):
            g = I.st.ghost
            g['client_consulted'] = VInt(g['client_consulted'].t + 1)
            if self.dask_client == 'absent':
                raise PyRaise(VExc('ValueError'))
            return I.st.new_obj('Client', {'loop': g['client_loop']})

        def implies_(I, a, b):
            return VBool(z3.Implies(I.truth(a), I.truth(b)))

        def truthy(I, v):
            return VBool(I.truth(v))

        def io_loops(I):
            return I.st.ghost['io_loops_obj']

        def running_loop(I, args, kwargs, fr):
            # asyncio.get_running_loop() / get_event_loop(): whether the caller's loop is ALREADY RUNNING is not something a
            # constructor may depend on (pipelines are commonly built first and the loop started afterwards): either answer
            if I.branch(z3.Bool(sym.fresh_name('no_loop_is_running_yet'))):
                raise PyRaise(VExc('RuntimeError'))
            return VElem(z3.Const(sym.fresh_name('asyncio_loop'), sym.Elem))
        return {'builtin_asyncio.get_running_loop': running_loop, 'builtin_asyncio.get_event_loop': running_loop,
                'builtin_IOLoop.current': current, 'builtin_IOLoop': new_loop, 'builtin_threading.Thread': thread,
                'builtin_dask_default_client': default_client, 'implies': implies_, 'truthy': truthy, 'io_loops': io_loops}

    def summaries(self):
        def start(I, recv, args, kwargs):
            g = I.st.ghost
            g['threads_started'] = VInt(g['threads_started'].t + 1)
            return NONE
        return {'Thread.start': start}

    def clauses(self):
        cl = [Clause('C19.asynchronous_caller_gets_its_own_loop_and_no_thread', ['C19'], when='return',
                     text='implies(truthy(asynchronous), result is current_loop and threads_started == 0 and loops_created == 0 '
                          'and list(io_loops()) == io_loops0)',
                     note='an asynchronous pipeline never leaves the caller\'s loop, even when a dask client or a background loop exists'),
              Clause('C19.shared_background_loop_is_created_at_most_once', ['C19'], when='return',
                     text='len(io_loops()) <= 1 and threads_started == loops_created and '
                          'implies(len(io_loops0) == 1, loops_created == 0 and list(io_loops()) == io_loops0)'),
              Clause('C19.get_io_loop_does_not_fail', ['C19'], when='raise', text='False')]
        if self.dask_client == 'present':
            cl.append(Clause('C19.blocking_caller_shares_the_dask_clients_loop', ['C19', 'C20'], when='return',
                             text='implies(not truthy(asynchronous), result is client_loop and threads_started == 0)'))
        else:
            cl.append(Clause('C19.blocking_caller_gets_the_shared_background_loop', ['C19'], when='return',
                             text='implies(not truthy(asynchronous), len(io_loops()) == 1 and result is io_loops()[0])'))
        return cl


class GetIoLoopClientAbsent(GetIoLoop):
    dask_client = 'absent'


class GetIoLoopClientPresent(GetIoLoop):
    dask_client = 'present'


ALL += [GetIoLoop, GetIoLoopClientAbsent, GetIoLoopClientPresent]
