#!/usr/bin/env python3
"""Prints, from evidence/*.json as written by the last runs, the markdown of DESIGN.md section 10.4 (what each property's check
actually covers: functions under contract, obligations, back ends, bounded stand-ins) and refreshes the per-property notes of
MANIFEST.json (level_note) with the same facts."""
import json
import os

HERE = os.path.dirname(os.path.dirname(os.path.abspath(__file__)))


def main():
    man = json.load(open(os.path.join(HERE, 'MANIFEST.json')))
    rows = []
    for i in range(1, 21):
        pid = 'C%02d' % i
        p = os.path.join(HERE, 'evidence', pid + '.json')
        if not os.path.exists(p):
            continue
        e = json.load(open(p))
        c = e['coverage']
        funcs = sorted(set(f['qualname'] for f in c.get('functions_under_contract', [])))
        b = c.get('bounded')
        bounded = ''
        if isinstance(b, dict) and 'operations' in b:
            bounded = '%d cases over %s' % (b.get('cases', 0), ', '.join('`%s`' % o for o in b['operations'][:40]))
        st = c.get('solver_time_s', {})
        rows.append((pid, c.get('obligations'), c.get('discharged'), len(c.get('contracts', [])), len(funcs),
                     ', '.join('%s %.0fs' % (k, v) for k, v in sorted(st.items())), ', '.join(c.get('known_findings_reported', [])) or '-',
                     bounded or '-', funcs))
        for chk in man['checks']:
            if chk['property_id'] == pid:
                note = ('%d obligations over %d contracts on %d functions of the current source (all discharged on the repaired tree%s); '
                        % (c.get('obligations'), len(c.get('contracts', [])), len(funcs),
                           '; open known findings: ' + ', '.join(c.get('known_findings_reported', [])) if c.get('known_findings_reported') else ''))
                if bounded:
                    note += 'BOUNDED stand-in next to the proofs (never counted as proved): ' + b.get('space', '') + '; '
                note += ('trusted base: pyvc encoding of the Python subset, z3/cvc5, assumed contracts of dependencies (DESIGN sections 3, 10); '
                         'lemmas L-COMP/L-SEG/L-HOLD/L-RESUME connect the per-function obligations to the property (DESIGN section 4)')
                chk['level_note'] = note
    json.dump(man, open(os.path.join(HERE, 'MANIFEST.json'), 'w'), indent=1)
    print('| property | obligations | discharged | contracts | functions | solver time by back end | open findings reported | bounded stand-in (not proof) |')
    print('|---|---|---|---|---|---|---|---|')
    for r in rows:
        print('| %s | %s | %s | %s | %s | %s | %s | %s |' % r[:8])
    print()
    for r in rows:
        print('* **%s** functions under contract: %s' % (r[0], ', '.join('`%s`' % f for f in r[8])))


if __name__ == '__main__':
    main()
