#!/usr/bin/env python3-vt
"""Audit: for every coroutine that is under Segment contracts, which resumption points (0 = entry, k = after the k-th yield / await
in source order) have a contract.  A resumption point without one is a blind spot (code after that yield is checked by nobody);
points that the trusted models declare non-suspending (asyncio.Queue.put on a non-full queue, `await result` of a list in from_tcp)
are listed as such.  Run: python3-vt tools/segment_audit.py"""
import ast
import collections
import importlib
import os
import sys

sys.path.insert(0, os.path.dirname(os.path.dirname(os.path.abspath(__file__))))
from contracts import registry                      # noqa: E402
from contracts.async_common import Segment          # noqa: E402
from pyvc.repoindex import RepoIndex                 # noqa: E402

NOT_A_SUSPENSION = {
    ('map_async._insert_job', 2): 'work_queue.put on a queue with a free slot does not suspend (trusted asyncio.Queue model)',
    ('from_process.run', 0): 'set-up of the child process: not under contract (stated in the assumptions of from_process.run@2)',
    ('from_process.run', 1): 'set-up of the child process: not under contract',
    ('from_process.run', 4): 'after process.wait(): the coroutine ends, nothing left to check',
}


def main():
    repo = os.environ.get('VERIF_REPO', '/repo')
    idx = RepoIndex(['streamz/core.py', 'streamz/sources.py', 'streamz/sinks.py', 'streamz/dask.py', 'streamz/dataframe/core.py'], repo)
    have = collections.defaultdict(set)
    for m, c, props in registry.CONTRACTS:
        C = getattr(importlib.import_module(m), c)
        if isinstance(C, type) and issubclass(C, Segment) and getattr(C, 'cls', None) and getattr(C, 'method', None):
            r = idx.find_method(C.cls, C.method)
            if r is not None:
                have[r[0]].add(C.start)
    bad = 0
    for q, starts in sorted(have.items()):
        rel, fn = idx.function(q)
        ny = sum(1 for n in ast.walk(fn) if isinstance(n, (ast.Yield, ast.Await, ast.YieldFrom)))
        missing = [i for i in range(ny + 1) if i not in starts and (q, i) not in NOT_A_SUSPENSION]
        print('%-32s suspension points %d, contracts at %s%s' % (q, ny, sorted(starts), ('  MISSING %s' % missing) if missing else ''))
        bad += len(missing)
    for (q, i), why in sorted(NOT_A_SUSPENSION.items()):
        print('not a resumption point: %s@%d: %s' % (q, i, why))
    return 1 if bad else 0


if __name__ == '__main__':
    sys.exit(main())
