#!/usr/bin/env python3
"""Writes `needs_to_manifest` / `strengthened` into seeded/*/meta.json and prints the markdown table of DESIGN.md section 12.
The two texts per change are maintained here (they come from the sub-agents' notes and from what had to be added to the
machinery); everything else is read from meta.json as written by seeded/confirm.sh and seeded/recheck.sh."""
import glob
import json
import os
import re

HERE = os.path.dirname(os.path.dirname(os.path.abspath(__file__)))

INFO = {
    # round 1 ------------------------------------------------------------------------------------------------------------
    'C01-slice-state-after-emit': ('a feedback edge that re-enters the node during its own emission', '-'),
    'C02-partition-flush-reset-after-yield': ('an arrival while the flush\'s emission is awaited (slow async consumer)', 'clause tagged for C02'),
    'C03-zip-notify-one': ('two inputs blocked on a full buffer of the same zip', 'new zip.update contract with Condition model; lazy axiom refinement (was undecided)'),
    'C04-buffer-retain-after-put': ('a full queue: put suspends, upstream releases', "clauses use when='normal'"),
    'C05-partition-unique-retain-hoisted': ('duplicate keys with metadata', '-'),
    'C06-mean-dropna-rows': ('a DataFrame in which one column has NaN in a row where another has a value', 'frame model of dropna (was checker error); NaN positions decorrelated in the bounded frames'),
    'C07-diff-iloc-loop-to-ifs': ('more than two stored frames leave the window at once', '-'),
    'C08-partition-cancel-after-flush': ('size flush with a timeout configured', '-'),
    'C09-kafka-cap-tested-against-position': ('lag larger than max_batch_size on a later pass', '-'),
    'C10-partition-unique-last-metadata-order': ('a repeated key among others, keep="last"', '-'),
    'C11-rolling-result-slice-minus-len-new': ('an empty batch (iloc[-0:])', 'Python -0 slice semantics in the frame model'),
    'C12-diff-loc-no-copy-of-deque': ('resuming twice from the same saved state', 'deque pre-state variants'),
    'C13-rate-limit-reserve-after-sleep': ('two arrivals during one sleep', '-'),
    'C14-latest-clear-after-emit': ('an arrival while the consumer is busy', '-'),
    'C15-combine-latest-pop-last-slot': ('removing a non-last input', '-'),
    'C16-sink-release-in-finally': ('an async consumer that raises', 'exceptional-resume segment'),
    'C17-textfile-delimiter-test-on-chunk-only': ('a record split across two reads', '-'),
    'C18-from-iterable-start-resets-iterator': ('start() on an already started source', 'per-subclass lifecycle contracts'),
    'C19-inform-loop-skips-downstream-conflict': ('joining two pipelines with different loops', 'in-graph percolation contracts'),
    'C20-scatter-retains-per-downstream': ('fan-out below scatter with metadata', 'len(self.downstreams) summary'),
    # round 2 ------------------------------------------------------------------------------------------------------------
    'C01-zip-pack-literals-while-to-if': ('a literal argument of zip preceded by two or more consecutive stream arguments', 'bounded enumeration of zip.pack_literals (function rewritten wholesale; not under a deductive contract)'),
    'C01-unique-seen-after-emit': ('a feedback edge guarded by unique: a key comes back while its element is still in flight', '-'),
    'C03-flatten-awaitables-overwritten': ('a batch of >= 3 items into flatten with an async consumer', '-'),
    'C03-map-async-task-before-slot': ('work queue full while further emits are pending', 'unknown local in a resumed frame = opaque value (was checker error); new clause "no mapped coroutine is started while waiting for a slot"'),
    'C06-mean-count-len': ('a NaN in a non-empty batch', '-'),
    'C06-groupby-std-ddof-dropped': ('groupby(...).std(ddof != 1)', 'API wiring contracts (Herbrand summaries) + ddof variants in the bounded enumeration'),
    'C07-mean-on-old-count-len': ('a NaN leaves a window that is not emptied', '-'),
    'C07-valuecounts-on-old-sub-fillna': ('rows decay from a windowed value_counts while another value stays', 'value_counts added to the bounded enumeration (accumulator not under a deductive contract)'),
    'C09-kafka-cap-guard-against-position': ('position below the low watermark and backlog <= max_batch_size', '-'),
    'C09-kafka-commit-current-position': ('a later batch of the partition handed out before an earlier one completes', 'undescribed instance attribute = opaque value (was checker error)'),
    'C02-timed-window-reset-after-await': ('an element arrives while the batch delivery is in flight', '-'),
    'C02-map-async-fast-path-overtakes': ('queue full, a slot frees, a new element arrives before the waiting insertion runs', 'asyncio.Queue model: put_nowait/qsize/empty; ghost initialised'),
    'C04-emit-retains-per-downstream-iteration': ('fan-out: an early branch finishes synchronously, a later one holds the element', '-'),
    'C04-zip-latest-releases-lossless-slot-twice': ('two lossless elements before the other input delivers, or a holding downstream', 'zip_latest.update brought under contract (drain-form loop rule, decided-If folding)'),
    'C05-collect-flush-clear-after-release': ('a re-entrant emit into the collector during its flush', 'reentrancy clause tagged C05'),
    'C05-sliding-window-skips-empty-metadata': ('n >= 2 and records without metadata between records with a ref', '-'),
    'C08-partition-arms-timer-before-size-flush': ('partition(1, timeout=t)', '-'),
    'C08-timed-window-unique-reset-after-emit': ('a re-entrant arrival during the tick\'s emission', 'timed_window_unique.cb segments put under contract'),
    'C10-zip-latest-metadata-computed-once': ('several lossless elements drained in one update', 'zip_latest.update brought under contract'),
    'C10-partition-flush-metadata-cleared-in-place': ('an element with metadata arrives while the previous batch is in flight', '-'),
    'C11-rolling-trim-before-carry-over': ('time-based rolling window and an empty batch', 'time-based rolling added to the bounded enumeration (bounded only)'),
    'C11-cumulative-carry-dropna': ('a multi-column frame whose batch ends with a row that is NaN in only some columns', '-'),
    'C12-mean-state-updated-in-place': ('frame-wide mean with_state=True; the emitted state is used after later batches', 'obligation "state passed in is not updated in place" (augmented assignment on pandas objects) + bounded resume-from-emitted-state'),
    'C12-ewm-getitem-loses-start': ('ewm(..., start=s) followed by a column selection', 'bounded resume-from-emitted-state checks for ewm / expanding / rolling'),
    'C13-rate-limit-rewrites-next-after-sleep': ('two sleepers and a further arrival', '-'),
    'C13-convert-interval-drops-days': ('an interval string of 24 hours or more', 'bounded check of convert_interval'),
    'C14-latest-slot-cleared-after-emit-call': ('a re-entrant arrival from inside the delivery call', 'reentrancy clause for latest.cb; generic segment reentrancy clause'),
    'C14-latest-notify-skipped-on-stale-metadata': ('elements with metadata, an arrival while the forwarder is idle', '-'),
    'C15-combine-latest-add-upstream-resets-missing': ('connect() after the existing inputs have delivered', 'set(seq) builtin; clause "inputs that have delivered stay delivered"'),
    'C15-destroy-iterates-live-upstreams': ('destroy() on a node with >= 2 upstreams', 'Stream.destroy under contract; side condition of the for-rule (iterated list not modified) as an obligation'),
    'C16-emit-releases-in-finally': ('a downstream that raises synchronously, element with a ref', '-'),
    'C16-blocking-emit-gather-return-exceptions': ('blocking emit from another thread, failure inside an awaited branch', 'public Stream.emit + nested coroutine under contract; obligation on gather(return_exceptions=...)'),
    'C17-textfile-delimiter-checked-in-new-chunk-only': ('a multi-character delimiter split across two reads', '-'),
    'C17-filenames-sorted-listing-suffix': ('a file that sorts before an already delivered one appears', 'bounded enumeration of filenames._run (symbolic verdict: decided only for one clause)'),
    'C18-from-iterable-drops-stopped-check-before-emit': ('stop() between start() and the first run of the coroutine', '-'),
    'C18-source-run-do-while': ('start(); stop() before the run callback fires', '-'),
    'C19-inform-loop-skips-neighbours-with-a-loop': ('extending a pipeline with a node given a different explicit loop', '-'),
    'C19-get-io-loop-prefers-dask-client': ('a live blocking dask Client and a node created with asynchronous=True', 'get_io_loop under contract'),
    'C20-scatter-retains-after-scatter-await': ('an element with a ref through source.scatter()', '-'),
    'C20-gather-releases-in-finally': ('a grouping node between scatter and gather', '-'),
    # round 3 ------------------------------------------------------------------------------------------------------------
    'C01-combine-latest-emit-on-falsy-index': ('combine_latest(..., emit_on=0) and a connect()/disconnect() afterwards', 'contract variants with an explicit emit_on (any value, incl. falsy)'),
    'C01-emit-iterates-live-downstreams': ('a branch that detaches itself during delivery, with a later sibling', 'obligation: loops iterate over a snapshot, not over the live downstream set'),
    'C02-map-async-worker-drops-job-on-stop': ('stop()/start() while the worker is parked on the empty queue, then one more element', 'clause "a job taken from the queue is never dropped"'),
    'C02-partition-timer-armed-with-key-function': ('partition(n, timeout=t, key=...) with a partial batch', 'contracts are checked in full under every property they serve (the clause was tagged C08 only)'),
    'C03-textfile-awaits-lines-once-per-chunk': ('one read() returning two or more complete lines and an awaitable consumer', 'ghost count of pushed-but-not-awaited records in from_textfile._run'),
    'C03-rate-limit-returns-emit-result': ('any consumer behind rate_limit that returns an awaitable', 'generic segment clauses "what is emitted is awaited, not returned" / "suspends on what it has just emitted"'),
    'C04-dask-gather-releases-on-failed-future': ('the dask future reaching gather fails and gather is the last holder', 'failed-future / failed-downstream resume variants for scatter and gather'),
    'C04-flatten-metadata-with-first-piece': ('a batch of >= 2 pieces with a ref and a buffering node downstream', 'bounded enumeration of flatten (function rewritten wholesale: symbolic contract not applicable, checker error)'),
    'C05-emit-releases-once-after-loop': ('the downstream set changes while an element is delivered', '-'),
    'C05-timed-window-unique-release-on-truthy-value': ('keep="last", a duplicate key whose held element is falsy (0, "", ())', '-'),
    'C08-partition-timeout-zero-falsy': ('partition(n, timeout=0) and fewer than n elements', '-'),
    'C08-timed-window-emits-live-buffer-when-empty': ('an idle tick followed by arrivals, a consumer that keeps the batch', 'aliasing obligation: the object handed to _emit is not a live container of the node'),
    'C08-timed-window-unique-first-falsy-value': ('keep="first", a falsy first element for a key, then the same key again', '-'),
    'C10-sliding-window-skips-empty-metadata-c10': ('n >= 2, an element with metadata followed by >= n elements without', '-'),
    'C10-flatten-last-piece-by-identity': ('a batch whose last object also occurs earlier in it', 'bounded enumeration of flatten'),
    'C06-valuecounts-reindexed-to-current-batch': ('a batch that lacks a previously seen value (or an empty batch)', 'value_counts in the bounded enumeration (added in round 2)'),
    'C06-groupby-falsy-column-label': ('groupby over a frame with integer column labels, selected column label 0', 'integer-labelled frame in the bounded enumeration (GroupbyAggregation is not under a deductive contract)'),
    'C07-window-std-ignores-ddof': ('window(...).std(ddof != 1)', '-'),
    'C07-windowed-groupby-array-grouper-history': ('a windowed groupby keyed by a stream of numpy arrays, rows expiring', 'array-valued grouper in the bounded enumeration'),
    'C09-kafka-init-copies-params-before-default': ('no auto.offset.reset given, no committed offset, partition not empty', 'dict(d) copy supported (was checker error)'),
    'C09-starmap-drops-metadata': ('a downstream node of from_kafka_batched that finishes asynchronously', 'starmap metadata clause tagged C09 (from_kafka_batched hands out a starmap node)'),
    'C11-ewmean-seed-guarded-by-is-first': ('ewm().mean() whose first batch has 0 rows', '-'),
    'C11-cumulative-trim-by-label': ('index labels that repeat between batches (per-batch RangeIndex)', 'per-batch-index variant of the cumulative ops in the bounded enumeration (symbolic: checker error on .loc[new.index])'),
    'C12-window-accumulator-reuses-state-dict': ('with_state=True, the emitted state kept and used after later batches', '-'),
    'C12-accumulate-commits-state-after-emit': ('a re-entrant emit from a consumer of the accumulate node', '-'),
    'C13-rate-limit-wait-clamped-to-one-interval': ('three or more elements queued at once', '-'),
    'C13-dask-rate-limit-inherits-delay': ('rate_limit on a DaskStream', 'the syntactic check of the Dask mixin classes is tagged with the properties of the core nodes'),
    'C14-latest-notifies-directly': ('update() called from a thread other than the loop\'s while the forwarder is idle', '-'),
    'C14-latest-no-recheck-after-wait': ('an arrival while the forwarder is suspended in the delivery', '-'),
    'C15-combine-latest-initial-emit-on-normalised': ('built without emit_on, a new input connected later, the new input delivers again', 'constructor contracts (c_init.py)'),
    'C15-destroy-empty-selection-destroys-all': ('node.destroy(streams=[])', 'contract variant for an explicit empty selection'),
    'C16-sliding-window-return-inside-full-branch': ('sliding_window(n>=2), one of the first n-1 elements, an async consumer that fails', '-'),
    'C16-flatten-returns-last-awaitables-only': ('a batch of >= 2 items, an async sink failing on a non-last item', '-'),
    'C17-textfile-rpartition-split': ('a self-overlapping multi-character delimiter and a read ending inside it', 'bounded enumeration of from_textfile._run (symbolic: checker error on str.rpartition)'),
    'C18-source-init-schedules-start': ('a source created with start=True and stop() before the loop runs the queued start', 'Source.__init__ under contract'),
    'C18-textfile-seek-moved-to-start': ('from_textfile(from_end=True) already started, start() called again with unread data', 'file position tracked (seek) in the from_textfile lifecycle contract'),
    'C19-set-loop-takes-first-upstream-even-without-loop': ('a multi-upstream node whose first upstream has no loop and a later one has', '-'),
    'C19-init-tests-constructor-argument-not-inherited-loop': ('a node added without loop= to a pipeline whose loop is not the current one', '-'),
    'C20-dask-accumulate-first-element-ignores-with-state': ('Dask accumulate with with_state=True and no start value', '-'),
    'C20-dask-accumulate-init-swaps-start-and-returns-state': ('stream.accumulate(func, start) with start passed positionally on a DaskStream', 'positional constructor contracts (signature order)'),
    # round 4 ------------------------------------------------------------------------------------------------------------
    'C01-flatten-none-sentinel-drops-batch': ('a batch whose first element is None', 'None added to the alphabet of the bounded flatten enumeration (symbolic: counter-model did not replay, undecided)'),
    'C01-pluck-tuple-pick-treated-as-list': ('pluck with a tuple that is itself one key of the elements', 'pluck contract variants (tuple key, list pick)'),
    'C03-emit-thread-flag-unconditional': ('threaded mode, a consumer on the loop thread emitting twice into a threaded stream', '-'),
    'C03-sliding-window-return-inside-full-branch-c03': ('sliding_window(n>=2), one of the first n-1 elements, a slow consumer', '-'),
    'C04-accumulate-first-element-drops-metadata': ('accumulate without start / with_state, first element with a ref, a holding downstream', 'named constants (no_default, None) decoded into the replay (was undecided)'),
    'C04-sliding-window-retains-only-when-emitting': ('return_partial=False and n >= 2', '-'),
    'C05-zip-latest-releases-every-slot': ('ref-carrying elements on the lossless input', 'per-contract time budget after a failure (the check ran > 18 min before)'),
    'C05-map-async-release-only-on-success': ('a mapped coroutine that raises, stop_on_exception=False', '-'),
    'C06-window-getitem-loses-expanding': ('a column selected after .expanding()', 'expanding ops in the C06 bounded enumeration'),
    'C06-accumulate-state-after-emit-c06': ('a consumer that raises or re-enters the source', 'accumulate.update tagged for the dataframe properties'),
    'C07-accumulate-state-after-emit-c07': ('a consumer that raises or re-enters the source', 'accumulate.update tagged for the dataframe properties'),
    'C07-window-accumulator-updates-state-dict': ('with_state / start checkpoint path', 'clause "new state is a fresh object, the old one untouched"; dict.update on string-keyed dicts'),
    'C10-emit-reads-current-metadata-attribute': ('>= 2 downstreams and a re-entrant emit through the same node', 're-entrancy modelled in the _emit contract (attributes havocked after each downstream call)'),
    'C10-latest-skips-bookkeeping-without-metadata': ('an element without metadata after one with metadata', '-'),
    'C12-windowed-groupby-groupers-not-copied': ('windowed groupby keyed by a streaming series, state reused', 'streaming-series grouper in the bounded resume enumeration'),
    'C12-ewmean-seeded-flag-on-object': ('ewm resumed with start=<state>', '-'),
    'C02-flatten-returns-last-emit-only': ('a batch of >= 2 items and a native-coroutine consumer', 'contracts serving C03 also serve C02 and C16'),
    'C02-zip-capacity-check-before-append': ('one input maxsize elements ahead of another', '-'),
    'C08-partition-timer-armed-with-key-spec': ('partition(n, timeout=T, key=...) and a partial batch', '-'),
    'C08-sink-passes-callback-result-through': ('a sink callback returning a plain value below timed_window', 'sink.update tagged for every property whose nodes await its result'),
    'C09-kafka-reset-flip-inside-partition-loop': ('latest, >= 2 partitions, no committed offsets', 'frame clause: the reset entry is not changed by the per-partition body'),
    'C09-scatter-retain-after-yield-c09': ('from_kafka_batched(dask=True)', 'scatter / gather segments tagged C09'),
    'C11-window-accumulator-in-place-c11': ('expanding / ewm resumed with a saved state and a non-empty example', '-'),
    'C11-ewm-span-floor-division': ('ewm(span=even or non-integer)', 'span / alpha / halflife variants in the bounded enumeration'),
    'C13-rate-limit-sleeps-until-next-slot': ('an element arriving less than one interval after a delayed one', '-'),
    'C13-convert-interval-numpy-scalars': ('interval given as a numpy integer / float32', 'numpy scalars in the bounded convert_interval check'),
    'C14-sink-flattened-awaitable-test': ('the consumer of latest() is a sink whose callback returns a plain value', 'sink.update tagged C14'),
    'C14-emit-iterates-live-downstreams-c14': ('latest() with >= 2 consumers, one detaching itself while served', '_emit contract tagged for every delivery property'),
    'C15-sink-registers-only-with-upstream': ('a sink built detached, connected later, then unreferenced', '-'),
    'C15-combine-latest-emit-on-falsy-index-c15': ('emit_on=0 and a later connect / disconnect', '-'),
    'C16-windowed-groupby-groupers-in-place-c16': ('windowed groupby keyed by a stream, a batch on which the aggregation raises', 'bounded resume enumeration also registered for C16'),
    'C16-emit-retains-inside-loop': ('the emitting node introduces the counter, >= 2 branches, a later one raises', '-'),
    'C17-textfile-seek-only-for-path-strings': ('from_end=True with an already opened file object that has content', 'from_textfile constructor contract'),
    'C17-emit-iterates-live-downstreams-c17': ('a consumer of a file source that changes the graph while a record is delivered', '_emit contract tagged for the source properties'),
    'C18-from-q-drains-queue-in-one-cycle': ('stop() while an emit of from_q is suspended and items are queued', 'from_q._run under contract'),
    'C18-from-tcp-stop-guard-uses-started': ('start, stop, stop on from_tcp (or one stop reaching it through two branches)', 'stop() of the socket-server sources under contract'),
    'C19-map-async-task-on-current-loop': ('blocking pipeline with map_async started from the caller thread', 'map_async._create_task under contract (Herbrand attribute chains)'),
    'C19-set-asynchronous-inherits-before-explicit': ('asynchronous=False passed to a node extending an asynchronous pipeline', '-'),
    'C20-sliding-window-return-inside-full-branch-c20': ('DaskStream.sliding_window(n>=2) upstream of an asynchronous node', 'step contracts of the nodes re-exported by dask.py tagged C20'),
    'C20-gather-does-not-await-emission': ('anything asynchronous after gather()', 'awaited-emission clause extended to `raise gen.Return`'),
    # round 5 ------------------------------------------------------------------------------------------------------------
    'C01-zip-pops-newest-entry': ('one input of zip more than one element ahead of the other', 'obligation on the pop-all loop of zip.update: the oldest entry of every buffer is consumed (popleft)'),
    'C01-starmap-args-prepended': ('starmap with extra positional arguments', '-'),
    'C02-union-drops-emit-result': ('an asynchronous consumer behind union', '-'),
    'C02-rate-limit-returns-emission-unawaited': ('any awaitable consumer behind rate_limit', '-'),
    'C03-map-async-tests-result-not-results': ('a mapped coroutine returning a falsy value, consumers that return awaitables', '-'),
    'C03-sink-awaits-only-coroutines-and-futures': ('a sink callback returning an awaitable that is neither a coroutine nor a Future', 'narrower awaitable predicates (is_coroutine / is_future imply isawaitable, not the converse) in the sink contract'),
    'C04-retain-refs-stops-at-first-refless-entry': ('metadata whose first entry has no ref and a later one has', '-'),
    'C04-zip-releases-before-emit': ('zip as the last holder of buffered references, a consumer that does not retain synchronously', 'H1 at every emission (what is handed over is still held) and the obligation "released only after handed downstream"'),
    'C05-rate-limit-retain-after-wait': ('an element with a ref that has to wait in rate_limit', '-'),
    'C05-emit-retains-once-regardless-of-fanout': ('fan-out >= 2 with reference-counted metadata', '-'),
    'C06-var-zero-test-on-sum': ('values summing to 0 in a non-empty prefix', '-'),
    'C06-zip-pack-literals-while-to-if-c06': ('an operation between streaming dataframes with >= 2 stream operands before a literal one', 'bounded pack_literals enumeration registered for the dataframe properties'),
    'C07-full-result-drop-by-old-index': ('window(n).full() with index labels that repeat between batches', 'window.full() with a per-batch index in the bounded enumeration'),
    'C07-groupby-columns-truthiness': ('windowed groupby over integer column labels, selected label 0', 'integer-labelled windowed groupby in the bounded enumeration'),
    'C08-emit-iterates-live-downstreams-c08': ('a consumer of a time-window node that detaches itself while being served', '-'),
    'C08-partition-flush-pops-callback-of-next-batch': ('partition with timeout and key: a batch of the same key started while the flush is in flight', 'frame clause: a finished flush leaves buffers and timers of the next batch alone'),
    'C09-kafka-commit-closure-late-binding': ('two batches handed out before the first completes', 'the closure variable `part` of poll_kafka is modelled as "whichever batch was handed out last"'),
    'C09-kafka-batch-excludes-high-offset': ('any non-empty batch: its last message is dropped', '-'),
    'C10-combine-latest-remove-pops-last-metadata': ('removing a non-last input of combine_latest with metadata', 'topology contracts of combine_latest tagged for C01 / C10'),
    'C10-collect-flush-clears-metadata-before-emit': ('collect.flush with reference-counted metadata', '-'),
    'C11-accumulate-state-after-emit-c11': ('a consumer that pushes the next batch from inside its callback', '-'),
    'C11-window-getitem-loses-subclass': ('a column selected from expanding()', 'wiring contract for Window.__getitem__ (type(self) survives) next to the bounded expanding checks'),
    'C12-emit-skips-bookkeeping-without-consumers': ('the state polled through current_value of a node nobody has subscribed to', 'truthiness of a reference to a sized container depends on its length (was constant true: an unsound pruning); clause "a node without consumers still remembers the element"'),
    'C12-window-map-partitions-loses-start': ('an elementwise operation on a resumed window object before aggregating', 'wiring contract for Window.map_partitions (subscript / type(self) hooks)'),
    'C13-blocking-emit-clears-flag-before-await': ('blocking emit from another thread, an element that waits in rate_limit, a consumer that emits further', 'public Stream.emit contracts tagged for the delivery properties (entry point of every pipeline)'),
    'C13-emit-iterates-live-downstreams-c13': ('>= 2 consumers of rate_limit, one detaching itself', '-'),
    'C14-refcounter-runs-callback-inline': ('a completion callback that emits into the same pipeline', 'clause "the callback is posted to the loop, never run inside release"; RefCounter.release tagged for every property whose nodes release'),
    'C14-emit-result-overwritten-by-list-result': ('>= 2 consumers of latest: an async sink before a node returning a list', '-'),
    'C15-emit-iterates-live-downstreams-c15': ('a consumer that detaches itself while being served, with a later sibling', '-'),
    'C15-combine-latest-remove-guard-membership': ('disconnecting any input of a combine_latest with default emit_on', '-'),
    'C16-rate-limit-retain-after-wait-c16': ('an element with a ref waiting in rate_limit whose consumer fails', '-'),
    'C16-accumulate-first-element-drops-metadata-c16': ('accumulate without start, first element with a ref, asynchronous consumer that fails', '-'),
    'C17-filenames-trailing-separator-no-star': ('filenames("dir/") on an existing directory', 'filenames.__init__ under contract (z3 strings: the directory becomes the pattern matching its entries)'),
    'C17-textfile-drops-whitespace-chunks': ('a read that returns only whitespace (e.g. the delimiter alone)', '-'),
    'C18-from-tcp-handler-ignores-stop': ('a connection kept open across stop() that sends >= 2 more messages', 'segment contracts for the per-connection coroutine of from_tcp (nested class inside run)'),
    'C18-periodic-stop-rebinds-flag': ('any stop() of a running PeriodicDataFrame / Random', 'lifecycle contracts for PeriodicDataFrame.start / stop / _cb (c_periodic.py); writing them exposed F25'),
    'C19-rate-limit-no-ensure-io-loop': ('rate_limit as the first loop-requiring node of a pipeline without a loop', 'constructor contracts that demand ensure_io_loop tagged C19'),
    'C19-kafka-counter-without-source-loop': ('a batched Kafka source declared asynchronous', 'clause "the counter runs on the loop of its source" tagged C19'),
    'C20-dask-starmap-drops-metadata': ('a Dask starmap between scatter and gather, a holding node behind it', '-'),
    'C20-dask-union-wrapper-deleted': ('union between scatter() and gather()', '-'),
    # round 6 ------------------------------------------------------------------------------------------------------------
    'C01-combine-latest-add-upstream-tests-emit-on-attribute': ('combine_latest built without emit_on, an input connected later, emitting on it', 'contract variants for the first topology edit after construction (emit_on is still the constructor\'s tuple, not the upstreams list)'),
    'C01-slice-step-grid-anchored-at-zero': ('slice(start, end, step) with step > 1 and start not a multiple of step', '-'),
    'C02-partition-timeout-truthiness-c02': ('partition(n, timeout=0) with a trailing incomplete batch', '-'),
    'C02-emit-iterates-live-downstreams-c02': ('a consumer that detaches itself while being served, behind an asynchronous node', '-'),
    'C03-sync-waits-once': ('blocking emit from another thread, downstream pending for more than 10 s', 'sync() brought under contract (the waiting part; threading.Event model)'),
    'C03-from-q-emission-not-awaited': ('from_q with a consumer that returns a pending awaitable (full buffer, slow async sink)', 'clauses "a cycle that emits suspends on the emission"; tail segments of from_q / from_periodic; segment audit tool'),
    'C04-sink-retain-inside-release-coroutine': ('a sink with an awaitable consumer as the only holder', '-'),
    'C04-emit-releases-once-with-late-count': ('a consumer that attaches a new branch to the emitting node during delivery, a buffering sibling', '-'),
    'C05-accumulate-first-element-drops-metadata-c05': ('accumulate without start, first element with a ref, a holding node downstream', '-'),
    'C05-partition-metadata-buffer-keyed-by-key-spec': ('partition(n, key=...) and elements with a ref', 'a callable used as a datum (dictionary key) is an opaque value (was checker error)'),
    'C06-frame-map-drops-na-action': ("sdf.x.map(f, na_action='ignore') with a NaN in a batch", 'wiring contracts for the remaining thin wrappers of the dataframe API (round, tail, astype, map, rolling, window, expanding, ewm, cum*, value_counts, Rolling.*)'),
    'C06-groupby-accumulator-empty-batch-returns-state': ('non-windowed groupby mean / var / std and a batch of zero rows', '-'),
    'C08-partition-update-falls-through-after-flush': ('partition(1, timeout=t)', 'segment contract for partition.update resumed after its size flush (a resumption point nobody checked)'),
    'C08-timed-window-unique-interval-not-converted': ('timed_window_unique with a string interval', '-'),
    'C09-kafka-seed-skips-no-commit-sentinel': ('a consumer group without a commit, auto.offset.reset=latest, a non-empty partition', 'contract for the body of the loop that seeds positions from committed()'),
    'C09-kafka-api-drops-max-batch-size': ('from_kafka_batched(..., max_batch_size=N) and a backlog > N', 'wiring contract for the module-level from_kafka_batched function'),
    'C10-accumulate-first-element-drops-metadata-c10': ('accumulate without start / with_state, first element with metadata', '-'),
    'C10-partition-metadata-buffer-keyed-by-key-spec-c10': ('partition(n, key=...) and elements with metadata', '-'),
    'C11-mean-counts-rows-not-values': ('expanding().mean() over data with a NaN', '-'),
    'C11-ewmean-seeded-from-last-row': ('ewm().mean() whose first non-empty batch has more than one row', '-'),
    'C12-full-package-resolved-in-initial': ('window(..., with_state=True, start=<state>).full()', 'full / count / std / value_counts / derived windows in the bounded resume-from-emitted-state enumeration (std exposed F26)'),
    'C12-emit-bookkeeping-after-delivery': ('current_value read re-entrantly (from a consumer of the aggregation)', 'the obligation "remembers the element before the first downstream runs" was vacuous inside the loop rule (never generated): now stated for the empty prefix'),
    'C13-rate-limit-no-ensure-io-loop-c13': ('rate_limit as the only loop-requiring node of a synchronous pipeline', '-'),
    'C13-rate-limit-skips-short-waits': ('interval below 1 ms, or an arrival within 1 ms of its slot', '-'),
    'C14-sink-to-textfile-returns-write-count': ('latest() feeding sink_to_textfile, >= 2 arrivals', 'sink_to_textfile.update under contract (a synchronous consumer returns nothing)'),
    'C14-latest-forwarder-on-current-loop': ('latest() in a synchronous pipeline built from the main thread', 'IOLoop global in the constructor contracts (was checker error)'),
    'C15-disconnect-through-destroy-streams': ('disconnect of a Sink subclass', 'call-site obligation: a call on an arbitrary node is accepted by every override of the method (Sink.destroy takes no streams argument)'),
    'C15-init-keeps-callers-upstream-list': ('two nodes built from the same list object of upstreams', 'clause "the node owns its list of upstreams" (the argument is a heap list in the contract)'),
    'C16-zip-releases-before-emit-c16': ('zip with a buffered partner carrying a ref, a consumer that raises on the tuple', '-'),
    'C16-diff-iloc-reuses-state-deque': ('a row-count window whose aggregation raises on a later batch', '-'),
    'C17-textfile-emit-loop-breaks-on-stop': ('one read with >= 2 records and a stop() while they are being emitted', '-'),
    'C18-from-process-stop-request-overwritten': ('stop() while the child process is alive and keeps printing', 'segment contracts for the read / emit loop of from_process.run'),
    'C18-periodic-start-binds-flag-late': ('start(); stop(); start() before the loop has run the first callback', '-'),
    'C19-delay-drops-loop-keywords': ('delay(t, asynchronous=True) or delay(t, loop=...)', 'clause "the constructor hands its **kwargs on to Stream.__init__" for the loop-requiring nodes'),
    'C19-init-fallback-mode-not-percolated': ('a pipeline put on the background loop by a loop-requiring node, an asynchronous node added later', 'clause "the fallback mode percolates to the pipeline"'),
    'C20-scatter-releases-before-emit': ('an element with a ref through source.scatter() with no other holder', '-'),
    'C20-gather-derives-from-daskstream': ('map / starmap / accumulate attached behind gather()', 'class-hierarchy obligations for scatter / gather / the Dask node variants'),
    # round 7 ------------------------------------------------------------------------------------------------------------
    'C01-slice-init-drops-check-end': ('slice(None or 0, 0, step): the window is over before the first element', 'slice.__init__ under contract (8 None / int variants): fields, attachment, detached at construction when end == 0'),
    'C01-slice-stride-anchored-at-zero-via-index': ('step > 1 and start not a multiple of step', '-'),
    'C02-rate-limit-claims-slot-after-waiting': ('an element parked in rate_limit and a second one arriving after its slot time but before its timer ran', '-'),
    'C02-partition-timeout-zero-treated-as-none': ('partition(n, timeout=0) and a trailing incomplete batch', 'a constructor contract serves every property the step contracts of its class serve (the clause existed, tagged C01 / C08 only)'),
    'C03-from-periodic-awaits-only-awaitable-result': ('a consumer behind from_periodic that returns an awaitable and is slower than the poll interval', "module-level names of sources.py; the first-segment clause no longer depends on the ordinal of the suspension ('normal' instead of 'yield:1': was checker error)"),
    'C03-sink-narrow-awaitable-test-dunder-await': ('a consumer whose return value is awaitable through __await__ only (dask Future, agen.asend)', 'isinstance(x, <future class>) modelled like gen.is_future (was checker error)'),
    'C04-partition-flush-releases-live-metadata-list': ('a same-key arrival while a flush is suspended on a slow consumer', '-'),
    'C04-rate-limit-releases-before-awaiting-emission': ('an asynchronous consumer below rate_limit that takes no hold of its own', '-'),
    'C05-zip-dedups-metadata-before-release': ('the same ref-carrying element reaching one zip through two inputs', 'the identity-dedupe dict comprehension is an uninterpreted function of the flattened list (was checker error)'),
    'C05-buffer-retains-after-put-coroutine': ('more than n ref-carrying elements outstanding at buffer(n), slow consumer', '-'),
    'C06-sum-initial-times-zero': ('a non-finite total in the first batch (division by zero upstream)', 'inf in the tables of the additive running reductions of the bounded enumeration (floating point is outside the real-number model of the proofs)'),
    'C06-getattr-cached-column-accessor': ('x = sdf.x kept; sdf["x"] = x * 2; sdf.x again', 'wiring contracts for _DataFrameMixin.__getattr__ / __getitem__; imported names, the instance dict and item stores are opaque under wiring contracts'),
    'C07-sum-on-old-snaps-residue-to-zero': ('a windowed sum whose true value is below 1e-8', 'a table of magnitudes below numpy.isclose\'s absolute tolerance in the bounded enumeration (symbolic: checker error on np.isclose)'),
    'C07-full-on-old-drops-by-label': ('window(n).full() with a label shared by a decayed and a retained row', '-'),
    'C08-partition-timer-armed-by-callbacks-membership': ('a timer flush of a key followed by a partial batch of the same key', '-'),
    'C08-partition-flush-pops-callback-after-emit': ('a same-key arrival while a flush is blocked, then that batch reaching n before its timeout', '-'),
    'C09-get-message-batch-breaks-on-error-event': ('poll() returning an error event in the middle of a batch', 'clause "without a timeout the whole range low..high is read" (the old postcondition allowed any prefix)'),
    'C09-emit-releases-in-finally-c09': ('a consumer that raises on a Kafka batch, then a restart', '-'),
    'C10-zip-metadata-flatten-iconcat-in-place': ('fan-out below the first zipped stream', 'functools.reduce / itertools.chain flatten idioms modelled; call-site obligation "a list received from elsewhere is not extended in place" for iconcat without an initial list'),
    'C10-timed-window-unique-metadata-swapped-unconditionally': ('keep="first", a repeated key within one interval, differing metadata', 'dict.setdefault supported (was checker error)'),
    'C11-mean-counts-move-by-len': ('expanding / windowed mean over data with a NaN', '-'),
    'C11-ewm-getitem-passes-resolved-com-loses-start': ('ewm(..., start=state) followed by a column selection', 'wiring contract for EWM.__getitem__'),
    'C12-var-origin-kept-on-aggregation-object': ('a var / std window resumed with start= on a stream declared with an empty example, drifting data', '-'),
    'C12-accumulate-rolls-back-state-on-downstream-failure': ('with_state=True, a state-recording consumer before a consumer that raises on batch k', 'clause "a state that was emitted stays the stored state when a consumer fails"'),
    'C13-rate-limit-native-coroutine': ('an emitter that does not await the result of update (collect.flush, the from_tcp handler)', 'clause "the slot is reserved when update is called" (a native coroutine does nothing until awaited); asyncio.gather in the segment model'),
    'C13-delay-stop-ends-forwarder': ('stop() on or below a delay node while elements are queued or before further ones arrive', 'generic clause "the forwarding coroutine never exits" for every cb coroutine'),
    'C14-latest-bare-slot-truthiness': ('a falsy newest element', 'NOT decided: the slot representation changed (list -> bare element), the contract of latest does not apply (checker error, exit 3)'),
    'C14-latest-forwarder-exits-when-detached': ('detach while a delivery is in flight, re-attach, new elements', 'generic clause "the forwarding coroutine never exits"'),
    'C15-zip-waiting-counter-decrement-on-remove': ('disconnect a zip input that has a buffered element, then another input delivers', 'NOT decided: a new counter field replaces the all-buffers-non-empty test, the contract pre-state does not describe it (checker error, exit 3)'),
    'C15-sink-unregisters-on-last-upstream-removed': ('a sink disconnected, connected elsewhere, then unreferenced', 'syntactic frame obligation: the sink registry is touched only by Sink.__init__ and Sink.destroy'),
    'C16-emit-filters-done-futures': ('a consumer that returns an already failed future', 'filter comprehensions over symbolic sequences (homomorphism with uninterpreted pure predicates of the element)'),
    'C16-diff-iloc-reuses-state-deque': ('a count window whose aggregation raises on a later batch', '-'),
    'C17-textfile-emit-loop-stops-on-stopped-flag': ('one read with several records and stop() while they are emitted, then start()', '-'),
    'C17-filenames-diff-only-when-count-changes': ('a delivered file removed and a new one created (equal counts)', 'the directory listing has an unknown size unrelated to other sets (was checker error: len of a set without cardinality)'),
    'C18-from-tcp-handler-loses-stopped-check': ('a connection kept open across stop() that keeps sending', '-'),
    'C18-periodic-start-flips-flag-in-place': ('stop() then start() within one interval', '-'),
    'C19-source-restart-rebinds-loop': ('a second start() of a source bound to an explicit loop', 'clause "starting never moves the source to another loop" (tagged C19; Source.start was checked under C18 only); get_io_loop summary'),
    'C19-map-async-task-on-current-loop': ('map_async.start() from a thread that runs its own asyncio loop', '-'),
    'C20-sliding-window-partial-drops-emit-result': ('scatter ... sliding_window(n >= 2, return_partial=True) ... gather, the first n-1 elements', '-'),
    'C20-dask-starmap-key-omits-kwargs': ('two starmap branches with the same function and different kwargs below one Dask stream', 'syntactic obligation: a caller-chosen task key depends on everything the task is given'),
}


def main():
    rows = []
    for d in sorted(glob.glob(os.path.join(HERE, 'seeded', 'C*-*'))):
        b = os.path.basename(d)
        mp = os.path.join(d, 'meta.json')
        if not os.path.exists(mp):
            continue
        m = json.load(open(mp))
        needs, strengthened = INFO.get(b, ('see NOTES.md', '-'))
        m['needs_to_manifest'] = needs
        m['machinery_strengthened'] = strengthened
        m['breaks_property'] = m.get('property', b.split('-')[0])
        json.dump(m, open(mp, 'w'), indent=1)
        obs = []
        replayed = False
        for l in m.get('check_violation_lines', []):
            mm = re.search(r'replay=out/replay_[^_]+_(.*?)\.json', l)
            if mm:
                obs.append(mm.group(1).replace('__', '/'))
            if not l.rstrip().endswith('no-failing-input-found'):
                replayed = True
        rows.append('| `%s` | %s | %s | %s | %s | %s | %s |' % (
            b, needs, 'yes' if m.get('confirmed') else 'NO', m.get('check_exit'),
            '<br>'.join('`%s`' % o for o in obs[:3]) + (' (+%d)' % (len(obs) - 3) if len(obs) > 3 else ''),
            'yes' if replayed else 'no', strengthened))
    print('| seeded change | what it needs to manifest | confirmed (suite passes, demo flips) | check exit | failing obligation(s) | concrete input | machinery strengthened to catch it |')
    print('|---|---|---|---|---|---|---|')
    for r in rows:
        print(r)
    have = set(os.path.basename(d) for d in glob.glob(os.path.join(HERE, 'seeded', 'C*-*')))
    gone = [(k, v) for k, v in INFO.items() if k not in have]
    if gone:
        print()
        print('Changes of rounds 1-6 whose files are no longer in `seeded/` (they were never added to the repository of `/verif` and '
              'were lost when the sandbox was restored between sessions; what remains is this record of what each needed and what it '
              'led to in the machinery -- they are not re-checked any more and nothing about them is claimed as evidence):')
        print()
        print('| seeded change (files lost) | what it needed to manifest | machinery strengthened to catch it |')
        print('|---|---|---|')
        for k, (needs, strengthened) in sorted(gone):
            print('| `%s` | %s | %s |' % (k, needs, strengthened))


if __name__ == '__main__':
    main()
