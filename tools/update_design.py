#!/usr/bin/env python3
"""Regenerates the two generated regions of DESIGN.md (coverage per property, seeded changes) from evidence/*.json and
seeded/*/meta.json, and refreshes MANIFEST level notes and the seeded meta fields."""
import os
import subprocess
import sys

HERE = os.path.dirname(os.path.dirname(os.path.abspath(__file__)))


def region(text, name, body):
    b, e = '<!-- BEGIN:%s -->' % name, '<!-- END:%s -->' % name
    i, j = text.index(b) + len(b), text.index(e)
    return text[:i] + '\n' + body.strip('\n') + '\n' + text[j:]


def main():
    cov = subprocess.run([sys.executable, os.path.join(HERE, 'tools', 'coverage_table.py')], capture_output=True, text=True).stdout
    seeded = subprocess.run([sys.executable, os.path.join(HERE, 'tools', 'seeded_table.py')], capture_output=True, text=True).stdout
    p = os.path.join(HERE, 'DESIGN.md')
    s = open(p).read()
    s = region(s, 'coverage', cov)
    s = region(s, 'seeded', seeded)
    open(p, 'w').write(s)


if __name__ == '__main__':
    main()
