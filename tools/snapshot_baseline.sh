#!/bin/sh
# Refresh /verif/baseline: the copy of the source files the contracts were written against (used ONLY to align the names of
# local variables after a renaming refactoring, see pyvc/localmap.py; nothing in it is ever verified).
cd "$(dirname "$0")/.."
for f in streamz/core.py streamz/sinks.py streamz/orderedweakset.py streamz/sources.py streamz/dask.py streamz/batch.py streamz/collection.py streamz/utils.py streamz/dataframe/core.py streamz/dataframe/aggregations.py; do
  mkdir -p "baseline/$(dirname $f)"; cp "/repo/$f" "baseline/$f"
done
git -C /repo rev-parse HEAD > baseline/COMMIT
