"""Locate functions under contract in the *current* source text of /repo.

Everything the verifier executes comes from ast.parse() of the files as they
are on disk at check time; this module only indexes them.
"""
import ast
import hashlib
import os
from . import sym
from .sym import VStr, VBuiltin, VClass, VFunc

REPO = os.environ.get('VERIF_REPO', '/repo')


BASELINE = os.path.join(os.path.dirname(os.path.dirname(os.path.abspath(__file__))), 'baseline')


class RepoIndex:
    def __init__(self, files, repo=None, with_baseline=True):
        self.repo = repo or REPO
        self.baseline = None
        self._local_maps = {}
        if with_baseline and os.path.isdir(BASELINE):
            try:
                self.baseline = RepoIndex([f for f in files if os.path.exists(os.path.join(BASELINE, f))], BASELINE, with_baseline=False)
            except Exception:
                self.baseline = None
        self.files = {}
        self.classes = {}       # name -> (file, ClassDef)
        self.functions = {}     # qualname -> (file, FunctionDef)
        self.module_assigns = {}
        self.module_imports = set()     # names bound by module-level imports
        self.field_kinds = {}   # (cls, field) -> Kind  (for symbolic references)
        self.extra_globals = {}
        for f in files:
            self.add_file(f)

    def add_file(self, rel):
        path = os.path.join(self.repo, rel)
        src = open(path).read()
        tree = ast.parse(src)
        self.files[rel] = (src, tree)
        for n in tree.body:
            if isinstance(n, ast.ClassDef):
                if n.name in self.classes and self.classes[n.name][0] != rel:
                    continue        # across files the first file listed wins (the contract lists its own file first)
                self.classes[n.name] = (rel, n)
                for m in n.body:
                    if isinstance(m, (ast.FunctionDef, ast.AsyncFunctionDef)):
                        q = n.name + '.' + m.name
                        # within a class the last definition wins (as in Python, e.g. after @overload stubs)
                        self.functions[q] = (rel, m)
            elif isinstance(n, (ast.FunctionDef, ast.AsyncFunctionDef)):
                if n.name in self.functions and self.functions[n.name][0] != rel:
                    continue
                self.functions[n.name] = (rel, n)
            elif isinstance(n, ast.Assign):
                for t in n.targets:
                    if isinstance(t, ast.Name):
                        self.module_assigns.setdefault(t.id, (rel, n.value))
            elif isinstance(n, (ast.Import, ast.ImportFrom)):
                for a in n.names:
                    self.module_imports.add((a.asname or a.name).split('.')[0])

    # ------------------------------------------------------------
    def local_map(self, qual, node=None):
        """baseline local name -> current local name for the function `qual` (see pyvc/localmap.py); {} when nothing moved"""
        from . import localmap
        q = qual
        for suffix in ('.<spec>', '.<old>'):
            if q.endswith(suffix):
                q = q[:-len(suffix)]
        if q in self._local_maps:
            return self._local_maps[q]
        m = {}
        try:
            if self.baseline is not None:
                if '.<locals>.' in q:
                    outer, inner = q.split('.<locals>.', 1)
                    cur = locate_nested(self.functions[outer][1], inner)
                    base = locate_nested(self.baseline.functions[outer][1], inner)
                else:
                    cur = self.functions[q][1]
                    base = self.baseline.functions[q][1]
                m = localmap.local_mapping(base, cur)
        except (KeyError, SyntaxError):
            m = {}
        self._local_maps[q] = m
        return m

    def function(self, qual):
        if qual not in self.functions:
            raise KeyError('locator does not resolve: %s' % qual)
        return self.functions[qual]

    def source_info(self, qual):
        rel, node = self.function(qual)
        src = self.files[rel][0]
        seg = ast.get_source_segment(src, node)
        return {'qualname': qual, 'file': rel, 'lines': [node.lineno, node.end_lineno],
                'sha256': hashlib.sha256(seg.encode()).hexdigest()}

    def bases(self, cls):
        if cls not in self.classes:
            return []
        out = []
        for b in self.classes[cls][1].bases:
            name = ast.unparse(b).split('.')[-1]
            out.append(name)
        return out

    def mro(self, cls):
        """C3 is not needed for the classes under contract: depth-first, left-to-right,
        duplicates removed keeping the last occurrence (equal to C3 for these hierarchies)."""
        out = []

        def walk(c):
            out.append(c)
            for b in self.bases(c):
                walk(b)
        walk(cls)
        res = []
        for i, c in enumerate(out):
            if c not in out[i + 1:]:
                res.append(c)
        return res

    def find_method(self, cls, name, skip_self=False):
        order = self.mro(cls)
        if skip_self:
            order = order[1:]
        for c in order:
            q = c + '.' + name
            if q in self.functions:
                return q, self.functions[q][1]
        return None

    def incompatible_overrides(self, cls, name, npos, kwnames):
        """classes at or below `cls` (in the indexed files) that define `name` with a signature that cannot accept a call with
        `npos` positional arguments and the keyword arguments `kwnames` (a call on an arbitrary node dispatches to any of them)"""
        bad = []
        for c in sorted(self.classes):
            if cls not in self.mro(c):
                continue
            q = c + '.' + name
            if q not in self.functions:
                continue
            a = self.functions[q][1].args
            params = [p.arg for p in a.posonlyargs + a.args][1:]
            kwonly = [p.arg for p in a.kwonlyargs]
            ok = True
            if npos > len(params) and a.vararg is None:
                ok = False
            for k in kwnames:
                if k == '**':
                    continue
                if k not in params[npos:] and k not in kwonly and a.kwarg is None:
                    ok = False
            # required parameters that the call does not supply
            ndef = len(a.defaults)
            required = params[:len(params) - ndef] if ndef else params
            for i, p in enumerate(required):
                if i >= npos and p not in kwnames:
                    ok = False
            if not ok:
                bad.append(q)
        return bad

    def is_property(self, node):
        return any(isinstance(d, ast.Name) and d.id == 'property' for d in node.decorator_list)

    def class_attr(self, cls, name):
        for c in self.mro(cls):
            if c not in self.classes:
                continue
            for n in self.classes[c][1].body:
                if isinstance(n, ast.Assign):
                    for t in n.targets:
                        if isinstance(t, ast.Name) and t.id == name and isinstance(n.value, ast.Constant):
                            v = n.value.value
                            if isinstance(v, str):
                                return VStr(v)
        return None

    def assigns_attr(self, cls, name):
        """does some method of cls (or of a base class) assign self.<name>?"""
        for c in self.mro(cls):
            if c not in self.classes:
                continue
            for n in ast.walk(self.classes[c][1]):
                if isinstance(n, ast.Attribute) and isinstance(n.ctx, ast.Store) and n.attr == name \
                        and isinstance(n.value, ast.Name) and n.value.id == 'self':
                    return True
        return False

    def field_kind(self, cls, name):
        return self.field_kinds.get((cls, name))

    def global_value(self, qual, name):
        if name in self.extra_globals:
            return self.extra_globals[name]
        if name in self.module_assigns:
            rel, val = self.module_assigns[name]
            if isinstance(val, ast.Constant) and isinstance(val.value, str):
                return VStr(val.value)
        if name == 'logger':
            return VBuiltin('logger')
        if name in ('functools', 'operator', 'itertools', 'gen', 'asyncio', 'inspect'):
            return VBuiltin(name)           # standard-library modules whose functions the interpreter models (interp.BUILTINS)
        if name in self.classes:
            return VClass(name)
        if name in self.functions:
            return VFunc(name, self.functions[name][1], bound=None)
        return None


def find_loops(node):
    """Loops of a function in source order (the ordinal used by loop specs)."""
    out = []

    class V(ast.NodeVisitor):
        def visit_For(self, n):
            out.append(n)
            self.generic_visit(n)

        def visit_While(self, n):
            out.append(n)
            self.generic_visit(n)

        def visit_FunctionDef(self, n):
            if n is node:
                self.generic_visit(n)

        visit_AsyncFunctionDef = visit_FunctionDef
    V().visit(node)
    return out


def locate_nested(fnode, name):
    """A function defined inside another function (structural locator by name)."""
    for n in ast.walk(fnode):
        if isinstance(n, (ast.FunctionDef, ast.AsyncFunctionDef)) and n is not fnode and n.name == name:
            return n
    raise KeyError('locator does not resolve: nested function %s' % name)


def locate_loop(fnode, pred):
    """The first loop of fnode (source order) satisfying pred(loop_node)."""
    for l in find_loops(fnode):
        if pred(l):
            return l
    raise KeyError('locator does not resolve: loop')
