"""Contracts, obligation generation and discharge.

A Contract describes one unit of the repository (a function, method or
coroutine segment):
  * build(I)       -> the symbolic pre-state (requires/invariant assumed) and the call
  * clauses        -> postconditions, each a Python expression (evaluated by the
                      same interpreter as the code, see Interp.eval_spec) or a callable
  * inputs(...)    -> which terms of the pre-state make up a concrete replay input
Obligations are  path-condition ==> clause  for every feasible path of the
real body; they are discharged by z3 (python3-vt wheel) and, when z3 answers
unknown, by cvc5 through SMT-LIB.
"""
import os
import subprocess
import tempfile
import time
import z3
from . import sym
from .interp import Interp, Frame, Outcome
from .state import State, Unsupported, PyRaise, Obligation
from .repoindex import find_loops

class _Scale:
    """solver budget multiplier, read from the environment at use (the runner retries undecided contracts with a larger budget)"""
    def __mul__(self, other):
        return other * float(os.environ.get('PYVC_TIMEOUT_SCALE', '1'))
    __rmul__ = __mul__


SCALE = _Scale()
Z3_TIMEOUT_MS = int(os.environ.get('PYVC_Z3_TIMEOUT_MS', '10000'))
CVC5_TIMEOUT_S = int(os.environ.get('PYVC_CVC5_TIMEOUT_S', '20'))


class Clause:
    def __init__(self, name, props, text=None, fn=None, when='return', note='', kind='text', replay=None):
        self.name = name
        self.props = set(props)
        self.text = text
        self.fn = fn
        self.when = when        # 'return' | 'raise' | 'raise:<cls>' | 'any' | 'yield'
        self.note = note
        self.kind = kind        # how the replay harness evaluates the clause on the real objects
        self.replay = replay or {}

    def to_replay(self):
        d = {'kind': self.kind, 'text': self.text, 'when': self.when, 'name': self.name}
        d.update(self.replay)
        return d

    def applies(self, outcome):
        if self.when == 'any':
            return True
        if self.when == 'normal':
            return outcome.kind in ('return', 'yield')
        if self.when == outcome.kind:
            return True
        if self.when == 'return_or_gen_return':
            # tornado coroutines end with `raise gen.Return(v)`
            return outcome.kind == 'return' or (outcome.kind == 'raise' and outcome.value.cls == 'Return')
        if self.when.startswith('raise:') and outcome.kind == 'raise':
            return outcome.value.cls == self.when[6:]
        if self.when.startswith('yield:') and outcome.kind == 'yield':
            return str(getattr(outcome, 'yield_index', 0)) == self.when[6:]
        return False


class Result:
    """Verdict for one obligation."""

    def __init__(self, name, props, status, backend, seconds, model=None, detail='', path='', clause=None,
                 contract=None, smt=None):
        self.name = name
        self.props = sorted(props)
        self.status = status        # 'proved' | 'failed' | 'unknown'
        self.backend = backend
        self.seconds = seconds
        self.model = model          # decoded replay input (JSON-able) when failed
        self.detail = detail
        self.path = path
        self.clause = clause
        self.contract = contract
        self.smt = smt

    def to_json(self):
        return {'name': self.name, 'props': self.props, 'status': self.status, 'backend': self.backend,
                'seconds': round(self.seconds, 4), 'path': self.path, 'detail': self.detail[:2000]}


def run_cvc5(smt2, timeout_s=None, want_model=False):
    if timeout_s is None:
        timeout_s = int(CVC5_TIMEOUT_S * SCALE)
    with tempfile.NamedTemporaryFile('w', suffix='.smt2', delete=False, dir=os.environ.get('PYVC_TMP', None)) as f:
        f.write('(set-logic ALL)\n' + smt2 + '\n(check-sat)\n' + ('(get-model)\n' if want_model else ''))
        path = f.name
    try:
        cmd = ['/usr/bin/cvc5', '--strings-exp', '--tlimit=%d' % (timeout_s * 1000)]
        if want_model:
            cmd += ['--produce-models', '--strings-fmf']
        p = subprocess.run(cmd + [path], capture_output=True, text=True, timeout=timeout_s + 5)
        out = p.stdout.strip().splitlines()
        if want_model:
            return (out[0] if out else 'unknown'), '\n'.join(out[1:])[:3000]
        return out[0] if out else 'unknown'
    except Exception:
        return 'unknown'
    finally:
        os.unlink(path)


def _func_names(e):
    """names of the uninterpreted function symbols (arity > 0) occurring in e"""
    out, seen, stack = set(), set(), [e]
    while stack:
        x = stack.pop()
        if x.get_id() in seen:
            continue
        seen.add(x.get_id())
        if z3.is_app(x):
            d = x.decl()
            if d.kind() == z3.Z3_OP_UNINTERPRETED and x.num_args() > 0:
                out.add(d.name())
            stack.extend(x.children())
        elif z3.is_quantifier(x):
            stack.append(x.body())
    return out


CROSS = {'agree': 0, 'cvc5_unknown': 0, 'disagree': 0}


def check_valid(pc, formula, want_model=True, timeout_ms=None, second_backend=True):
    """check_valid with the thorough tier's cross-examination: every obligation z3 proves is put to cvc5 as well (the very
    query of the proving stage).  Agreement is recorded in the backend name ('z3+cvc5'); cvc5 finding that query
    satisfiable is a checker error (one of the solvers or the encoding is wrong), never a silent pass."""
    st, be, secs, model, solver = _check_valid(pc, formula, want_model, timeout_ms, second_backend)
    if st == 'failed' and model is not None:
        # safety net for the preprocessing: the counter-model must satisfy the ORIGINAL path condition and falsify the
        # ORIGINAL goal; otherwise nothing has been refuted (undecided)
        try:
            ok = all(not z3.is_false(model.eval(f, model_completion=True)) for f in pc) and \
                not z3.is_true(model.eval(formula, model_completion=True))
        except z3.Z3Exception:
            ok = True
        if not ok:
            st, be, model = 'unknown', be + ' (counter-model rejected by the original query)', None
    if os.environ.get('PYVC_CROSS') and st == 'proved' and be == 'z3':
        t0 = time.time()
        try:
            rc = run_cvc5(solver.to_smt2().replace('(check-sat)', ''), int(os.environ.get('PYVC_CROSS_TIMEOUT', '20')))
        except Exception:
            rc = 'unknown'
        secs += time.time() - t0
        if rc == 'unsat':
            CROSS['agree'] += 1
            be = 'z3+cvc5'
        elif rc == 'sat':
            CROSS['disagree'] += 1
            st, be = 'error', 'z3 unsat / cvc5 sat'
        else:
            CROSS['cvc5_unknown'] += 1
            be = 'z3 (cvc5: no answer)'
    return st, be, secs, model, solver


def _fold_decided_ites(e):
    """replace If(true, a, b) by a and If(false, a, b) by b, nothing else (no normalisation of the surrounding term: the axiom
    instantiation and the split hints work on the syntactic shape the interpreter produced)"""
    for _ in range(6):
        todo, seen, stack = [], set(), [e]
        while stack:
            x = stack.pop()
            if x.get_id() in seen:
                continue
            seen.add(x.get_id())
            if z3.is_app(x):
                if x.decl().kind() == z3.Z3_OP_ITE and (z3.is_true(x.arg(0)) or z3.is_false(x.arg(0))):
                    todo.append((x, x.arg(1) if z3.is_true(x.arg(0)) else x.arg(2)))
                stack.extend(x.children())
        if not todo:
            return e
        e = z3.substitute(e, *todo)
    return e


def propagate_units(pc, formula):
    """Atoms that the path condition has decided (the atom, or its negation, is one of its conjuncts) are replaced by true/false
    inside `If(c, a, b)` conditions of the other conjuncts and of the goal, and the decided `If`s are folded away.  Everything
    else is left syntactically untouched.  The specification functions are unfolded on the *syntactic* concat structure of their
    arguments; an `If` whose condition the path has already decided hides that structure."""
    def is_atom(e):
        if not z3.is_bool(e) or not z3.is_app(e) or z3.is_true(e) or z3.is_false(e):
            return False
        k = e.decl().kind()
        return k not in (z3.Z3_OP_AND, z3.Z3_OP_OR, z3.Z3_OP_NOT, z3.Z3_OP_IMPLIES, z3.Z3_OP_ITE, z3.Z3_OP_XOR)
    units = {}
    for f in pc:
        if z3.is_not(f) and is_atom(f.arg(0)):
            units[f.arg(0).get_id()] = (f.arg(0), z3.BoolVal(False))
        elif is_atom(f):
            units[f.get_id()] = (f, z3.BoolVal(True))
    if not units:
        return pc, formula

    def ite_conditions(e):
        out, seen, stack = {}, set(), [e]
        while stack:
            x = stack.pop()
            if x.get_id() in seen:
                continue
            seen.add(x.get_id())
            if z3.is_app(x):
                if x.decl().kind() == z3.Z3_OP_ITE and x.arg(0).get_id() in units:
                    c = x.arg(0)
                    out[x.get_id()] = (x, x.arg(1) if z3.is_true(units[c.get_id()][1]) else x.arg(2))
                stack.extend(x.children())
        return list(out.values())

    def rewrite(e):
        for _ in range(6):
            subs = ite_conditions(e)
            if not subs:
                return e
            e = z3.substitute(e, *subs)
        return e
    return [rewrite(f) for f in pc], rewrite(formula)


def _lazy_solve(hard, pending, deadline):
    """Solve `hard` and add from `pending` only the formulas a candidate model violates.  Returns (z3.unsat, solver) if the
    formulas added so far are unsatisfiable, (z3.sat, solver) if the solver's model satisfies `hard` and every pending
    formula, (z3.unknown, None) otherwise."""
    sl = z3.Solver()
    sl.set('timeout', int(3000 * SCALE))
    sl.add(*hard)
    pending = list(pending)
    for _round in range(40):
        if time.time() > deadline:
            break
        rl = sl.check()
        if rl == z3.unknown:
            for seed in (7, 23, 101):
                s2 = z3.Solver()
                s2.set('timeout', int(3000 * SCALE))
                s2.set('random_seed', seed)
                s2.add(*sl.assertions())
                rl = s2.check()
                if rl != z3.unknown:
                    sl = s2
                    break
        if rl == z3.unsat:
            return z3.unsat, sl
        if rl != z3.sat:
            break
        ml = sl.model()
        bad, rest = [], []
        for a in pending:
            try:
                v = ml.eval(a, model_completion=True)
            except z3.Z3Exception:
                v = None
            (rest if v is not None and z3.is_true(v) else bad).append(a)
        if not bad:
            return z3.sat, sl
        sl.add(*bad[:60])
        pending = rest + bad[60:]
    return z3.unknown, None


def _check_valid(pc, formula, want_model=True, timeout_ms=None, second_backend=True):
    """Is `formula` valid under the assumptions `pc`?  Returns (status, backend, seconds, model, solver)."""
    t0 = time.time()
    try:
        pc, formula = propagate_units(list(pc), formula)
    except z3.Z3Exception:
        pass
    neg = z3.Not(formula)
    fs = list(pc) + [neg]
    # stage A: only the first unfolding round (and the lemma instances): many obligations are already propositional
    # consequences of the path condition; a small query keeps the solver out of the noise of the full instantiation
    # stage A0: only the axioms about the specification functions that occur in the goal itself
    try:
        gapps = []
        sym._walk(neg, set(), gapps)
        allowed = set(sf.name for sf, _ in gapps)
        if allowed:
            full = sym.instantiate_axioms(fs, rounds=4)
            keep = []
            for a in full:
                aa = []
                sym._walk(a, set(), aa)
                if all(sf.name in allowed for sf, _ in aa):
                    keep.append(a)
            keep += sym.length_axioms(fs)
            keep += sym.structural_axioms(fs + keep)
            s0 = z3.Solver()
            s0.set('timeout', int(5000 * SCALE))
            s0.add(*fs)
            s0.add(*keep)
            if s0.check() == z3.unsat:
                return 'proved', 'z3', time.time() - t0, None, s0
            # the same with the path condition sliced to the formulas that only use function symbols of the goal
            # (dropping assumptions is sound for a proof; irrelevant uninterpreted predicates derail the sequence solver)
            gf = _func_names(neg) | set(n for a in keep for n in _func_names(a))
            sliced = [f for f in pc if _func_names(f) <= gf]
            s1 = z3.Solver()
            s1.set('timeout', int(5000 * SCALE))
            s1.add(*sliced)
            s1.add(neg)
            s1.add(*keep)
            if s1.check() == z3.unsat:
                return 'proved', 'z3', time.time() - t0, None, s1
            # z3's sequence solver is unstable on identical input; cvc5 decides the small sliced query reliably
            if second_backend and run_cvc5(s1.to_smt2().replace('(check-sat)', ''), int(10 * SCALE)) == 'unsat':
                return 'proved', 'cvc5', time.time() - t0, None, s1
    except z3.Z3Exception:
        pass
    ax = sym.instantiate_axioms(fs)
    ax += sym.length_axioms(fs)
    ax += sym.structural_axioms(fs + ax)
    ax += sym.str_elem_distinct()
    # lazy stage: start from the path condition alone and add only the axiom instances a candidate model violates.  `unsat`
    # at any point proves the obligation (fewer hypotheses); a model that satisfies every instance is a genuine counter-model
    # of the instantiated query and is handed to the refinement below.  This finds counter-models the eager query (hundreds
    # of sequence axioms at once) leaves `unknown`.
    try:
        sl = z3.Solver()
        sl.set('timeout', int(3000 * SCALE))
        sl.add(*fs)
        pending = list(ax)
        lazy_deadline = time.time() + 20 * SCALE
        for _round in range(40):
            if time.time() > lazy_deadline:
                break
            rl = sl.check()
            if os.environ.get('PYVC_DBG'):
                print('   [lazy] round', _round, rl, len(pending), flush=True)
            if rl == z3.unsat:
                return 'proved', 'z3', time.time() - t0, None, sl
            if rl != z3.sat:
                # z3's sequence solver gives up on inputs it decides at once from another starting point: retry the same
                # assertions in fresh solvers with other seeds
                for seed in (7, 23, 101):
                    s2 = z3.Solver()
                    s2.set('timeout', int(3000 * SCALE))
                    s2.set('random_seed', seed)
                    s2.add(*sl.assertions())
                    rl = s2.check()
                    if rl != z3.unknown:
                        sl = s2
                        break
                if rl == z3.unsat:
                    return 'proved', 'z3', time.time() - t0, None, sl
                if rl != z3.sat:
                    break
            ml = sl.model()
            bad, rest = [], []
            for a in pending:
                try:
                    v = ml.eval(a, model_completion=True)
                except z3.Z3Exception:
                    v = None
                if v is not None and z3.is_true(v):
                    rest.append(a)
                else:
                    bad.append(a)
            if not bad:
                if want_model:
                    # every instantiated axiom holds in this model: let the eager solver below start from the same facts
                    pass
                lazy_model = ml
                sfull = sl
                r_lazy = z3.sat
                break
            sl.add(*bad[:60])
            pending = rest + bad[60:]
        else:
            r_lazy = None
    except z3.Z3Exception as _e:
        globals()['_dbg'] = repr(_e)
    if locals().get('r_lazy') != z3.sat:
        for depth in (1, 2, 3):
            try:
                ax0 = sym.instantiate_axioms(fs, rounds=depth) + sym.length_axioms(fs)
                ax0 += sym.structural_axioms(fs + ax0)
                s0 = z3.Solver()
                s0.set('timeout', int(4000 * SCALE))
                s0.add(*fs)
                s0.add(*ax0)
                if s0.check() == z3.unsat:
                    return 'proved', 'z3', time.time() - t0, None, s0
            except z3.Z3Exception:
                break
    s = z3.Solver()
    s.set('timeout', int((timeout_ms or Z3_TIMEOUT_MS) * SCALE))
    s.add(*fs)
    s.add(*ax)
    r = s.check()
    if r == z3.unknown and locals().get('r_lazy') == z3.sat:
        # the eager query is too hard, the lazy one produced a model of the path condition, the negated goal and every
        # instantiated axiom
        # (the remaining instances all evaluate to true in that model, they need not be added)
        s = sfull
        r = z3.sat
    # counter-model refinement: a model may violate homomorphism axioms that were not instantiated because
    # the argument is a variable; unfold them on the model's value of the argument and re-solve
    rounds = 0
    seen_lemmas = set()
    lemma_ids = set()
    last_model = None
    while r == z3.sat and rounds < 8:
        m = s.model()
        last_model = m
        apps = []
        seen = set()
        for f in fs + ax:
            sym._walk(f, seen, apps)
        lemmas = []
        for sf, app in apps:
            arg = app.arg(app.num_args() - 1)
            k = arg.decl().kind()
            if k in (z3.Z3_OP_SEQ_EMPTY, z3.Z3_OP_SEQ_UNIT, z3.Z3_OP_SEQ_CONCAT):
                continue
            try:
                n = m.eval(z3.Length(arg), model_completion=True).as_long()
            except (z3.Z3Exception, AttributeError):
                continue
            if n > 6:
                continue
            key = (arg.get_id(), n)
            if key not in seen_lemmas:
                seen_lemmas.add(key)
                if n == 0:
                    conc_arg = z3.Empty(arg.sort())
                else:
                    parts = [z3.Unit(arg[i]) for i in range(n)]
                    conc_arg = parts[0] if n == 1 else z3.Concat(*parts)
                # valid fact about sequences: a sequence of length n is the concatenation of its n units
                lemmas.append(z3.Implies(z3.Length(arg) == n, arg == conc_arg))
            key2 = (app.get_id(), n)
            if key2 in seen_lemmas:
                continue
            seen_lemmas.add(key2)
            if n == 0:
                conc_arg = z3.Empty(arg.sort())
            else:
                parts = [z3.Unit(arg[i]) for i in range(n)]
                conc_arg = parts[0] if n == 1 else z3.Concat(*parts)
            extra = [app.arg(i) for i in range(sf.nextra)]
            lemmas.append(z3.Implies(z3.Length(arg) == n, app == sf.f(*(extra + [conc_arg]))))
        if not lemmas:
            break
        more = sym.instantiate_axioms(lemmas)
        more += sym.structural_axioms(lemmas + more)
        s.add(*lemmas)
        s.add(*more)
        ax = ax + lemmas + more
        lemma_ids.update(x.get_id() for x in lemmas)
        rounds += 1
        r = s.check()
        if r == z3.unknown:
            # the sequence solver gives up on the refined query ("incomplete (theory seq)"): solve it lazily instead (hard part:
            # path condition, negated goal and the valid unfolding lemmas; axiom instances only as far as a model violates them)
            rl, sl2 = _lazy_solve(fs + [l for l in ax if l.get_id() in lemma_ids or l.get_id() in set(x.get_id() for x in lemmas)],
                                  [a for a in ax], time.time() + 15 * SCALE)
            if rl == z3.unsat:
                return 'proved', 'z3', time.time() - t0, None, sl2
            if rl == z3.sat:
                s, r = sl2, z3.sat
            else:
                # look for a counter-model of the shape the last model had: every sequence variable a specification function
                # is applied to becomes a concatenation of that many fresh units (a restriction: `sat` is a counter-model of
                # the original query, `unsat` means nothing)
                try:
                    subs, seen_args = [], set()
                    for sf, app in apps:
                        arg = app.arg(app.num_args() - 1)
                        if not z3.is_const(arg) or arg.decl().kind() != z3.Z3_OP_UNINTERPRETED or arg.get_id() in seen_args:
                            continue
                        seen_args.add(arg.get_id())
                        n = m.eval(z3.Length(arg), model_completion=True).as_long()
                        if n > 6:
                            continue
                        es = [z3.FreshConst(arg.sort().basis(), 'u') for _ in range(n)]
                        conc = z3.Empty(arg.sort()) if n == 0 else (z3.Unit(es[0]) if n == 1 else z3.Concat(*[z3.Unit(e) for e in es]))
                        subs.append((arg, conc))
                    if subs:
                        fs2 = [z3.substitute(f, *subs) for f in fs]
                        ax2 = sym.instantiate_axioms(fs2)
                        ax2 += sym.length_axioms(fs2)
                        ax2 += sym.structural_axioms(fs2 + ax2)
                        ax2 += sym.str_elem_distinct()
                        rl, sl3 = _lazy_solve(fs2 + [a == c for a, c in subs], ax2, time.time() + 15 * SCALE)
                        if os.environ.get('PYVC_DBG'):
                            print('   [refine] shape-restricted', rl, flush=True)
                        if rl == z3.sat:
                            s, r = sl3, z3.sat
                            break
                except (z3.Z3Exception, AttributeError):
                    pass
        if os.environ.get('PYVC_DBG'):
            print('   [refine] round', rounds, r, len(lemmas), s.reason_unknown() if r == z3.unknown else '', flush=True)
    if r == z3.unsat:
        return 'proved', 'z3', time.time() - t0, None, s
    if r == z3.sat:
        return 'failed', 'z3', time.time() - t0, (s.model() if want_model else None), s
    if r == z3.unknown and last_model is not None:
        # refinement made the query too hard: report the last (possibly axiom-violating) model; the replay decides
        return 'failed', 'z3', time.time() - t0, (last_model if want_model else None), s
    if second_backend:
        try:
            smt = s.to_smt2().replace('(check-sat)', '')
            rc = run_cvc5(smt)
        except Exception:
            rc = 'unknown'
        if rc == 'unsat':
            return 'proved', 'cvc5', time.time() - t0, None, s
        if rc == 'sat':
            # z3 could not decide, cvc5 finds the negation satisfiable: the obligation fails, without a decoded input
            try:
                _, mtxt = run_cvc5(smt, want_model=True)
            except Exception:
                mtxt = ''
            s.cvc5_model_text = mtxt
            return 'failed', 'cvc5', time.time() - t0, None, s
    return 'unknown', 'z3+cvc5' if second_backend else 'z3', time.time() - t0, None, s


class Contract:
    """Base class.  Subclasses set qual/file/props and implement build() and clauses()."""
    qual = None
    file = None
    inline = ()
    assumptions = ()
    harness = None              # replay harness kind
    abstracted = ()

    def __init__(self):
        self.name = getattr(self, 'name', None) or self.qual

    # -- hooks
    def summaries(self):
        return {}

    def loop_specs(self):
        return {}

    def spec_funcs(self):
        return {}

    def globals(self):
        return {}

    def build(self, I):
        """Create I.st (pre-state), return (callable, args, kwargs).  Must also set
        self.pre (snapshot used by old())."""
        raise NotImplementedError

    def clauses(self):
        return []

    def cover(self, outcomes):
        """Return list of (name, bool) reachability facts that must all be True."""
        return [('some path reaches the end of the unit', any(o.kind in ('return', 'yield') for o in outcomes))]

    def replay_input(self, I, model, outcome):
        return None

    # -- machinery
    def make_interp(self, index):
        I = Interp(index, summaries=self.summaries(), loop_specs=self.loop_specs(), inline=self.inline,
                   spec_funcs=self.spec_funcs(), globals_=self.globals())
        return I

    def unit(self, I, index):
        """Default unit: the whole body of the function self.qual."""
        rel, node = index.function(self.qual)
        f = sym.VFunc(self.qual, node, bound=None)

        def run(I):
            fn_args = self.build(I)
            recv, args, kwargs = fn_args
            f.bound = recv
            frames = []
            I.verifying_qual = self.qual
            try:
                v = I.run_function(f, args, kwargs, frame_out=frames)
            finally:
                self.last_frame = frames[0] if frames else None
            return v, frames[0]
        return run

    def spec_frame(self, I, outcome):
        """Names visible to clause expressions."""
        fr = Frame(self.qual + '.<spec>')
        if outcome.frame is not None:
            # parameters and locals at exit (parameters may have been rebound; the entry values are in pre_args)
            fr.locals.update(outcome.frame.locals)
        self.pre_state, self.pre_args = outcome.state.ghost['_pre']
        I.contract_pre = self.pre_state
        fr.locals.update(self.pre_args)
        if outcome.kind == 'return':
            fr.locals['result'] = outcome.value
        return fr

    def verify(self, index, props=None, want_models=True):
        """Generate and discharge every obligation.  Returns (results, info)."""
        I = self.make_interp(index)
        self.I = I
        t0 = time.time()
        outcomes = I.explore(self.unit(I, index))
        results = []
        n_paths = len(outcomes)
        uncovered = []
        cut = [False]
        budget = float(os.environ.get('PYVC_CONTRACT_BUDGET_S', '150'))

        def budget_cut(res):
            # once a violation of this contract is established, the remaining obligations are only attempted while time allows
            return (time.time() - t0) > budget and any(r.status == 'failed' for r in res)
        for k, o in enumerate(outcomes):
            path_id = ''.join('T' if d else 'F' for d in o.decisions) or '-'
            I.st = o.state
            # obligations raised at call sites along the path
            fr = self.spec_frame(I, o)
            okey = o.kind + (':' + o.value.cls if o.kind == 'raise' else '')
            if (o.kind != 'end' and okey not in getattr(self, 'unclaimed_outcomes', {})
                    and not any(cl.applies(o) for cl in self.clauses()) and not o.state.obligations):
                # a way of leaving the unit about which the contract says nothing: the contract is too weak to notice a
                # change of outcome structure (e.g. a function turned into a coroutine) -> checker error, not a pass
                uncovered.append('%s path %s' % (o.kind, path_id))
            for cl in self.clauses():
                # a contract that serves the property (registry: one of its clauses is tagged with it) is checked in full: the
                # clauses of one function stand or fall together, and a change that breaks the property is often first visible
                # in a clause that was tagged for a neighbouring property
                if not cl.applies(o):
                    continue
                I.st = o.state
                try:
                    if cl.fn is not None:
                        formula = cl.fn(self, I, o, fr)
                    else:
                        formula = I.spec_bool(cl.text, fr, old_st=self.pre_state, old_frame=self.pre_frame(I))
                except Unsupported as e:
                    results.append(Result('%s/%s' % (self.name, cl.name), cl.props, 'error', '-', 0,
                                          detail='clause not evaluable: %s' % e, path=path_id, clause=cl,
                                          contract=self))
                    continue
                if formula is None:
                    continue
                if budget_cut(results):
                    results.append(Result('%s/%s' % (self.name, cl.name), cl.props, 'unknown', '-', 0, path=path_id, clause=cl,
                                          contract=self, detail='not attempted: the contract already has a failed obligation and '
                                                                'has used its time budget'))
                    cut[0] = True
                    continue
                results.append(self._discharge('%s/%s' % (self.name, cl.name), cl.props, o, formula, path_id, cl,
                                               want_models))
        # obligations raised at call sites along each path (callee preconditions, accounting checks)
        for k, o in enumerate(outcomes):
            path_id = ''.join('T' if d else 'F' for d in o.decisions) or '-'
            done = set()
            for ob in o.state.obligations:
                if id(ob) in done:
                    continue
                done.add(id(ob))
                obp = getattr(ob, 'props', None) or self.props
                if budget_cut(results):
                    cut[0] = True
                    continue
                st, be, secs, model, solver = check_valid(ob.pc, ob.formula)
                r = Result('%s/%s' % (self.name, ob.name), obp, st, be, secs,
                           detail=ob.note, path=path_id, contract=self)
                r.outcome = o
                r.ob = ob
                if st == 'failed' and want_models and model is not None:
                    try:
                        r.model = self._decode(I, model, o)
                    except Exception as e:
                        r.detail += ' (model decoding failed: %r)' % (e,)
                    r.detail = (r.detail + '\n' + self._model_text(model))[:4000]
                results.append(r)
        info = {'paths': n_paths, 'seconds': time.time() - t0, 'branch_checks': I.n_branch_checks,
                'outcomes': [o.kind + (':' + o.value.cls if o.kind == 'raise' else '') +
                             (':%d' % getattr(o, 'yield_index', 0) if o.kind == 'yield' else '') for o in outcomes],
                'dropped': sorted(I.dropped), 'cover': self.cover(outcomes), 'uncovered': uncovered, 'budget_cut': cut[0],
                'unverified_units': sorted(getattr(I, 'unverified_units', ()))}
        self.outcomes = outcomes
        return results, info

    def pre_frame(self, I):
        fr = Frame(self.qual + '.<old>')
        fr.locals.update(getattr(self, 'pre_args', {}))
        return fr

    def _discharge(self, name, props, o, formula, path_id, cl, want_models):
        st, be, secs, model, solver = check_valid(o.state.pc, formula)
        if os.environ.get('PYVC_TRACE'):
            print('  [trace] %s path %s -> %s (%s, %.2fs)' % (name, path_id, st, be, secs), flush=True)
        r = Result(name, props, st, be, secs, path=path_id, clause=cl, contract=self)
        r.outcome = o
        if st == 'failed' and want_models:
            try:
                r.model = self._decode(self.I, model, o) if model is not None else None
            except Exception as e:      # decoding is best effort
                r.model = None
                r.detail = 'model decoding failed: %r\n' % (e,)
            r.detail += self._model_text(model) if model is not None else ('cvc5 model:\n' + getattr(solver, 'cvc5_model_text', ''))
        return r

    def _decode(self, I, model, outcome):
        return self.replay_input(I, model, outcome)

    @staticmethod
    def _model_text(model):
        try:
            return str(model)[:3000]
        except Exception:
            return '<model>'
