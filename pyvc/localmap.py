"""Alignment of local variable names between the source a contract was written against (the committed baseline copy under
/verif/baseline) and the source under test.

Contracts have to talk about a few locals (loop accumulators in invariants, the locals of a suspended coroutine frame).  A
refactoring that renames such a local does not change behaviour and must not change the verdict.  The mapping is inferred
structurally:

 1. if the two function bodies are equal up to a consistent renaming of locals (docstrings, comments and logger calls
    ignored), the renaming is read off position by position;
 2. otherwise each local gets a feature set (how it is defined: the shape of the right-hand sides assigned to it, the iterables it
    ranges over; how it is used: methods called on it, which calls receive it as which argument, whether it is returned /
    yielded / awaited) and baseline locals are matched to the most similar current local (mutual best match, strictly better
    than the runner-up, similarity >= 0.5 or else the only resemblance at all in both directions).

A baseline local that still exists under its own name is never remapped.  The mapping only renames; it cannot make an
obligation hold that would not hold for the renamed program.  If a contract needs a local for which no counterpart is found
the contract cannot be applied and says so (checker error, never a verdict)."""
import ast
import copy


def _strip(fn):
    """copy of the function without docstring, logger.* expression statements and nested function bodies' docstrings"""
    fn = copy.deepcopy(fn)

    class T(ast.NodeTransformer):
        def visit_Expr(self, n):
            v = n.value
            if isinstance(v, ast.Constant) and isinstance(v.value, str):
                return None
            if isinstance(v, ast.Call) and isinstance(v.func, ast.Attribute) and isinstance(v.func.value, ast.Name) \
                    and v.func.value.id == 'logger':
                return None
            return n
    fn = T().visit(fn)
    for n in ast.walk(fn):
        if hasattr(n, 'body') and isinstance(n.body, list) and not n.body:
            n.body = [ast.Pass()]
    return fn


def local_names(fn):
    """names bound inside fn (its own scope), parameters excluded"""
    params = {a.arg for a in fn.args.posonlyargs + fn.args.args + fn.args.kwonlyargs}
    if fn.args.vararg:
        params.add(fn.args.vararg.arg)
    if fn.args.kwarg:
        params.add(fn.args.kwarg.arg)
    out = []

    def walk(n, top):
        for c in ast.iter_child_nodes(n):
            if isinstance(c, (ast.FunctionDef, ast.AsyncFunctionDef, ast.Lambda, ast.ClassDef)):
                if isinstance(c, (ast.FunctionDef, ast.AsyncFunctionDef)) and c.name not in out and c.name not in params:
                    out.append(c.name)
                continue
            if isinstance(c, (ast.ListComp, ast.SetComp, ast.DictComp, ast.GeneratorExp)):
                continue        # comprehension variables live in their own scope
            if isinstance(c, ast.Name) and isinstance(c.ctx, ast.Store) and c.id not in params and c.id not in out:
                out.append(c.id)
            if isinstance(c, ast.ExceptHandler) and c.name and c.name not in out:
                out.append(c.name)
            walk(c, False)
    walk(fn, True)
    return out, params


def _alpha_dump(fn, locs):
    order = {}

    class R(ast.NodeTransformer):
        def visit_Name(self, n):
            if n.id in locs:
                k = order.setdefault(n.id, len(order))
                return ast.copy_location(ast.Name(id='$%d' % k, ctx=n.ctx), n)
            return n

        def visit_ExceptHandler(self, n):
            if n.name in locs:
                k = order.setdefault(n.name, len(order))
                n.name = '$%d' % k
            self.generic_visit(n)
            return n
    t = R().visit(copy.deepcopy(fn))
    t.name = '_'
    return ast.dump(t, include_attributes=False), order


def _shape(e, locs):
    """dump of an expression with every local replaced by '?'"""
    class R(ast.NodeTransformer):
        def visit_Name(self, n):
            if n.id in locs:
                return ast.Name(id='?', ctx=ast.Load())
            return n
    return ast.dump(R().visit(copy.deepcopy(e)), include_attributes=False)


def _features(fn, locs):
    feats = {n: set() for n in locs}

    def add(name, f):
        if name in feats:
            feats[name].add(f)

    def targets(t, value):
        if isinstance(t, ast.Name):
            add(t.id, ('def', _shape(value, locs)) if value is not None else ('def', '?'))
        elif isinstance(t, (ast.Tuple, ast.List)):
            vals = value.elts if isinstance(value, (ast.Tuple, ast.List)) and len(value.elts) == len(t.elts) else [None] * len(t.elts)
            for i, (tt, vv) in enumerate(zip(t.elts, vals)):
                if vv is None and value is not None and isinstance(tt, ast.Name):
                    add(tt.id, ('unpack', i, _shape(value, locs)))
                else:
                    targets(tt, vv)
    for n in ast.walk(fn):
        if isinstance(n, ast.Assign):
            for t in n.targets:
                targets(t, n.value)
        elif isinstance(n, ast.AugAssign) and isinstance(n.target, ast.Name):
            add(n.target.id, ('aug', type(n.op).__name__, _shape(n.value, locs)))
        elif isinstance(n, (ast.For, ast.AsyncFor)):
            if isinstance(n.target, ast.Name):
                add(n.target.id, ('for', _shape(n.iter, locs)))
            if isinstance(n.iter, ast.Name):
                add(n.iter.id, ('iterated',))
        elif isinstance(n, ast.Call):
            if isinstance(n.func, ast.Attribute) and isinstance(n.func.value, ast.Name):
                add(n.func.value.id, ('method', n.func.attr))
            fname = ast.unparse(n.func) if not (isinstance(n.func, ast.Attribute) and isinstance(n.func.value, ast.Name)
                                               and n.func.value.id in locs) else '?.' + n.func.attr
            for i, a in enumerate(n.args):
                if isinstance(a, ast.Name):
                    add(a.id, ('arg', fname, i))
                elif isinstance(a, ast.Starred) and isinstance(a.value, ast.Name):
                    add(a.value.id, ('stararg', fname))
            for k in n.keywords:
                if isinstance(k.value, ast.Name):
                    add(k.value.id, ('kwarg', fname, k.arg))
        elif isinstance(n, ast.Return) and isinstance(n.value, ast.Name):
            add(n.value.id, ('returned',))
        elif isinstance(n, (ast.Yield, ast.Await)) and isinstance(n.value, ast.Name):
            add(n.value.id, ('yielded',))
        elif isinstance(n, ast.Subscript) and isinstance(n.value, ast.Name):
            add(n.value.id, ('subscripted',))
        elif isinstance(n, ast.ExceptHandler) and n.name:
            add(n.name, ('except', ast.unparse(n.type) if n.type else ''))
        elif isinstance(n, ast.comprehension) and isinstance(n.iter, ast.Name):
            add(n.iter.id, ('iterated',))
    return feats


def local_mapping(base_fn, cur_fn):
    """dict: baseline local name -> current local name (only entries that differ or are confirmed); {} if nothing to map"""
    b, c = _strip(base_fn), _strip(cur_fn)
    bl, bp = local_names(b)
    cl, cp = local_names(c)
    if set(bl) <= set(cl):
        return {}
    da, oa = _alpha_dump(b, set(bl))
    db, ob = _alpha_dump(c, set(cl))
    if da == db:
        inv = {k: n for n, k in ob.items()}
        return {n: inv[k] for n, k in oa.items() if n != inv[k]}
    missing = [n for n in bl if n not in cl]
    free = [n for n in cl if n not in bl]
    fb, fc = _features(b, set(bl)), _features(c, set(cl))

    def sim(x, y):
        if not x and not y:
            return 0.0
        return len(x & y) / float(len(x | y))
    out = {}
    for n in missing:
        scored = sorted(((sim(fb[n], fc[m]), m) for m in free), reverse=True)
        if not scored or scored[0][0] <= 0:
            continue
        if len(scored) > 1 and scored[1][0] >= scored[0][0]:
            continue
        m = scored[0][1]
        # mutual best among the missing baseline names
        back = sorted(((sim(fb[k], fc[m]), k) for k in missing), reverse=True)
        if back[0][1] != n or (len(back) > 1 and back[1][0] >= back[0][0]):
            continue
        if scored[0][0] < 0.5:
            # a weak resemblance is accepted only when it is the ONLY one in both directions (e.g. `r = yield f(x)` rewritten as
            # `t = f(x); r2 = yield t`: the defining expression changed shape, the uses did not)
            if (len(scored) > 1 and scored[1][0] > 0) or (len(back) > 1 and back[1][0] > 0):
                continue
        out[n] = m
    return out


def rename_spec(tree, mapping, keep=()):
    """apply a local-name mapping to a parsed specification expression"""
    if not mapping:
        return tree

    class R(ast.NodeTransformer):
        def visit_Name(self, n):
            if n.id in mapping and n.id not in keep:
                # an explicit reference to the program local (its new name may coincide with a ghost name of the contracts)
                return ast.copy_location(ast.Call(func=ast.Name(id='__local__', ctx=ast.Load()),
                                                  args=[ast.Constant(mapping[n.id])], keywords=[]), n)
            return n
    return ast.fix_missing_locations(R().visit(tree))
