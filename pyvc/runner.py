"""Run the contracts that serve one property, replay failures, write evidence, decide the exit code.

exit 0  every obligation discharged (or only listed known findings fail)
exit 1  an obligation failed and is not a listed known finding   -> VIOLATION line
exit 2  undecided (solver unknown in both back ends / counter-model does not replay)
exit 3  checker error (locator unresolved, unsupported construct, zero obligations, ...)
"""
import importlib
import json
import multiprocessing as mp
import os
import subprocess
import sys
import time
import traceback

VERIF = os.path.dirname(os.path.dirname(os.path.abspath(__file__)))
REPO = os.environ.get('VERIF_REPO', '/repo')
VENV_PY = '/venv/bin/python'
REPO_FILES = ['streamz/core.py', 'streamz/sinks.py', 'streamz/orderedweakset.py', 'streamz/sources.py',
              'streamz/dask.py', 'streamz/batch.py', 'streamz/collection.py', 'streamz/utils.py',
              'streamz/dataframe/core.py', 'streamz/dataframe/aggregations.py']


def load_registry():
    sys.path.insert(0, VERIF)
    reg = importlib.import_module('contracts.registry')
    return reg


def run_replay(harness, payload, timeout=120):
    script = os.path.join(VERIF, 'replay', harness + '.py')
    payload = dict(payload)
    payload['repo'] = REPO
    try:
        p = subprocess.run([VENV_PY, script], input=json.dumps(payload, default=repr), capture_output=True,
                           text=True, timeout=timeout, cwd=VERIF)
        if p.returncode != 0 or not p.stdout.strip():
            return {'ran': False, 'clause_holds': None, 'error': (p.stderr or p.stdout)[-2000:]}
        return json.loads(p.stdout)
    except Exception as e:
        return {'ran': False, 'clause_holds': None, 'error': repr(e)}


def _worker(job):
    modname, clsname, pid = job
    t0 = time.time()
    out = {'contract': clsname, 'module': modname, 'results': [], 'error': None, 'info': {}, 'functions': [],
           'assumptions': [], 'name': clsname}
    try:
        from pyvc.repoindex import RepoIndex
        mod = importlib.import_module(modname)
        C = getattr(mod, clsname)
        c = C()
        out['name'] = c.name
        files = list(getattr(c, 'files', None) or [c.file, 'streamz/core.py'])
        files = [f for i, f in enumerate(files) if f not in files[:i]]
        idx = RepoIndex(files, REPO)
        if hasattr(c, 'prepare_index'):
            c.prepare_index(idx)
        results, info = c.verify(idx, props=[pid])
        out['info'] = {k: v for k, v in info.items() if k != 'cover'}
        out['info']['cover'] = [[n, bool(b)] for n, b in info.get('cover', [])]
        quals = [getattr(c, 'qual_resolved', None) or c.qual] + [q for q in getattr(c, 'inline', ()) if q in idx.functions] + list(getattr(c, 'extra_functions', ()))
        for q in quals:
            try:
                si = idx.source_info(q)
                si['dropped'] = info.get('dropped', [])
                out['functions'].append(si)
            except KeyError as e:
                out['error'] = 'locator does not resolve: %s' % q
        out['assumptions'] = (list(getattr(c, 'assumptions', ())) + ['abstracted: ' + a for a in getattr(c, 'abstracted', ())]
                              + ['not claimed: ' + v for v in getattr(c, 'unclaimed_outcomes', {}).values()])
        for r in results:
            d = r.to_json()
            d['contract'] = c.name
            if r.status == 'failed':
                rp = None
                if r.clause is not None:
                    rp = r.clause.to_replay()
                else:
                    rp = getattr(getattr(r, 'ob', None), 'replay', None)
                d['replay_input'] = r.model
                d['clause'] = rp
                if rp is not None and rp.get('scenario'):
                    # protocol-level obligation: replay the named history on the real classes
                    d['replay_input'] = {'harness': 'history_harness', 'scenario': rp['scenario'], 'counter_model': r.detail[:1500]}
                    d['replay'] = run_replay('history_harness', {'input': d['replay_input'], 'clause': rp})
                elif r.model is not None and rp is not None and getattr(c, 'harness', None):
                    d['replay'] = run_replay(r.model.get('harness', c.harness), {'input': r.model, 'clause': rp})
                else:
                    d['replay'] = {'ran': False, 'clause_holds': None,
                                   'error': 'no concrete input could be derived from the counter-model'}
            out['results'].append(d)
    except Exception as e:
        out['error'] = '%s: %s' % (type(e).__name__, e)
        out['traceback'] = traceback.format_exc()[-1500:]
    out['seconds'] = time.time() - t0
    return out


def self_test(pid):
    """Thorough tier: does the check still bite?  Every seeded property-breaking change kept under seeded/<pid>-*/ is applied
    to a scratch copy of the tree under test (outside /repo and /verif, removed afterwards) and the quick check is run on
    it; it must not come out green.  A change that no longer applies to the current tree is skipped and said so."""
    import glob
    import shutil
    import tempfile
    out = []
    limit = int(os.environ.get('VERIF_SELFTEST_MAX', '2'))      # keeps the thorough tier within minutes; all kept changes are
    done = 0                                                    # re-checked by seeded/recheck.sh
    for d in sorted(glob.glob(os.path.join(VERIF, 'seeded', pid + '-*'))):
        patch = os.path.join(d, 'patch.diff')
        if not os.path.exists(patch):
            continue
        if done >= limit:
            out.append({'change': os.path.basename(d), 'applied': None, 'note': 'not run (limit of %d self-tests per run)' % limit})
            continue
        done += 1
        scratch = tempfile.mkdtemp(prefix='verif_selftest_')
        rec = {'change': os.path.basename(d)}
        try:
            shutil.copytree(os.path.join(REPO, 'streamz'), os.path.join(scratch, 'streamz'),
                            ignore=shutil.ignore_patterns('__pycache__', '*.pyc'))
            ap = subprocess.run(['git', 'apply', '--whitespace=nowarn', patch], cwd=scratch, capture_output=True, text=True)
            if ap.returncode != 0:
                rec.update({'applied': False, 'note': 'patch does not apply to the current tree: ' + ap.stderr.strip()[:200]})
            else:
                env = dict(os.environ, VERIF_REPO=scratch, VERIF_TIER='quick')
                env.pop('PYVC_CROSS', None)
                p = subprocess.run([sys.executable, '-m', 'pyvc.runner', pid, '--no-evidence', '--tier', 'quick', '--no-self-test'],
                                   cwd=VERIF, env=env, capture_output=True, text=True, timeout=3000)
                viol = [l for l in p.stdout.splitlines() if l.startswith('VIOLATION')]
                rec.update({'applied': True, 'exit': p.returncode, 'detected': p.returncode != 0,
                            'violation_lines': [v.replace(scratch, '<scratch>') for v in viol][:6]})
        except Exception as e:
            rec.update({'applied': None, 'note': 'self-test could not run: %r' % (e,)})
        finally:
            shutil.rmtree(scratch, ignore_errors=True)
        out.append(rec)
    return out


def match_known(known, pid, res):
    """Is this failed obligation a listed open finding?  Matching is by obligation (contract/clause)
    and, when the entry has one, by a predicate over the concrete replayed input."""
    for k in known:
        if k.get('status') != 'open':
            continue        # (an open finding is the same defect under whichever property's check its obligation is evaluated)
        obs = k['obligation'] if isinstance(k['obligation'], list) else [k['obligation']]
        if res['name'] not in obs:
            continue
        pred = k.get('input_predicate')
        if pred:
            try:
                inp = res.get('replay_input') or {}
                env = {'input': inp, 'fields': inp.get('fields', {}), 'obs': (res.get('replay') or {}).get('observed', {})}
                if not eval(pred, {'__builtins__': {'len': len, 'abs': abs, 'any': any, 'all': all, 'isinstance': isinstance, 'int': int}}, env):
                    continue
            except Exception:
                continue
        return k
    return None


def main(argv=None):
    import argparse
    ap = argparse.ArgumentParser()
    ap.add_argument('property')
    ap.add_argument('--tier', default=os.environ.get('VERIF_TIER', 'quick'))
    ap.add_argument('--jobs', type=int, default=int(os.environ.get('PYVC_JOBS', '16')))
    ap.add_argument('--only', default=None, help='comma separated contract class names')
    ap.add_argument('--no-evidence', action='store_true')
    ap.add_argument('--no-self-test', action='store_true')
    args = ap.parse_args(argv)
    pid = args.property
    seed = int(os.environ.get('VERIF_SEED', '0'))
    t0 = time.time()
    reg = load_registry()
    jobs = [(m, c, pid) for (m, c, props) in reg.CONTRACTS if pid in props]
    if args.only:
        only = set(args.only.split(','))
        jobs = [j for j in jobs if j[1] in only]
    if not jobs:
        print('checker error: no contract serves %s' % pid)
        return 3
    if args.tier == 'thorough':
        os.environ['PYVC_CROSS'] = '1'        # every z3 proof is put to cvc5 as well (pyvc/contract.py: check_valid)
    # one fresh process per contract: fresh z3 context and fresh-name counter, so verdicts do not depend on which other
    # contracts happened to run in the same worker before
    with mp.Pool(min(args.jobs, len(jobs)), maxtasksperchild=1) as pool:
        outs = pool.map(_worker, jobs, chunksize=1)
    # a contract with an undecided obligation is run once more, alone and with three times the solver budget: `unknown` under
    # load (all cores busy with the other contracts) must not flip a verdict
    redo = [i for i, o in enumerate(outs) if any(r['status'] == 'unknown' for r in o['results'])
            and not o['info'].get('budget_cut') and not any(r['status'] == 'failed' for r in o['results'])]
    if redo and not os.environ.get('PYVC_NO_RETRY'):
        os.environ['PYVC_TIMEOUT_SCALE'] = '3'
        with mp.Pool(min(4, len(redo)), maxtasksperchild=1) as pool:
            again = pool.map(_worker, [jobs[i] for i in redo], chunksize=1)
        os.environ.pop('PYVC_TIMEOUT_SCALE', None)
        for i, o2 in zip(redo, again):
            n1 = sum(1 for r in outs[i]['results'] if r['status'] == 'unknown')
            n2 = sum(1 for r in o2['results'] if r['status'] == 'unknown')
            if not o2['error'] and n2 <= n1:
                o2['info']['retried_with_larger_budget'] = True
                outs[i] = o2
    extra = {}
    extra_viol, extra_err = [], []
    if hasattr(reg, 'EXTRA_CHECKS') and pid in reg.EXTRA_CHECKS:
        for fn in reg.EXTRA_CHECKS[pid]:
            r = fn(args.tier, seed)
            cov = dict(r.get('coverage', {}))
            if 'bounded' in cov and 'bounded' in extra and 'operations' in extra['bounded'] and 'operations' in cov['bounded']:
                # several bounded stand-ins for one property: report them together
                a, b = extra['bounded'], cov.pop('bounded')
                extra['bounded'] = {'label': a['label'], 'space': '; '.join(x for x in (a.get('space'), b.get('space')) if x),
                                    'cases': a.get('cases', 0) + b.get('cases', 0),
                                    'distinct_cases': a.get('distinct_cases', 0) + b.get('distinct_cases', 0),
                                    'operations': list(a.get('operations', [])) + list(b.get('operations', [])),
                                    'failures': a.get('failures', 0) + b.get('failures', 0),
                                    'samples': list(a.get('samples', [])) + list(b.get('samples', []))}
            extra.update(cov)
            extra_viol.extend(r.get('violations', []))
            extra_err.extend(r.get('errors', []))
    selftest = []
    if args.tier == 'thorough' and not args.no_self_test:
        selftest = self_test(pid)
        for rec in selftest:
            if rec.get('applied') and not rec.get('detected'):
                extra_err.append('self-test: the seeded change %s is no longer detected (check came out green on it)' % rec['change'])
        extra['self_test_on_seeded_changes'] = selftest
    known_path = os.path.join(VERIF, 'known_findings.json')
    known = json.load(open(known_path)) if os.path.exists(known_path) else []
    known = known.get('findings', []) if isinstance(known, dict) else known

    os.makedirs(os.path.join(VERIF, 'out'), exist_ok=True)
    os.makedirs(os.path.join(VERIF, 'evidence'), exist_ok=True)
    all_res, errors, undecided, violations, known_hit = [], [], [], [], []
    for o in outs:
        if o['error']:
            errors.append('%s: %s' % (o['contract'], o['error']))
        for n, ok in o['info'].get('cover', []):
            if not ok:
                errors.append('%s: cover check failed: %s' % (o['contract'], n))
        for u in o['info'].get('uncovered', []):
            errors.append('%s: outcome not covered by any clause: %s' % (o['contract'], u))
        for u in o['info'].get('unverified_units', []):
            errors.append('%s: calls the native coroutine %s, which has no contract (its body is not verified)' % (o['contract'], u))
        for r in o['results']:
            all_res.append(r)
            if r['status'] == 'error':
                errors.append('%s: %s' % (r['name'], r['detail']))
            elif r['status'] == 'unknown':
                undecided.append(r)
            elif r['status'] == 'failed':
                rp = r.get('replay') or {}
                k = match_known(known, pid, r)
                if rp.get('ran') and rp.get('clause_holds') is True:
                    r['verdict'] = 'counter-model does not replay on the real code: undecided'
                    undecided.append(r)
                elif k is not None:
                    r['verdict'] = 'known finding %s' % k.get('id', '')
                    known_hit.append((k, r))
                else:
                    r['verdict'] = 'violation'
                    violations.append(r)
    errors.extend(extra_err)
    for v in extra_viol:
        rr = {'name': v['name'], 'path': 'bounded', 'status': 'failed', 'backend': 'bounded-enumeration', 'seconds': 0,
              'detail': v['detail'], 'replay_input': dict(v['input'], harness='df_enum'), 'clause': {'kind': 'bounded'},
              'replay': {'ran': True, 'clause_holds': False, 'observed': v['input']}, 'props': [pid], 'bounded': True}
        k = match_known(known, pid, rr)
        if k is not None:
            known_hit.append((k, rr))
        else:
            violations.append(rr)
    n_known = len(known_hit)
    n_ob = len(all_res) - len([1 for k, r in known_hit if not r.get('bounded')])   # obligations claimed to hold
    n_dis = sum(1 for r in all_res if r['status'] == 'proved')
    lines = []
    # group violations by obligation name (one VIOLATION line per obligation, first path's replay)
    seen_v = {}
    for r in violations:
        seen_v.setdefault(r['name'], []).append(r)
    for name, rs in seen_v.items():
        r = rs[0]
        import re
        fn = os.path.join('out', 'replay_%s_%s.json' % (pid, re.sub(r'[^A-Za-z0-9_.@-]', '_', name.replace('/', '__'))))
        rp = r.get('replay') or {}
        json.dump({'property': pid, 'obligation': name, 'paths': [x['path'] for x in rs], 'solver_output': r['detail'],
                   'backend': r['backend'], 'input': r.get('replay_input'), 'clause': r.get('clause'),
                   'replay_on_real_code': rp,
                   'how_to_rerun': 'cd /verif && /venv/bin/python replay/%s.py < <(jq "{input: .input, clause: .clause}" %s)'
                                   % ((r.get('replay_input') or {}).get('harness', 'node_harness'), fn)},
                  open(os.path.join(VERIF, fn), 'w'), indent=1, default=repr)
        reproduced = rp.get('ran') and rp.get('clause_holds') is False
        lines.append('VIOLATION property=%s replay=%s%s' % (pid, fn, '' if reproduced else ' no-failing-input-found'))
    seen_k = set()
    for k, r in known_hit:
        key = k.get('id') or str(k['obligation'])
        if key in seen_k:
            continue
        seen_k.add(key)
        rec = '' if k.get('property') == pid else ' (recorded for %s)' % k.get('property')
        lines.append('KNOWN-FINDING: property=%s %s%s: %s' % (pid, key, rec, k.get('what', r['name'])))
    if n_ob == 0:
        errors.append('zero obligations generated')
    status = 0
    if violations:
        status = 1
    elif errors:
        status = 3
    elif undecided:
        status = 2
    wall = time.time() - t0
    funcs = []
    byq = {}
    for o in outs:
        for f in o['functions']:
            key = (f.get('qualname'), f.get('file'))
            if key in byq:
                byq[key]['dropped'] = sorted(set(byq[key].get('dropped', [])) | set(f.get('dropped', [])))
            else:
                byq[key] = dict(f)
                funcs.append(byq[key])
    assumptions = sorted(set(a for o in outs for a in o['assumptions']) | set(reg.ASSUMPTIONS.get(pid, []))
                         | set(reg.COMMON_ASSUMPTIONS))
    solver_time = {}
    for r in all_res:
        solver_time[r['backend']] = round(solver_time.get(r['backend'], 0) + r['seconds'], 3)
    samples = [{'obligation': r['name'], 'path': r['path'], 'status': r['status'], 'backend': r['backend'],
                'seconds': r['seconds']} for r in all_res[:3]]
    ev = {
        'property_id': pid, 'tier': args.tier, 'seed': seed, 'level': 'proof',
        'coverage': {
            'obligations': n_ob, 'discharged': n_dis,
            'checker_cmd': './check %s --tier %s' % (pid, args.tier),
            'trusted_base': reg.TRUSTED_BASE.get(pid, []) + reg.COMMON_TRUSTED,
            'samples': samples,
            'functions_under_contract': funcs,
            'contracts': [{'contract': o['name'], 'paths': o['info'].get('paths'), 'seconds': round(o['seconds'], 2),
                           'obligations': len(o['results']),
                           'discharged': sum(1 for r in o['results'] if r['status'] == 'proved')} for o in outs],
            'solver_time_s': solver_time,
            'undecided': [r['name'] + '@' + r['path'] for r in undecided],
            'failed': [{'obligation': r['name'], 'path': r['path'], 'verdict': r.get('verdict')} for r in all_res if r['status'] == 'failed'],
            'known_findings_reported': sorted(seen_k),
            'known_finding_obligations': n_known,
            'checker_errors': errors,
            'obligation_list': [{'name': r['name'], 'path': r['path'], 'backend': r['backend'], 'result': r['status'],
                                 'seconds': r['seconds']} for r in all_res],
        },
        'assumptions': assumptions,
        'wall_s': round(wall, 2),
        'violations': len(seen_v),
    }
    ev['coverage'].update(extra)
    if not args.no_evidence:
        json.dump(ev, open(os.path.join(VERIF, 'evidence', pid + '.json'), 'w'), indent=1, default=repr)
    print('%s: %d obligations, %d discharged, %d failed (%d known), %d undecided, %d checker errors, %.1fs'
          % (pid, n_ob, n_dis, len(violations) + len(known_hit), len(known_hit), len(undecided), len(errors), wall))
    for e in errors[:20]:
        print('CHECKER-ERROR:', e[:600])
    for r in undecided[:20]:
        print('UNDECIDED:', r['name'], 'path', r['path'], r.get('verdict', ''))
    for ln in lines:
        print(ln)
    return status


if __name__ == '__main__':
    sys.exit(main())
