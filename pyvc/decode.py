"""Turn a z3 counter-model into concrete, JSON-able replay inputs."""
import z3
from . import sym
from .sym import (VInt, VReal, VBool, VNone, VStr, VString, VElem, VMdEntry, VAw, VRef, VSeq, VTuple, VList,
                  VDict, VSet, VObj, VCallable)


def seq_items(v):
    """children of a concrete sequence value produced by model evaluation"""
    if z3.is_app_of(v, z3.Z3_OP_SEQ_EMPTY):
        return []
    if z3.is_app_of(v, z3.Z3_OP_SEQ_UNIT):
        return [v.arg(0)]
    if z3.is_app_of(v, z3.Z3_OP_SEQ_CONCAT):
        out = []
        for c in v.children():
            out.extend(seq_items(c))
        return out
    if z3.is_string_value(v):
        return list(v.as_string())
    raise ValueError('not a concrete sequence: %s' % v)


class Decoder:
    def __init__(self, model, r=None):
        self.m = model
        self.r = r

    def ev(self, t):
        return self.m.eval(t, model_completion=True)

    def name(self, t):
        v = self.ev(t)
        if v.sort() == sym.Elem:
            # opaque data that the model makes equal to a named constant (None, a string literal, the no_default sentinel)
            # is that constant in the replay, not an arbitrary atom
            if not hasattr(self, '_consts'):
                self._consts = {}
                for label, c in [('None', sym.c_none_elem)] + [(k, c) for k, c in sym._str_elems.items()]:
                    try:
                        self._consts.setdefault(str(self.ev(c)), label)
                    except z3.Z3Exception:
                        pass
            lab = self._consts.get(str(v))
            if lab is not None:
                return 'const:' + lab
        return str(v).replace('!val!', '')

    def elem(self, t):
        return self.name(t)

    def obj(self, t):
        return self.name(t)

    def truthy(self, t):
        return z3.is_true(self.ev(sym.f_truthy(t)))

    def int(self, t):
        v = self.ev(t)
        return v.as_long()

    def real(self, t):
        v = self.ev(t)
        if z3.is_int_value(v):
            return v.as_long()
        if z3.is_rational_value(v):
            return [v.numerator_as_long(), v.denominator_as_long()]
        if z3.is_algebraic_value(v):
            a = v.approx(20)
            return [a.numerator_as_long(), a.denominator_as_long()]
        raise ValueError('real %s' % v)

    def mde(self, t):
        has = z3.is_true(self.ev(sym.f_has_ref(t)))
        d = {'id': self.name(t), 'has_ref': has}
        if has:
            d['ref'] = self.name(sym.f_ref_of(t))
            d['is_r'] = self.r is not None and z3.is_true(self.ev(sym.f_ref_of(t) == self.r))
        return d

    def md(self, t):
        return [self.mde(x) for x in seq_items(self.ev(t))]

    def by_kind(self, t, kind):
        n = kind.name
        if n == 'int':
            return self.int(t)
        if n == 'real':
            return self.real(t)
        if n == 'bool':
            return z3.is_true(self.ev(t))
        if n == 'elem':
            return self.elem_struct(t)
        if n == 'mde':
            return self.mde(t)
        if n in ('obj', 'aw'):
            return self.name(t)
        if n == 'string':
            return self.ev(t).as_string()
        if kind.elem is not None:
            return [self.by_kind(x, kind.elem) for x in seq_items(self.ev(t))]
        raise ValueError('kind %s' % n)

    def elem_struct(self, t):
        """Elem values that are (x, metadata) pairs keep their structure; everything else is an atom."""
        return self.name(t)

    def pair(self, t):
        return {'x': self.name(sym.f_mdpair_x(t)), 'md': self.md(sym.f_mdpair_md(t))}

    def value(self, I, st, v):
        if isinstance(v, VInt):
            return self.int(v.t)
        if isinstance(v, VReal):
            return {'real': self.real(v.t)}
        if isinstance(v, VBool):
            return z3.is_true(self.ev(v.t))
        if isinstance(v, VNone):
            return None
        if isinstance(v, VStr):
            return {'str': v.s}
        if isinstance(v, VString):
            return {'str': self.ev(v.t).as_string()}
        if isinstance(v, VElem):
            return {'elem': self.name(v.t)}
        if isinstance(v, VRef):
            return {'obj': self.name(v.t)}
        if isinstance(v, VCallable):
            return {'callable': v.name}
        if isinstance(v, VSeq):
            return {'seq': self.by_kind(v.t, sym.KSeq(v.kind)), 'kind': v.kind.name, 'pytype': v.pytype}
        if isinstance(v, VList):
            c = st.list_cell(v.loc)
            if c.kind is None:
                return {'seq': [], 'kind': None, 'pytype': c.pytype,
                        'maxlen': None if c.maxlen is None else self.int(c.maxlen)}
            return {'seq': self.by_kind(c.term, sym.KSeq(c.kind)), 'kind': c.kind.name, 'pytype': c.pytype,
                    'maxlen': None if c.maxlen is None else self.int(c.maxlen)}
        if isinstance(v, VTuple):
            return {'tuple': [self.value(I, st, it) for it in v.items]}
        if isinstance(v, VDict):
            c = st.heap[v.loc]
            keys = seq_items(self.ev(c.keys))
            vk = sym.KSeq(c.vlist) if c.vlist is not None else c.vkind
            return {'dict': [[self.by_kind(k, c.kkind), self.by_kind(z3.Select(c.vals, k), vk)] for k in keys],
                    'kkind': c.kkind.name, 'vkind': vk.name, 'default_empty': c.default_empty,
                    'vpytype': c.vpytype}
        if isinstance(v, VSet):
            c = st.heap[v.loc]
            return {'set_member_array': str(self.ev(c.member))[:200]}
        if isinstance(v, VObj):
            return {'object': st.heap[v.loc].cls}
        return {'unknown': repr(v)}
