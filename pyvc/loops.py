"""Loop contracts (inductive invariants), keyed by (function qualname, loop ordinal in source order).

`for v in seq` loops are handled in *prefix form*: the invariant speaks about
the processed prefix `_P` of the iterated sequence `_S`:
    base :  invariant holds for _P == []
    step :  havoc the modified state, assume  _S == _P ++ [v] ++ rest  and the
            invariant for _P, run the real body once, prove the invariant for _P ++ [v]
    exit :  havoc, assume the invariant for _P == _S, continue after the loop
`while` loops: the usual base / step / exit with an optional decreases measure.
"""
import z3
from . import sym
from .sym import VInt, VReal, VBool, VElem, VSeq, VList, VTuple, VRef, VAw, VMdEntry, VNone, VString
from .state import PathEnd, BreakSignal, ContinueSignal, Unsupported, Infeasible
from .interp import Frame


def fresh_like(I, v, base='hv'):
    if isinstance(v, VInt):
        return VInt(z3.Int(sym.fresh_name(base)))
    if isinstance(v, VReal):
        return VReal(z3.Real(sym.fresh_name(base)))
    if isinstance(v, VBool):
        return VBool(z3.Bool(sym.fresh_name(base)))
    if isinstance(v, VString):
        return VString(z3.String(sym.fresh_name(base)))
    if isinstance(v, (VElem, VAw, VMdEntry)):
        r = type(v)(z3.Const(sym.fresh_name(base), v.t.sort()))
        return r
    if isinstance(v, VRef):
        return VRef(z3.Const(sym.fresh_name(base), sym.Obj), v.cls)
    if isinstance(v, VSeq):
        return VSeq(z3.Const(sym.fresh_name(base), v.t.sort()), v.kind, v.pytype)
    if isinstance(v, VList):
        c = I.st.list_cell(v.loc)
        if c.kind is None:
            raise Unsupported('havoc of an untyped empty list; give the loop variable a typed initial value')
        I.st.set_list_term(v.loc, z3.Const(sym.fresh_name(base), c.term.sort()))
        return v
    if isinstance(v, VTuple):
        return VTuple([fresh_like(I, it, base) for it in v.items])
    if isinstance(v, VNone):
        return v
    if isinstance(v, z3.ExprRef):
        return z3.Const(sym.fresh_name(base), v.sort())       # raw ghost term (e.g. a relation kept as an array)
    if isinstance(v, sym.VFrame):
        return sym.VFrame(z3.Const(sym.fresh_name(base), v.t.sort()), v.tag)
    if hasattr(v, 'fresh_like'):
        return v.fresh_like(base)             # value classes defined by a contract module (e.g. key-indexed pandas objects)
    if isinstance(v, sym.VSet):
        c = I.st.heap[v.loc]
        I.st.heap[v.loc] = c.replace(member=z3.Const(sym.fresh_name(base), c.member.sort()),
                                     card=None if c.card is None else z3.Int(sym.fresh_name(base + '_card')))
        return v
    raise Unsupported('havoc of %r' % (v,))


class LoopSpec:
    def __init__(self, modifies, invariant, decreases=None, props=(), typed_locals=None, name='loop', entry_ghost=None, defines=None,
                 split_facts=None, drain=None):
        # drain: 'self.<field>' of a list/deque that the loop empties from the left (`while q: x = q.popleft(); ...`); the loop
        # is then treated in prefix form over the content S of q at loop entry: invariants may use _P (already taken), _R (still
        # in q) and _S; the rule itself adds the invariant  list(q) == _R
        self.drain = drain
        # split_facts: callables (I, fr, P, m, R) -> [formula]: instances of universally quantified preconditions of the
        # contract ("for every split S == P ++ [m] ++ R ...") at the split the step case introduces (forall-elimination done
        # here instead of by the solver; each user names the quantified precondition it instantiates)
        self.split_facts = split_facts or []
        self.entry_ghost = entry_ghost or {}
        self.defines = defines or {}
        self.modifies = modifies
        self.invariant = invariant      # list of (name, text)
        self.decreases = decreases
        self.props = list(props)
        self.typed_locals = typed_locals or {}   # local name -> kind for lists that start empty/untyped
        self.name = name

    # -- helpers
    def _type_locals(self, I, fr):
        lm = I.index.local_map(fr.qual)
        for name, kind in self.typed_locals.items():
            v = fr.locals.get(lm.get(name, name))
            if isinstance(v, VList):
                c = I.st.list_cell(v.loc)
                if c.kind is None:
                    from .state import ListCell
                    I.st.heap[v.loc] = ListCell(z3.Empty(z3.SeqSort(kind.sort)), kind, c.pytype, c.maxlen)

    def havoc(self, I, fr):
        lm = I.index.local_map(fr.qual)
        for tgt in self.modifies:
            if tgt.startswith('local:'):
                n = lm.get(tgt[6:], tgt[6:])
                if n in fr.locals:
                    fr.locals[n] = fresh_like(I, fr.locals[n], n)
            elif tgt.startswith('self.'):
                obj = fr.locals['self']
                cur = I.get_attr(obj, tgt[5:], fr)
                nv = fresh_like(I, cur, tgt[5:])
                if nv is not cur:
                    I.set_attr(obj, tgt[5:], nv)
            elif tgt.startswith('ghost:'):
                n = tgt[6:]
                I.st.ghost[n] = fresh_like(I, I.st.ghost[n], n)
            elif tgt.startswith('fieldmap:'):
                cls, f = tgt[9:].split('.')
                cur = I.st.fieldmap(cls, f, I.index.field_kind(cls, f).sort)
                I.st.fieldmaps[(cls, f)] = z3.Const(sym.fresh_name('fld_%s_%s' % (cls, f)), cur.sort())
            elif tgt.startswith('dictvals:'):
                # all values of a dict of lists (keys kept)
                obj = fr.locals['self']
                d = I.get_attr(obj, tgt[9:], fr)
                c = I.st.heap[d.loc]
                I.st.heap[d.loc] = c.replace(vals=z3.Const(sym.fresh_name('vals'), c.vals.sort()))
            else:
                raise Unsupported('havoc target %s' % tgt)
        # `defines`: the havocked container is given a *shape* (e.g. [h] + tail) instead of an opaque fresh value
        for tgt, text in self.defines.items():
            v = I.eval_spec(text, fr, old_st=getattr(I, 'contract_pre', None),
                            old_frame=getattr(I, 'contract_pre_frame', None), loop_text=True)
            t, k = I.seq_term(v)
            obj = fr.locals['self']
            cur = I.get_attr(obj, tgt[5:], fr)
            I.st.set_list_term(cur.loc, t)

    def _inv_formulas(self, I, fr, contract_pre, extra):
        sf = Frame(fr.qual, fr.locals)
        sf.closure = getattr(fr, 'closure', None)
        sf.locals = dict(fr.locals)
        sf.locals.update(extra)
        out = []
        for name, text in self.invariant:
            out.append((name, I.spec_bool(text, sf, old_st=getattr(I, 'contract_pre', None),
                                          old_frame=getattr(I, 'contract_pre_frame', None), loop_text=True)))
        return out

    def _check(self, I, fr, extra, tag):
        for name, f in self._inv_formulas(I, fr, None, extra):
            I.oblige('%s.%s.%s' % (self.name, tag, name), f, kind='loop')
            I.st.obligations[-1].props = self.props

    def _assume(self, I, fr, extra):
        for name, f in self._inv_formulas(I, fr, None, extra):
            I.st.assume(f)

    # -- for loops over a sequence
    def run_for(self, I, node, it, fr):
        is_range = False
        if isinstance(it, sym.VBuiltin) and it.name == 'range':
            # range(n) with symbolic n: the sequence 0, 1, ..., n-1 (each element equals its index)
            if len(it.bounds) != 1:
                raise Unsupported('symbolic range with start/step')
            rt = z3.Const(sym.fresh_name('range'), z3.SeqSort(z3.IntSort()))
            I.st.assume(z3.Length(rt) == z3.If(it.bounds[0] >= 0, it.bounds[0], 0))
            it = VSeq(rt, sym.K_INT)
            is_range = True
        t, k = I.seq_term(it)
        self._type_locals(I, fr)
        self._capture_entry(I, fr)
        S = VSeq(t, k)
        which = I.choose(3, 'loop_%s' % self.name)
        if which == 0:
            self._check(I, fr, {'_P': VSeq(z3.Empty(t.sort()), k), '_S': S, '_R': S}, 'base')
            raise PathEnd()
        if which == 1:
            self.havoc(I, fr)
            tok = I.iter_token(it)
            if tok is not None and not tok[1].eq(t):
                # side condition of the for-loop rule (iteration over a sequence that the loop does not change) is violated:
                # reported as a failed loop obligation, the rest of the rule is not applicable
                I.oblige('%s.iterated_list_is_not_modified_by_the_loop' % self.name, z3.BoolVal(False), kind='loop')
                I.st.obligations[-1].props = self.props
                raise PathEnd()
            P = z3.Const(sym.fresh_name('P'), t.sort())
            m = z3.Const(sym.fresh_name('m'), k.sort)
            R = z3.Const(sym.fresh_name('R'), t.sort())
            I.st.assume(t == z3.Concat(P, z3.Unit(m), R))
            if is_range:
                I.st.assume(m == z3.Length(P))
            for sfact in self.split_facts:
                for f in sfact(I, fr, P, m, R):
                    I.st.assume(f)
            self._assume(I, fr, {'_P': VSeq(P, k), '_S': S, '_R': VSeq(z3.Concat(z3.Unit(m), R), k)})
            I.assign(node.target, k.wrap(m), fr)
            try:
                I.exec_block(node.body, fr)
            except ContinueSignal:
                pass
            except BreakSignal:
                # leaving the loop from an arbitrary iteration: the path continues after the loop (else skipped)
                I.st.ghost['_broke_at'] = VSeq(P, k)
                return
            if tok is not None and not I.st.list_cell(tok[0]).term.eq(tok[1]):
                I.oblige('%s.iterated_list_is_not_modified_by_the_loop' % self.name, z3.BoolVal(False), kind='loop')
                I.st.obligations[-1].props = self.props
                raise PathEnd()
            self._check(I, fr, {'_P': VSeq(z3.Concat(P, z3.Unit(m)), k), '_S': S, '_R': VSeq(R, k)}, 'step')
            raise PathEnd()
        self.havoc(I, fr)
        self._assume(I, fr, {'_P': S, '_S': S, '_R': VSeq(z3.Empty(t.sort()), k)})
        I.exec_block(node.orelse, fr)

    # -- while loops
    def _capture_entry(self, I, fr):
        for name, text in self.entry_ghost.items():
            v = I.eval_spec(text, fr, old_st=getattr(I, 'contract_pre', None),
                            old_frame=getattr(I, 'contract_pre_frame', None), loop_text=True)
            if isinstance(v, VList):
                t, k = I.seq_term(v)
                v = VSeq(t, k)
            I.st.ghost[name] = v

    def run_drain(self, I, node, fr):
        obj = fr.locals['self']
        q = I.get_attr(obj, self.drain[5:], fr)
        t, k = I.seq_term(q)
        S = VSeq(t, k)
        E = VSeq(z3.Empty(t.sort()), k)
        self._type_locals(I, fr)
        self._capture_entry(I, fr)
        inv_q = ('drained_list_is_what_remains', 'list(%s) == _R' % self.drain)
        saved = self.invariant
        self.invariant = [inv_q] + list(saved)
        try:
            which = I.choose(3, 'loop_%s' % self.name)
            if which == 0:
                self._check(I, fr, {'_P': E, '_S': S, '_R': S}, 'base')
                raise PathEnd()
            if which == 1:
                self.havoc(I, fr)
                P = z3.Const(sym.fresh_name('P'), t.sort())
                m = z3.Const(sym.fresh_name('m'), k.sort)
                R = z3.Const(sym.fresh_name('R'), t.sort())
                I.st.assume(t == z3.Concat(P, z3.Unit(m), R))
                cur = I.get_attr(obj, self.drain[5:], fr)
                I.st.set_list_term(cur.loc, z3.Concat(z3.Unit(m), R))
                self._assume(I, fr, {'_P': VSeq(P, k), '_S': S, '_R': VSeq(z3.Concat(z3.Unit(m), R), k)})
                if not I.branch(I.truth(I.eval(node.test, fr))):
                    raise PathEnd()
                try:
                    I.exec_block(node.body, fr)
                except ContinueSignal:
                    pass
                except BreakSignal:
                    return
                self._check(I, fr, {'_P': VSeq(z3.Concat(P, z3.Unit(m)), k), '_S': S, '_R': VSeq(R, k)}, 'step')
                raise PathEnd()
            self.havoc(I, fr)
            cur = I.get_attr(obj, self.drain[5:], fr)
            I.st.set_list_term(cur.loc, z3.Empty(t.sort()))
            self._assume(I, fr, {'_P': S, '_S': S, '_R': E})
            if I.branch(I.truth(I.eval(node.test, fr))):
                raise PathEnd()
            I.exec_block(node.orelse, fr)
        finally:
            self.invariant = saved

    def run_while(self, I, node, fr):
        if self.drain:
            return self.run_drain(I, node, fr)
        self._type_locals(I, fr)
        self._capture_entry(I, fr)
        which = I.choose(3, 'loop_%s' % self.name)
        if which == 0:
            self._check(I, fr, {}, 'base')
            raise PathEnd()
        if which == 1:
            self.havoc(I, fr)
            self._assume(I, fr, {})
            if not I.branch(I.truth(I.eval(node.test, fr))):
                raise PathEnd()
            d0 = None
            if self.decreases:
                d0 = I.num(I.eval_spec(self.decreases, fr, loop_text=True))
            try:
                I.exec_block(node.body, fr)
            except ContinueSignal:
                pass
            except BreakSignal:
                # leaving the loop from inside an arbitrary iteration: the path continues after the loop
                # with the state reached here (no invariant needed for it)
                return
            self._check(I, fr, {}, 'step')
            if d0 is not None:
                d1 = I.num(I.eval_spec(self.decreases, fr, loop_text=True))
                I.oblige('%s.decreases' % self.name, z3.And(d0 >= 0, d1 < d0), kind='loop')
                I.st.obligations[-1].props = self.props
            raise PathEnd()
        self.havoc(I, fr)
        self._assume(I, fr, {})
        if I.branch(I.truth(I.eval(node.test, fr))):
            raise PathEnd()
        I.exec_block(node.orelse, fr)
