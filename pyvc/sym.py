"""Symbolic value domain of pyvc.

Python values are represented by small wrapper objects around z3 terms.  The
wrappers are *dynamically typed* (the interpreter dispatches on the wrapper
class exactly like CPython dispatches on the run-time type); what is symbolic
is the content.  Mutable containers and objects live in a heap of cells that
is copied on snapshot (cells are never mutated in place, always replaced).

Encoding assumptions (also listed in DESIGN.md section 2.2):
  * int      -> z3 Int  (exact, Python ints are unbounded)
  * float    -> z3 Real (no rounding, no NaN unless modelled explicitly)
  * opaque user data -> uninterpreted sort Elem; tuples/lists of user data are
    Elem values built with the free constructor  tup : Seq(Elem) -> Elem
  * metadata dictionaries -> uninterpreted sort Md ; a metadata list is Seq(Md)
  * object references (streams, ref counters) -> uninterpreted sort Obj
  * awaitables -> uninterpreted sort Aw
"""
import itertools
import z3

Elem = z3.DeclareSort('Elem')
Md = z3.DeclareSort('Md')
Obj = z3.DeclareSort('Obj')
Aw = z3.DeclareSort('Aw')
Row = z3.DeclareSort('Row')

_fresh = itertools.count()


def fresh_name(base):
    return '%s!%d' % (base, next(_fresh))


# ---------------------------------------------------------------- kinds
class Kind:
    """Describes how a z3 term of some sort is wrapped as a Python value."""

    def __init__(self, name, sort, wrap, elem=None):
        self.name = name
        self.sort = sort
        self._wrap = wrap
        self.elem = elem        # element kind for sequence kinds

    def wrap(self, term):
        return self._wrap(term)

    def fresh(self, base):
        return self.wrap(z3.Const(fresh_name(base), self.sort))

    def __repr__(self):
        return 'Kind(%s)' % self.name


class Value:
    pass


class VInt(Value):
    def __init__(self, t):
        self.t = z3.IntVal(t) if isinstance(t, int) else t

    def __repr__(self):
        return 'VInt(%s)' % self.t


class VReal(Value):
    def __init__(self, t):
        if isinstance(t, (int, float)):
            t = z3.RealVal(t)
        self.t = t

    def __repr__(self):
        return 'VReal(%s)' % self.t


class VBool(Value):
    def __init__(self, t):
        self.t = z3.BoolVal(t) if isinstance(t, bool) else t

    def __repr__(self):
        return 'VBool(%s)' % self.t


class VNone(Value):
    def __repr__(self):
        return 'VNone'


class VStr(Value):
    """A concrete Python string (sentinels, option strings, dict keys)."""

    def __init__(self, s):
        self.s = s

    def __repr__(self):
        return 'VStr(%r)' % self.s


class VString(Value):
    """A symbolic string (z3 String sort); used for the text sources."""

    def __init__(self, t):
        self.t = z3.StringVal(t) if isinstance(t, str) else t

    def __repr__(self):
        return 'VString(%s)' % self.t


class VElem(Value):
    def __init__(self, t):
        self.t = t

    def __repr__(self):
        return 'VElem(%s)' % self.t


class VMdEntry(Value):
    def __init__(self, t):
        self.t = t


class VAw(Value):
    def __init__(self, t):
        self.t = t

    def __repr__(self):
        return 'VAw(%s)' % self.t


class VRef(Value):
    """Symbolic reference to an object (sort Obj) of a statically known class
    (or None when unknown).  Field reads go through the global field maps of
    the state (state.fieldmaps[(cls, field)] : Array(Obj, T))."""

    def __init__(self, t, cls=None):
        self.t = t
        self.cls = cls

    def __repr__(self):
        return 'VRef(%s:%s)' % (self.t, self.cls)


class VSeq(Value):
    """Immutable sequence value (a list/tuple that nobody mutates)."""

    def __init__(self, t, kind, pytype='list'):
        self.t = t
        self.kind = kind        # element kind
        self.pytype = pytype

    def __repr__(self):
        return 'VSeq(%s)' % self.t


class VTuple(Value):
    def __init__(self, items):
        self.items = list(items)

    def __repr__(self):
        return 'VTuple(%r)' % (self.items,)


class VList(Value):
    """Reference to a mutable list / deque cell in the heap."""

    def __init__(self, loc):
        self.loc = loc

    def __repr__(self):
        return 'VList(@%s)' % (self.loc,)


class VDict(Value):
    def __init__(self, loc):
        self.loc = loc


class VSet(Value):
    def __init__(self, loc):
        self.loc = loc


class VObj(Value):
    """Reference to a concrete-identity object cell in the heap."""

    def __init__(self, loc):
        self.loc = loc

    def __repr__(self):
        return 'VObj(@%s)' % (self.loc,)


class VFrame(Value):
    """A pandas Series/DataFrame batch abstracted as its sequence of rows (sort Seq(Row))."""

    def __init__(self, t, tag=None):
        self.t = t
        self.tag = tag          # e.g. 'squared' for (frame ** 2)

    def __repr__(self):
        return 'VFrame(%s)' % self.t


class VVec(VReal):
    """A per-column vector of reals (result of a reduction over a DataFrame): modelled by one arbitrary component."""
    is_vec = True


class VCallable(Value):
    """Opaque user callable: an uninterpreted function that may raise."""

    def __init__(self, name, result_kind=None, may_raise=True):
        self.name = name
        self.result_kind = result_kind
        self.may_raise = may_raise


class VBuiltin(Value):
    def __init__(self, name):
        self.name = name


class VBound(Value):
    def __init__(self, recv, name):
        self.recv = recv
        self.name = name


class VFunc(Value):
    """A function of the repository (ast.FunctionDef) possibly bound."""

    def __init__(self, qual, node, bound=None):
        self.qual = qual
        self.node = node
        self.bound = bound


class VExc(Value):
    def __init__(self, cls, t=None, payload=None):
        self.cls = cls          # python class name: 'KeyError', 'UserError' ...
        self.t = t              # optional symbolic identity
        self.payload = payload


class VClass(Value):
    def __init__(self, name):
        self.name = name


# ---------------------------------------------------------------- kinds table
K_INT = Kind('int', z3.IntSort(), VInt)
K_REAL = Kind('real', z3.RealSort(), VReal)
K_BOOL = Kind('bool', z3.BoolSort(), VBool)
K_ELEM = Kind('elem', Elem, VElem)
K_MDE = Kind('mde', Md, VMdEntry)
K_AW = Kind('aw', Aw, VAw)
K_OBJ = Kind('obj', Obj, lambda t: VRef(t, None))
K_STRING = Kind('string', z3.StringSort(), VString)
c_none_obj = z3.Const('none_obj', Obj)
K_STREAM = Kind('stream', Obj, lambda t: VRef(t, 'Stream'))
K_OPTLOOP = Kind('optloop', Obj, lambda t: VRef(t, 'IOLoop?'))

_seqkinds = {}


def KSeq(k, pytype='list'):
    key = (k.name, pytype)
    if key not in _seqkinds:
        _seqkinds[key] = Kind('seq[%s]' % k.name, z3.SeqSort(k.sort),
                              lambda t, k=k, pytype=pytype: VSeq(t, k, pytype), elem=k)
    return _seqkinds[key]


K_MD = KSeq(K_MDE)              # a metadata list
K_MDLIST = KSeq(K_MD)           # list of metadata lists
K_ELEMS = KSeq(K_ELEM)
K_OBJS = KSeq(K_OBJ)
K_AWS = KSeq(K_AW)


def kind_of_name(name):
    name = name.strip()
    table = {'int': K_INT, 'real': K_REAL, 'bool': K_BOOL, 'elem': K_ELEM,
             'md': K_MD, 'mde': K_MDE, 'aw': K_AW, 'obj': K_OBJ,
             'string': K_STRING}
    if name in table:
        return table[name]
    if name.startswith('seq[') and name.endswith(']'):
        return KSeq(kind_of_name(name[4:-1]))
    raise KeyError(name)


# ---------------------------------------------------------------- free / spec functions
SeqElemS = z3.SeqSort(Elem)
SeqMdS = z3.SeqSort(Md)
SeqSeqMdS = z3.SeqSort(SeqMdS)
SeqObjS = z3.SeqSort(Obj)
SeqAwS = z3.SeqSort(Aw)

# free constructors over Elem
f_tup = z3.Function('tup', SeqElemS, Elem)           # tuple(...) / list of user data as one datum
f_untup = z3.Function('untup', Elem, SeqElemS)       # inverse (iteration over a datum)
f_int_elem = z3.Function('int_elem', z3.IntSort(), Elem)
f_obj_elem = z3.Function('obj_elem', Obj, Elem)
f_aw_elem = z3.Function('aw_elem', Aw, Elem)
c_none_elem = z3.Const('none_elem', Elem)
f_truthy = z3.Function('truthy', Elem, z3.BoolSort())
f_getitem = z3.Function('getitem', Elem, Elem, Elem)
f_add = z3.Function('elem_add', Elem, Elem, Elem)
f_fst = z3.Function('fst', Elem, Elem)
f_snd = z3.Function('snd', Elem, Elem)
f_mdpair = z3.Function('mdpair', Elem, SeqMdS, Elem)   # (x, metadata) pairs stored in queues/buffers
f_mdpair_x = z3.Function('mdpair_x', Elem, Elem)
f_mdpair_md = z3.Function('mdpair_md', Elem, SeqMdS)

_str_elems = {}


def str_elem(s):
    """Distinct Elem constant for a concrete Python string."""
    if s not in _str_elems:
        _str_elems[s] = z3.Const('str_%s' % ''.join(ch if ch.isalnum() else '_' for ch in s), Elem)
    return _str_elems[s]


def str_elem_distinct():
    cs = list(_str_elems.values()) + [c_none_elem]
    return [z3.Distinct(*cs)] if len(cs) > 1 else []


_user_funcs = {}


def user_func(name, arity, result_sort=Elem):
    key = (name, arity, str(result_sort))
    if key not in _user_funcs:
        _user_funcs[key] = z3.Function('app_%s_%d' % (name, arity), *([Elem] * arity + [result_sort]))
    return _user_funcs[key]


# ---------------------------------------------------------------- homomorphic spec functions
class SpecFun:
    """Uninterpreted function h : Seq(S) -> T (with extra leading parameters)
    specified by   h(empty) = zero, h(unit(x)) = one(x), h(a ++ b) = plus(h a, h b).
    The axioms are instantiated mechanically on the concat structure of every
    argument term that occurs in a query (see instantiate_axioms)."""

    registry = {}

    def __init__(self, name, extra_sorts, seq_sort, result_sort, zero, one, plus, nonneg=False, store_frame=False):
        self.store_frame = store_frame
        self.name = name
        self.f = z3.Function(name, *(list(extra_sorts) + [seq_sort, result_sort]))
        self.nextra = len(extra_sorts)
        self.seq_sort = seq_sort
        self.zero = zero
        self.one = one
        self.plus = plus
        self.nonneg = nonneg
        SpecFun.registry[name] = self

    def __call__(self, *args):
        return self.f(*args)

    def axioms_for(self, app):
        args = [app.arg(i) for i in range(app.num_args())]
        extra, s = args[:self.nextra], args[-1]
        out = []
        k = s.decl().kind()
        if k == z3.Z3_OP_SEQ_EMPTY:
            out.append(app == self.zero(*extra))
        elif k == z3.Z3_OP_SEQ_UNIT:
            out.append(app == self.one(*(extra + [s.arg(0)])))
            for c in getattr(self, 'consequences', ()):
                # facts implied by the unit case (each is a lemma proved separately)
                out.append(c(*(extra + [s.arg(0)])))
        elif k == z3.Z3_OP_SEQ_CONCAT:
            parts = [self.f(*(extra + [s.arg(i)])) for i in range(s.num_args())]
            acc = parts[0]
            for p in parts[1:]:
                acc = self.plus(acc, p)
            out.append(app == acc)
        if k not in (z3.Z3_OP_SEQ_EMPTY, z3.Z3_OP_SEQ_UNIT):
            out.append(z3.Implies(z3.Length(s) == 0, app == self.zero(*extra)))
        if self.store_frame and extra and z3.is_app_of(extra[0], z3.Z3_OP_STORE):
            # h(Store(a, k, v), s) == h(a, s) when k does not occur in s
            st = extra[0]
            inner = self.f(*([st.arg(0)] + extra[1:] + [s]))
            out.append(z3.Implies(z3.Not(z3.Contains(s, z3.Unit(st.arg(1)))), app == inner))
        if self.nonneg:
            out.append(app >= 0)
        return out


def _is_ref(m, r):
    return z3.And(f_has_ref(m), f_ref_of(m) == r)


f_has_ref = z3.Function('has_ref', Md, z3.BoolSort())     # 'ref' in m
f_ref_of = z3.Function('ref_of', Md, Obj)                 # m['ref']

# occ(r, md): number of dictionaries in md whose 'ref' is the counter r
occ = SpecFun('occ', [Obj], SeqMdS, z3.IntSort(),
              zero=lambda r: z3.IntVal(0),
              one=lambda r, m: z3.If(_is_ref(m, r), z3.IntVal(1), z3.IntVal(0)),
              plus=lambda a, b: a + b, nonneg=True)
# flat(mdlist): concatenation of a list of metadata lists
flat = SpecFun('flat', [], SeqSeqMdS, SeqMdS,
               zero=lambda: z3.Empty(SeqMdS),
               one=lambda ml: ml,
               plus=lambda a, b: z3.Concat(a, b))
# occs(r, mdlist) = occ(r, flat(mdlist)) kept as its own homomorphism (cheaper)
occs = SpecFun('occs', [Obj], SeqSeqMdS, z3.IntSort(),
               zero=lambda r: z3.IntVal(0),
               one=lambda r, ml: occ(r, ml),
               plus=lambda a, b: a + b, nonneg=True)
# xs(pairs), mds(pairs): projections of a sequence of (x, metadata) pairs
xs_of = SpecFun('xs_of', [], SeqElemS, SeqElemS,
                zero=lambda: z3.Empty(SeqElemS),
                one=lambda p: z3.Unit(f_mdpair_x(p)),
                plus=lambda a, b: z3.Concat(a, b))
mds_of = SpecFun('mds_of', [], SeqElemS, SeqSeqMdS,
                 zero=lambda: z3.Empty(SeqSeqMdS),
                 one=lambda p: z3.Unit(f_mdpair_md(p)),
                 plus=lambda a, b: z3.Concat(a, b))
# flatten of a sequence of data: concat of untup(e)
flat_elems = SpecFun('flat_elems', [], SeqElemS, SeqElemS,
                     zero=lambda: z3.Empty(SeqElemS),
                     one=lambda e: f_untup(e),
                     plus=lambda a, b: z3.Concat(a, b))


flat_aw = SpecFun('flat_aw', [], z3.SeqSort(SeqAwS), SeqAwS,
                  zero=lambda: z3.Empty(SeqAwS), one=lambda l: l, plus=lambda a, b: z3.Concat(a, b))
all_empty_md = SpecFun('all_empty_md', [], SeqSeqMdS, z3.BoolSort(),
                       zero=lambda: z3.BoolVal(True), one=lambda ml: z3.Length(ml) == 0,
                       plus=lambda a, b: z3.And(a, b))


def sel(a, k):
    """Select(a, k) with a syntactic read-over-write step (Store(a', k, v)[k] -> v)"""
    if z3.is_app_of(a, z3.Z3_OP_STORE) and a.arg(1).eq(k):
        return a.arg(2)
    return z3.Select(a, k)


_rev = {}


def rev_of(seq_sort):
    """reverse of a sequence: rev(a ++ b) = rev(b) ++ rev(a)"""
    key = str(seq_sort)
    if key not in _rev:
        _rev[key] = SpecFun('rev_%d' % len(_rev), [], seq_sort, seq_sort,
                            zero=lambda: z3.Empty(seq_sort), one=lambda e: z3.Unit(e),
                            plus=lambda a, b: z3.Concat(b, a))
    return _rev[key]


_vals_of = {}


def vals_of(arr_sort):
    """vals_of(arr, keys) = [arr[k] for k in keys]  (dict.values() in key order)"""
    key = str(arr_sort)
    if key not in _vals_of:
        ks, vs = arr_sort.domain(), arr_sort.range()
        _vals_of[key] = SpecFun('vals_of_%d' % len(_vals_of), [arr_sort], z3.SeqSort(ks), z3.SeqSort(vs),
                                zero=lambda a: z3.Empty(z3.SeqSort(vs)),
                                one=lambda a, k: z3.Unit(sel(a, k)),
                                plus=lambda x, y: z3.Concat(x, y), store_frame=True)
    return _vals_of[key]


def _walk(expr, seen, out):
    stack = [expr]
    while stack:
        e = stack.pop()
        i = e.get_id()
        if i in seen:
            continue
        seen.add(i)
        if z3.is_app(e):
            d = e.decl()
            if d.kind() == z3.Z3_OP_UNINTERPRETED and d.name() in SpecFun.registry:
                out.append((SpecFun.registry[d.name()], e))
            stack.extend(e.children())
        elif z3.is_quantifier(e):
            stack.append(e.body())


def _collect_concats(formulas, seen, out):
    stack = list(formulas)
    while stack:
        e = stack.pop()
        i = e.get_id()
        if i in seen:
            continue
        seen.add(i)
        if z3.is_app(e):
            k = e.decl().kind()
            if k == z3.Z3_OP_EQ:
                # sequences that are one side of an equation: a homomorphism applied to one side must agree with the
                # other side (h(a ++ b) == h(c ++ d)); units matter likewise (h(unit(p)) == unit(g(p)))
                for ch in e.children():
                    if z3.is_app_of(ch, z3.Z3_OP_SEQ_UNIT) or z3.is_app_of(ch, z3.Z3_OP_SEQ_CONCAT):
                        out.append(ch)
            stack.extend(e.children())
        elif z3.is_quantifier(e):
            stack.append(e.body())


EXTRA_LEMMAS = []      # callables(formulas) -> list of lemma instances (each lemma is proved by induction elsewhere)


def instantiate_axioms(formulas, rounds=8):
    if EXTRA_LEMMAS and not getattr(instantiate_axioms, '_in_lemma', False):
        extra = []
        for fn in EXTRA_LEMMAS:
            extra.extend(fn(formulas))
        if extra:
            instantiate_axioms._in_lemma = True
            try:
                return extra + instantiate_axioms(list(formulas) + extra, rounds)
            finally:
                instantiate_axioms._in_lemma = False
    return _instantiate_axioms(formulas, rounds)


def _instantiate_axioms(formulas, rounds=8):
    """Mechanical unfolding of the SpecFun axioms on the concat structure of the
    argument terms occurring in `formulas` (and in the unfolded axioms).  In addition every
    homomorphism is applied to every concatenation term of its argument sort that occurs
    anywhere in the formulas (so that an equation  a ++ b == c ++ d  between sequences carries
    over to  h(a) + h(b) == h(c) + h(d))."""
    seen = set()
    done = set()
    axioms = []
    work = list(formulas)
    cseen = set()
    extras = {}
    concats = []
    for rnd in range(rounds):
        apps = []
        for f in work:
            _walk(f, seen, apps)
        if rnd <= 6:
            # seeds of the eager application: sequences that are one side of an equation
            _collect_concats(work, cseen, concats)
        for sf, app in apps:
            ex = tuple(app.arg(i) for i in range(sf.nextra))
            extras.setdefault(sf.name, {})[tuple(a.get_id() for a in ex)] = ex
        for name, sf in SpecFun.registry.items():
            if name not in extras and sf.nextra > 0:
                continue
            for c in concats:
                if c.sort() != sf.seq_sort:
                    continue
                for ex in (extras.get(name, {}).values() if sf.nextra else [()]):
                    if name not in extras and sf.nextra == 0 and not getattr(sf, 'eager', False):
                        continue
                    apps.append((sf, sf.f(*(list(ex) + [c]))))
        new = []
        for sf, app in apps:
            if app.get_id() in done:
                continue
            done.add(app.get_id())
            new.extend(sf.axioms_for(app))
            if sf.name == 'flat':
                # lemma L-FLAT (proved by induction in prove_lemmas): occ(r, flat(s)) == occs(r, s)
                rs = list(extras.get('occ', {}).values()) + list(extras.get('occs', {}).values())
                ids = set()
                for ex in rs:
                    if ex[0].get_id() in ids:
                        continue
                    ids.add(ex[0].get_id())
                    new.append(occ(ex[0], app) == occs(ex[0], app.arg(0)))
        if not new:
            break
        axioms.extend(new)
        work = new
    return axioms


def length_axioms(formulas):
    """valid sequence facts the solver does not always find by itself:  |t| == 0  ==>  t == []"""
    seen, out, stack = set(), [], list(formulas)
    done = set()
    while stack:
        e = stack.pop()
        if e.get_id() in seen:
            continue
        seen.add(e.get_id())
        if z3.is_app(e):
            if e.decl().kind() == z3.Z3_OP_SEQ_LENGTH:
                t = e.arg(0)
                if t.get_id() not in done and not z3.is_app_of(t, z3.Z3_OP_SEQ_EMPTY) and z3.is_const(t):
                    done.add(t.get_id())
                    out.append(z3.Implies(e == 0, t == z3.Empty(t.sort())))
            stack.extend(e.children())
        elif z3.is_quantifier(e):
            stack.append(e.body())
    return out


# injectivity of the free constructors, stated through inverses
def structural_axioms(formulas):
    """tup/untup and mdpair projections: instantiated for every tup(..)/mdpair(..)
    application occurring in the formulas."""
    seen = set()
    out = []
    stack = list(formulas)
    while stack:
        e = stack.pop()
        if e.get_id() in seen:
            continue
        seen.add(e.get_id())
        if z3.is_app(e):
            d = e.decl()
            if d.kind() == z3.Z3_OP_UNINTERPRETED:
                n = d.name()
                if n == 'tup':
                    out.append(f_untup(e) == e.arg(0))
                elif n == 'mdpair':
                    out.append(f_mdpair_x(e) == e.arg(0))
                    out.append(f_mdpair_md(e) == e.arg(1))
            stack.extend(e.children())
        elif z3.is_quantifier(e):
            stack.append(e.body())
    return out


def prove_lemmas():
    """Discharge the induction proofs of the lemmas that instantiate_axioms uses.  Returns list of (name, ok)."""
    out = []
    r = z3.Const('lem_r', Obj)
    P = z3.Const('lem_P', SeqSeqMdS)
    m = z3.Const('lem_m', SeqMdS)

    def valid(assumptions, goal):
        fs = list(assumptions) + [z3.Not(goal)]
        # only the defining (unfolding) axioms may be used here, not the lemma itself
        saved = SpecFun.registry['flat'].name
        ax = []
        for f in fs:
            pass
        ax = _unfold_only(fs)
        s = z3.Solver()
        s.set('timeout', 10000)
        s.add(*fs)
        s.add(*ax)
        return s.check() == z3.unsat
    base = valid([], occ(r, flat(z3.Empty(SeqSeqMdS))) == occs(r, z3.Empty(SeqSeqMdS)))
    step = valid([occ(r, flat(P)) == occs(r, P)],
                 occ(r, flat(z3.Concat(P, z3.Unit(m)))) == occs(r, z3.Concat(P, z3.Unit(m))))
    out.append(('L-FLAT.base: occ(r, flat([])) == occs(r, [])', base))
    out.append(('L-FLAT.step: occ(r, flat(P)) == occs(r, P)  ==>  occ(r, flat(P ++ [m])) == occs(r, P ++ [m])', step))
    return out


def _unfold_only(formulas, rounds=5):
    """defining (unfolding) axioms only -- used to prove the lemmas themselves"""
    seen, done, axioms, work = set(), set(), [], list(formulas)
    extras = {}
    concats = []
    cseen = set()
    for _ in range(rounds):
        apps = []
        for f in work:
            _walk(f, seen, apps)
        _collect_concats(work, cseen, concats)
        for sf, app in apps:
            ex = tuple(app.arg(i) for i in range(sf.nextra))
            extras.setdefault(sf.name, {})[tuple(a.get_id() for a in ex)] = ex
        for name, sf in SpecFun.registry.items():
            if name not in extras:
                continue
            for c in concats:
                if c.sort() != sf.seq_sort:
                    continue
                for ex in extras[name].values():
                    apps.append((sf, sf.f(*(list(ex) + [c]))))
        new = []
        for sf, app in apps:
            if app.get_id() in done:
                continue
            done.add(app.get_id())
            new.extend(sf.axioms_for(app))
        if not new:
            break
        axioms.extend(new)
        work = new
    return axioms
