"""Heap, path state and control-flow signals of the symbolic interpreter."""
import itertools
import z3
from . import sym

_loc = itertools.count(1)


def new_loc():
    return next(_loc)


class ListCell:
    """list / deque content.  maxlen is a z3 Int term or None."""

    def __init__(self, term, kind, pytype='list', maxlen=None):
        self.term = term
        self.kind = kind            # element kind
        self.pytype = pytype
        self.maxlen = maxlen

    def with_term(self, term):
        return ListCell(term, self.kind, self.pytype, self.maxlen)


class DictCell:
    """Insertion-ordered dict: keys (Seq, distinct), vals Array(K, V).
    vkind describes the stored values; if vlist is set the values are mutable
    lists (Seq terms of element kind vlist) that can be aliased."""

    def __init__(self, keys, vals, kkind, vkind, vlist=None, default_empty=False, vpytype='list'):
        self.keys = keys
        self.vals = vals
        self.kkind = kkind
        self.vkind = vkind
        self.vlist = vlist
        self.default_empty = default_empty      # defaultdict(lambda: [])
        self.vpytype = vpytype
        self.aliases = ()       # (key term, list cell loc): the list object stored under that key lives in that cell

    def replace(self, **kw):
        c = DictCell(self.keys, self.vals, self.kkind, self.vkind, self.vlist, self.default_empty, self.vpytype)
        c.aliases = self.aliases
        for k, v in kw.items():
            setattr(c, k, v)
        return c


class SetCell:
    def __init__(self, member, kkind, card=None):
        self.member = member        # Array(K, Bool)
        self.kkind = kkind
        self.card = card            # Int term or None (unknown)

    def replace(self, **kw):
        c = SetCell(self.member, self.kkind, self.card)
        for k, v in kw.items():
            setattr(c, k, v)
        return c


class ObjCell:
    def __init__(self, cls, fields):
        self.cls = cls
        self.fields = dict(fields)

    def with_field(self, name, v):
        c = ObjCell(self.cls, self.fields)
        c.fields[name] = v
        return c


class DictValLoc:
    """Derived location: the mutable list stored under `key` in dict `dloc`."""

    def __init__(self, dloc, key):
        self.dloc = dloc
        self.key = key

    def __repr__(self):
        return 'dv(%s,%s)' % (self.dloc, self.key)


class Obligation:
    def __init__(self, name, formula, pc, kind='post', note=''):
        self.name = name
        self.formula = formula      # z3 Bool that must be valid under pc
        self.pc = list(pc)
        self.kind = kind
        self.note = note


class State:
    def __init__(self):
        self.heap = {}
        self.pc = []
        self.ghost = {}
        self.fieldmaps = {}         # (cls, field) -> z3 Array(Obj, sort)
        self.obligations = []
        self.events = []            # opaque calls, for replay scripts
        self.notes = []

    def snapshot(self):
        s = State()
        s.heap = dict(self.heap)
        s.pc = list(self.pc)
        s.ghost = dict(self.ghost)
        s.fieldmaps = dict(self.fieldmaps)
        s.obligations = self.obligations     # shared on purpose
        s.events = list(self.events)
        s.notes = self.notes
        return s

    def assume(self, f):
        if isinstance(f, bool):
            f = z3.BoolVal(f)
        self.pc.append(f)

    # -- list cells (possibly derived through a dict value)
    def dict_list_term(self, dloc, kt):
        """content of the list object currently stored under key kt in a dict of lists"""
        d = self.heap[dloc]
        term = z3.Select(d.vals, kt)
        for ak, loc in d.aliases:
            cur = self.heap[loc].term
            if ak.eq(kt):
                term = cur
            else:
                term = z3.If(kt == ak, cur, term)
        return term

    def list_cell(self, loc):
        if isinstance(loc, DictValLoc):
            d = self.heap[loc.dloc]
            return ListCell(z3.Select(d.vals, loc.key), d.vlist, d.vpytype)
        return self.heap[loc]

    def set_list_term(self, loc, term):
        if isinstance(loc, DictValLoc):
            d = self.heap[loc.dloc]
            self.heap[loc.dloc] = d.replace(vals=z3.Store(d.vals, loc.key, term))
        else:
            self.heap[loc] = self.heap[loc].with_term(term)

    def new_list(self, term, kind, pytype='list', maxlen=None):
        loc = new_loc()
        self.heap[loc] = ListCell(term, kind, pytype, maxlen)
        return sym.VList(loc)

    def new_obj(self, cls, fields):
        loc = new_loc()
        self.heap[loc] = ObjCell(cls, fields)
        return sym.VObj(loc)

    def new_dict(self, cell):
        loc = new_loc()
        self.heap[loc] = cell
        return sym.VDict(loc)

    def new_set(self, cell):
        loc = new_loc()
        self.heap[loc] = cell
        return sym.VSet(loc)

    def fieldmap(self, cls, field, sort):
        key = (cls, field)
        if key not in self.fieldmaps:
            self.fieldmaps[key] = z3.Const('fld_%s_%s' % (cls, field), z3.ArraySort(sym.Obj, sort))
        return self.fieldmaps[key]


# ---------------------------------------------------------------- control flow signals
class ReturnSignal(Exception):
    def __init__(self, value):
        self.value = value


class BreakSignal(Exception):
    pass


class ContinueSignal(Exception):
    pass


class PyRaise(Exception):
    """A Python exception raised by the interpreted program."""

    def __init__(self, exc):
        self.exc = exc          # sym.VExc


class PathEnd(Exception):
    """The current path stops here (e.g. after the inductive step of a loop)."""


class Infeasible(Exception):
    pass


class Unsupported(Exception):
    """Construct outside the supported subset: a checker error, never a verdict."""


class SegmentYield(Exception):
    """Raised at a yield/await when running in segment mode."""

    def __init__(self, value, node):
        self.value = value
        self.node = node
