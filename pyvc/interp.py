"""Symbolic interpreter over the *real* ast of the repository functions.

One call of Interp.explore() enumerates every feasible path of a unit
(function or coroutine segment) by decision replay; each path ends in an
Outcome (return / raise / yield) carrying the final State.
"""
import ast
import z3
from . import sym
from .sym import (VFrame, VVec, VInt, VReal, VBool, VNone, VStr, VString, VElem, VMdEntry, VAw, VRef, VSeq,
                  VTuple, VList, VDict, VSet, VObj, VCallable, VBuiltin, VBound, VFunc,
                  VExc, VClass, Value)
from .state import (State, ListCell, DictCell, SetCell, ObjCell, DictValLoc, Obligation,
                    ReturnSignal, BreakSignal, ContinueSignal, PyRaise, PathEnd,
                    Infeasible, Unsupported, SegmentYield)

NONE = VNone()


class Outcome:
    def __init__(self, kind, value, state, frame, decisions):
        self.kind = kind            # 'return' | 'raise' | 'yield' | 'end'
        self.value = value
        self.state = state
        self.frame = frame
        self.decisions = decisions


class Frame:
    def __init__(self, qual, locals_=None):
        self.qual = qual
        self.locals = dict(locals_ or {})
        self.loop_ids = {}


class Interp:
    def __init__(self, index, summaries=None, loop_specs=None, inline=(), spec_funcs=None,
                 branch_timeout_ms=3000, globals_=None):
        self.index = index                  # repoindex.RepoIndex
        self.summaries = summaries or {}
        self.loop_specs = loop_specs or {}
        self.inline = set(inline)
        self.spec_funcs = spec_funcs or {}
        self.branch_timeout_ms = branch_timeout_ms
        self.globals = globals_ or {}
        self.st = None
        self.spec_mode = 0
        self.old_st = None
        self.prefix = []
        self.trail = []
        self.work = []
        self.segment_mode = False
        self.dropped = set()
        self.n_branch_checks = 0

    # ------------------------------------------------------------ exploration
    def explore(self, run):
        """run(interp) must build a fresh state in interp.st and execute the
        unit; it returns (value, frame) or raises PyRaise / SegmentYield."""
        outcomes = []
        self.work = [[]]
        while self.work:
            self.prefix = self.work.pop()
            self.trail = []
            try:
                try:
                    value, frame = run(self)
                    outcomes.append(Outcome('return', value, self.st, frame, list(self.trail)))
                except PyRaise as e:
                    outcomes.append(Outcome('raise', e.exc, self.st, getattr(e, 'frame', None), list(self.trail)))
                except SegmentYield as e:
                    o = Outcome('yield', e.value, self.st, getattr(e, 'frame', None), list(self.trail))
                    o.yield_index = getattr(e, 'index', 0)
                    outcomes.append(o)
                except PathEnd:
                    outcomes.append(Outcome('end', None, self.st, None, list(self.trail)))
            except Infeasible:
                pass
        return outcomes

    def feasible(self, cond):
        s = z3.Solver()
        s.set('timeout', self.branch_timeout_ms)
        s.add(*self.st.pc)
        s.add(cond)
        self.n_branch_checks += 1
        return s.check() != z3.unsat

    def branch(self, cond):
        """Decide a symbolic condition, forking the path when both outcomes are feasible."""
        if isinstance(cond, bool):
            return cond
        cond = z3.simplify(cond)
        if z3.is_true(cond):
            return True
        if z3.is_false(cond):
            return False
        if self.spec_mode:
            raise Unsupported('branching on a symbolic condition inside a specification expression: %s' % cond)
        i = len(self.trail)
        if i < len(self.prefix):
            d = self.prefix[i]
            self.trail.append(d)
            self.st.assume(cond if d else z3.Not(cond))
            return d
        t = self.feasible(cond)
        f = self.feasible(z3.Not(cond))
        if t and f:
            self.work.append(self.trail + [False])
            self.trail.append(True)
            self.st.assume(cond)
            return True
        if t:
            self.trail.append(True)
            self.st.assume(cond)
            return True
        if f:
            self.trail.append(False)
            self.st.assume(z3.Not(cond))
            return False
        raise Infeasible()

    def choose(self, n, label=''):
        """Non-deterministic choice among n alternatives (returns index)."""
        for k in range(n - 1):
            b = z3.Bool(sym.fresh_name('choice_%s' % label))
            if self.branch(b):
                return k
        return n - 1

    def oblige(self, name, formula, kind='callsite', note=''):
        if isinstance(formula, bool):
            formula = z3.BoolVal(formula)
        self.st.obligations.append(Obligation(name, formula, self.st.pc, kind, note))

    def raise_(self, cls, payload=None):
        raise PyRaise(VExc(cls, payload=payload))

    # ------------------------------------------------------------ truthiness / equality
    def truth(self, v):
        if isinstance(v, VBool):
            return v.t
        if isinstance(v, VInt):
            return v.t != 0
        if isinstance(v, VReal):
            return v.t != 0
        if isinstance(v, VNone):
            return z3.BoolVal(False)
        if isinstance(v, VStr):
            return z3.BoolVal(bool(v.s))
        if isinstance(v, VString):
            return z3.Length(v.t) > 0
        if isinstance(v, VSeq):
            return z3.BoolVal(False) if v.t is None else z3.Length(v.t) > 0
        if isinstance(v, VList):
            t = self.st.list_cell(v.loc).term
            return z3.BoolVal(False) if t is None else z3.Length(t) > 0
        if isinstance(v, VTuple):
            return z3.BoolVal(len(v.items) > 0)
        if isinstance(v, VDict):
            if self.st.heap[v.loc].kkind is None:
                return z3.BoolVal(False)
            return z3.Length(self.st.heap[v.loc].keys) > 0
        if isinstance(v, VSet):
            c = self.st.heap[v.loc]
            if c.card is None:
                raise Unsupported('truthiness of a set without cardinality')
            return c.card > 0
        if isinstance(v, VElem):
            return sym.f_truthy(v.t)
        if isinstance(v, VRef) and v.cls and v.cls.endswith('?'):
            return v.t != sym.c_none_obj        # optional reference: None is the distinguished null object
        if isinstance(v, VRef) and v.cls:
            # a reference to a sized container is truthy iff it is non-empty (OrderedWeakrefSet defines __len__)
            h = self.summaries.get('len:' + v.cls)
            if h:
                return self.num(h(self, v, [], {})) != 0
            if v.cls in ('OrderedWeakrefSet', 'OrderedSet', 'deque', 'dict', 'list', 'set', 'WeakSet'):
                return z3.Function('truthy_obj', sym.Obj, z3.BoolSort())(v.t)
        if isinstance(v, (VObj, VRef, VCallable, VFunc, VBound, VBuiltin, VAw, VClass)):
            return z3.BoolVal(True)
        if isinstance(v, VMdEntry):
            return z3.BoolVal(True)   # a metadata dict with at least the keys it was given; emptiness not modelled
        raise Unsupported('truthiness of %r' % (v,))

    def seq_term(self, v):
        """z3 Seq term + element kind of a list-like value."""
        if isinstance(v, VSeq):
            return v.t, v.kind
        if isinstance(v, VList):
            c = self.st.list_cell(v.loc)
            return c.term, c.kind
        if isinstance(v, VTuple):
            if not v.items:
                raise Unsupported('empty tuple without element kind')
            k = self.kind_of(v.items[0])
            t = z3.Empty(z3.SeqSort(k.sort))
            for it in v.items:
                t = z3.Concat(t, z3.Unit(self.term_of(it, k))) if not z3.is_app_of(t, z3.Z3_OP_SEQ_EMPTY) else z3.Unit(self.term_of(it, k))
            return t, k
        if isinstance(v, VElem):
            return sym.f_untup(v.t), sym.K_ELEM
        raise Unsupported('not a sequence: %r' % (v,))

    def kind_of(self, v):
        if isinstance(v, VInt):
            return sym.K_INT
        if isinstance(v, VReal):
            return sym.K_REAL
        if isinstance(v, VBool):
            return sym.K_BOOL
        if isinstance(v, VElem):
            return sym.K_ELEM
        if isinstance(v, VMdEntry):
            return sym.K_MDE
        if isinstance(v, VAw):
            return sym.K_AW
        if isinstance(v, VRef):
            return sym.K_OBJ
        if isinstance(v, VString):
            return sym.K_STRING
        if isinstance(v, (VSeq, VList)):
            return sym.KSeq(self.seq_term(v)[1])
        if isinstance(v, (VTuple, VNone, VStr)):
            return sym.K_ELEM
        if isinstance(v, VObj) and isinstance(self.st.heap[v.loc].fields.get('__ref__'), VRef):
            return sym.K_OBJ        # a modelled object that also has an identity among the symbolic references
        raise Unsupported('kind of %r' % (v,))

    def as_elem(self, v):
        """Coerce a value to the opaque-data sort Elem."""
        if isinstance(v, VElem):
            return v.t
        if isinstance(v, VNone):
            return sym.c_none_elem
        if isinstance(v, VInt):
            return sym.f_int_elem(v.t)
        if isinstance(v, VStr):
            return sym.str_elem(v.s)
        if isinstance(v, VRef):
            return sym.f_obj_elem(v.t)
        if isinstance(v, (VObj, VDict)):
            return sym.f_obj_elem(z3.Const('objloc_%d' % v.loc, sym.Obj))
        if isinstance(v, VBool):
            return z3.If(v.t, sym.str_elem('True'), sym.str_elem('False'))
        if isinstance(v, VAw):
            return sym.f_aw_elem(v.t)
        if isinstance(v, VTuple):
            if not v.items:
                return sym.f_tup(z3.Empty(sym.SeqElemS))
            if len(v.items) == 2 and isinstance(v.items[1], (VSeq,)) and v.items[1].kind is sym.K_MDE:
                return sym.f_mdpair(self.as_elem(v.items[0]), v.items[1].t)
            parts = [z3.Unit(self.as_elem(it)) for it in v.items]
            return sym.f_tup(parts[0] if len(parts) == 1 else z3.Concat(*parts))
        if isinstance(v, (VSeq, VList)):
            t, k = self.seq_term(v)
            if t is None:
                return sym.f_tup(z3.Empty(sym.SeqElemS))
            if k is sym.K_ELEM:
                return sym.f_tup(t)
        if isinstance(v, VCallable):
            # a user callable used as a datum (e.g. as a dictionary key): one opaque value per callable
            return sym.str_elem('callable:' + v.name)
        raise Unsupported('cannot treat %r as opaque data' % (v,))

    def term_of(self, v, kind):
        if kind is sym.K_ELEM:
            return self.as_elem(v)
        if kind is sym.K_REAL and isinstance(v, VInt):
            return z3.ToReal(v.t)
        if kind.name == 'optloop' and isinstance(v, VNone):
            return sym.c_none_obj
        if kind is sym.K_MD and isinstance(v, VNone):
            return z3.Empty(sym.SeqMdS)     # "no metadata yet" slots: None is modelled as the empty list
        if kind is sym.K_ELEM and isinstance(v, VBool):
            return z3.If(v.t, sym.str_elem('True'), sym.str_elem('False'))
        if isinstance(v, (VSeq, VList)):
            t, k = self.seq_term(v)
            if kind.elem is k:
                return t
            if t is None and k is None and kind.elem is not None:
                return z3.Empty(z3.SeqSort(kind.elem.sort))        # a fresh empty list takes the element type of its slot
            raise Unsupported('sequence kind mismatch: %s vs %s' % (kind, k))
        if hasattr(v, 't') and v.t is not None and v.t.sort() == kind.sort:
            return v.t
        if kind is sym.K_OBJ and isinstance(v, VObj) and isinstance(self.st.heap[v.loc].fields.get('__ref__'), VRef):
            return self.st.heap[v.loc].fields['__ref__'].t
        raise Unsupported('cannot coerce %r to %s' % (v, kind))

    def eq(self, a, b, identity=False):
        """z3 Bool for a == b (Python value equality; identity for `is`)."""
        if isinstance(a, VNone) or isinstance(b, VNone):
            if isinstance(a, VNone) and isinstance(b, VNone):
                return z3.BoolVal(True)
            o = b if isinstance(a, VNone) else a
            if isinstance(o, VElem):
                return o.t == sym.c_none_elem
            if isinstance(o, VRef) and o.cls and o.cls.endswith('?'):
                return o.t == sym.c_none_obj
            return z3.BoolVal(False)
        if isinstance(a, VStr) and isinstance(b, VStr):
            return z3.BoolVal(a.s == b.s)
        if isinstance(a, VStr) or isinstance(b, VStr):
            o, s = (b, a) if isinstance(a, VStr) else (a, b)
            if isinstance(o, VElem):
                return o.t == sym.str_elem(s.s)
            if isinstance(o, VString):
                return o.t == z3.StringVal(s.s)
            return z3.BoolVal(False)
        if isinstance(a, VInt) and isinstance(b, VInt):
            return a.t == b.t
        if isinstance(a, (VInt, VReal)) and isinstance(b, (VInt, VReal)):
            return self.num(a, True) == self.num(b, True)
        if isinstance(a, VBool) and isinstance(b, VBool):
            return a.t == b.t
        if (isinstance(a, VBool) and isinstance(b, VElem)) or (isinstance(a, VElem) and isinstance(b, VBool)):
            return self.as_elem(a) == self.as_elem(b)
        if isinstance(a, VObj) and isinstance(b, VObj):
            return z3.BoolVal(a.loc == b.loc)
        if isinstance(a, VObj) or isinstance(b, VObj):
            o, r = (a, b) if isinstance(a, VObj) else (b, a)
            ident = self.st.heap[o.loc].fields.get('__ref__')
            if isinstance(r, VRef) and ident is not None:
                return ident.t == r.t
            return z3.BoolVal(False)
        if identity and isinstance(a, VList) and isinstance(b, VList):
            return z3.BoolVal(a.loc == b.loc) if not isinstance(a.loc, DictValLoc) else z3.BoolVal(repr(a.loc) == repr(b.loc))
        if isinstance(a, VTuple) and isinstance(b, VTuple):
            if len(a.items) != len(b.items):
                return z3.BoolVal(False)
            return z3.And([self.eq(x, y) for x, y in zip(a.items, b.items)]) if a.items else z3.BoolVal(True)
        if isinstance(a, (VSeq, VList)) and isinstance(b, (VSeq, VList)):
            ta, ka = self.seq_term(a)
            tb, kb = self.seq_term(b)
            if ta is None and tb is None:
                return z3.BoolVal(True)
            if ta is None:
                return z3.Length(tb) == 0
            if tb is None:
                return z3.Length(ta) == 0
            if ka is not kb:
                return z3.BoolVal(False)
            return ta == tb
        if isinstance(a, (VElem, VTuple, VSeq, VList)) and isinstance(b, (VElem, VTuple, VSeq, VList)):
            return self.as_elem(a) == self.as_elem(b)
        if hasattr(a, 't') and hasattr(b, 't') and type(a) is type(b):
            return a.t == b.t
        if isinstance(a, VCallable) and isinstance(b, VCallable):
            return z3.BoolVal(a.name == b.name)
        if isinstance(a, (VClass, VBuiltin)) and isinstance(b, (VClass, VBuiltin)):
            return z3.BoolVal(a.name == b.name)
        return z3.BoolVal(False)

    def num(self, v, real=False):
        if isinstance(v, VInt):
            return z3.ToReal(v.t) if real else v.t
        if isinstance(v, VReal):
            return v.t
        if isinstance(v, VBool):
            t = z3.If(v.t, 1, 0)
            return z3.ToReal(t) if real else t
        raise Unsupported('not a number: %r' % (v,))

    def ite(self, c, a, b):
        """Value-level conditional (specification mode)."""
        if z3.is_true(c):
            return a
        if z3.is_false(c):
            return b
        if isinstance(a, VNone) and isinstance(b, VNone):
            return a
        if isinstance(a, (VSeq, VList)) and isinstance(b, (VSeq, VList)):
            ta, ka = self.seq_term(a)
            tb, kb = self.seq_term(b)
            if ta is None and tb is not None:
                ta, ka = z3.Empty(tb.sort()), kb
            if tb is None and ta is not None:
                tb, kb = z3.Empty(ta.sort()), ka
            if ta is None:
                return a
            if ka is kb:
                return VSeq(z3.If(c, ta, tb), ka)
        if isinstance(a, (VInt, VReal)) and isinstance(b, (VInt, VReal)) and type(a) is not type(b):
            return VReal(z3.If(c, self.num(a, True), self.num(b, True)))
        if type(a) is type(b) and hasattr(a, 't'):
            r = type(a).__new__(type(a))
            r.__dict__.update(a.__dict__)
            r.t = z3.If(c, a.t, b.t)
            return r
        if isinstance(a, VTuple) and isinstance(b, VTuple) and len(a.items) == len(b.items):
            return VTuple([self.ite(c, x, y) for x, y in zip(a.items, b.items)])
        try:
            return VElem(z3.If(c, self.as_elem(a), self.as_elem(b)))
        except Unsupported:
            raise Unsupported('conditional over incompatible values %r / %r' % (a, b))

    # ------------------------------------------------------------ statements
    def exec_block(self, stmts, fr):
        for s in stmts:
            self.exec_stmt(s, fr)

    def exec_stmt(self, s, fr):
        m = getattr(self, 'stmt_' + type(s).__name__, None)
        if m is None:
            raise Unsupported('statement %s at line %s' % (type(s).__name__, getattr(s, 'lineno', '?')))
        return m(s, fr)

    def stmt_Pass(self, s, fr):
        pass

    def stmt_Import(self, s, fr):
        self.dropped.add('import')

    stmt_ImportFrom = stmt_Import

    def stmt_Expr(self, s, fr):
        if isinstance(s.value, ast.Constant):
            self.dropped.add('docstring')
            return
        self.eval(s.value, fr)

    def stmt_Return(self, s, fr):
        raise ReturnSignal(self.eval(s.value, fr) if s.value is not None else NONE)

    def stmt_Break(self, s, fr):
        raise BreakSignal()

    def stmt_Continue(self, s, fr):
        raise ContinueSignal()

    def stmt_Assign(self, s, fr):
        v = self.eval(s.value, fr)
        for tgt in s.targets:
            self.assign(tgt, v, fr)

    def stmt_AnnAssign(self, s, fr):
        if s.value is not None:
            self.assign(s.target, self.eval(s.value, fr), fr)

    def stmt_AugAssign(self, s, fr):
        cur = self.eval(_load(s.target), fr)
        h = self.spec_funcs.get('augassign_hook')
        if h is not None:
            h(self, s, cur, fr)          # x += y mutates x in place when x is a mutable object (e.g. a pandas object)
        v = self.binop(s.op, cur, self.eval(s.value, fr))
        self.assign(s.target, v, fr)

    def stmt_Delete(self, s, fr):
        for tgt in s.targets:
            if isinstance(tgt, ast.Subscript) and isinstance(tgt.slice, ast.Slice):
                base = self.eval(tgt.value, fr)
                if not isinstance(base, VList):
                    raise Unsupported('del slice of non-list')
                sl = tgt.slice
                if sl.upper is None and sl.step is None and sl.lower is not None:
                    k = self.eval(sl.lower, fr)
                    c = self.st.list_cell(base.loc)
                    n = z3.Length(c.term)
                    kk = self.num(k)
                    self.st.set_list_term(base.loc, z3.If(kk >= n, c.term, z3.SubSeq(c.term, 0, kk)))
                    continue
            elif isinstance(tgt, ast.Attribute):
                obj = self.eval(tgt.value, fr)
                if isinstance(obj, VObj):
                    cell = self.st.heap[obj.loc]
                    f = dict(cell.fields)
                    f.pop(tgt.attr, None)
                    self.st.heap[obj.loc] = ObjCell(cell.cls, f)
                    continue
            raise Unsupported('del %s' % ast.dump(tgt))

    def stmt_If(self, s, fr):
        if self.branch(self.truth(self.eval_cond(s.test, fr))):
            self.exec_block(s.body, fr)
        else:
            self.exec_block(s.orelse, fr)

    def stmt_Raise(self, s, fr):
        if s.exc is None:
            cur = fr.locals.get('__current_exc__')
            if cur is None:
                raise Unsupported('bare raise outside handler')
            raise PyRaise(cur)
        v = self.eval(s.exc, fr)
        if isinstance(v, VClass):
            v = VExc(v.name)
        if not isinstance(v, VExc) and isinstance(v, VElem) and 'raise_value' in self.spec_funcs:
            # an exception object stored as an opaque value (e.g. handed over from another thread): the contract names it
            return self.spec_funcs['raise_value'](self, v)
        if not isinstance(v, VExc):
            raise Unsupported('raise of non-exception %r' % (v,))
        raise PyRaise(v)

    def stmt_Try(self, s, fr):
        try:
            try:
                self.exec_block(s.body, fr)
            except PyRaise as e:
                handled = False
                for h in s.handlers:
                    if self.exc_matches(e.exc, h.type, fr):
                        handled = True
                        saved = fr.locals.get('__current_exc__')
                        fr.locals['__current_exc__'] = e.exc
                        if h.name:
                            fr.locals[h.name] = e.exc
                        try:
                            self.exec_block(h.body, fr)
                        finally:
                            fr.locals['__current_exc__'] = saved
                        break
                if not handled:
                    raise
            else:
                self.exec_block(s.orelse, fr)
        except (PyRaise, ReturnSignal, BreakSignal, ContinueSignal):
            # `finally` runs on every way out of the try statement taken by the program itself
            # (not at a segment boundary and not when the explorer abandons the path)
            if s.finalbody:
                self.exec_block(s.finalbody, fr)
            raise
        else:
            if s.finalbody:
                self.exec_block(s.finalbody, fr)

    def exc_matches(self, exc, typ, fr):
        if typ is None:
            return True
        names = []
        if isinstance(typ, ast.Tuple):
            names = [ast.unparse(e) for e in typ.elts]
        else:
            names = [ast.unparse(typ)]
        for n in names:
            n = n.split('.')[-1]
            if n in ('Exception', 'BaseException'):
                return True
            if n == exc.cls:
                return True
            if (n, exc.cls) in (('LookupError', 'KeyError'), ('LookupError', 'IndexError')):
                return True
            if exc.cls in ('DownstreamError', 'UserError') and n in EXC_CLASSES and not getattr(exc, 'not_class_' + n, False):
                # the failure of a user callable / of a consumer further down is an exception of an ARBITRARY class: it may be
                # exactly the class this handler names (an `except IndexError:` meant for the node's own queue also catches
                # an IndexError raised by a consumer).  Both possibilities are explored.
                if self.branch(z3.Bool(sym.fresh_name('failure_is_a_' + n))):
                    return True
                setattr(exc, 'not_class_' + n, True)
        return False

    def stmt_With(self, s, fr):
        raise Unsupported('with statement')

    def stmt_FunctionDef(self, s, fr):
        fr.locals[s.name] = VFunc(fr.qual + '.<locals>.' + s.name, s, bound=None)
        fr.locals[s.name].closure = fr

    stmt_AsyncFunctionDef = stmt_FunctionDef

    def stmt_Assert(self, s, fr):
        c = self.truth(self.eval_cond(s.test, fr))
        if not self.branch(c):
            self.raise_('AssertionError')

    def stmt_Global(self, s, fr):
        raise Unsupported('global')

    # loops --------------------------------------------------------
    def stmt_For(self, s, fr):
        ordinal = fr.loop_ids.get(id(s), -1)
        spec = self.loop_specs.get((fr.qual, ordinal))
        if spec is None and self.segment_mode:
            key = '__iter_%d' % ordinal
            if key not in fr.locals:
                it0 = self.eval(s.iter, fr)
                if self.concrete_items(it0) is None:
                    t0, k0 = self.seq_term(it0)
                    fr.locals[key] = VSeq(t0, k0)
                    fr.locals[key + '_tok'] = self.iter_token(it0)
            if key in fr.locals:
                return self.segment_for(s, fr, key)
        it = self.eval(s.iter, fr)
        if isinstance(it, VRef):
            # direct iteration over a live container object that the contract only knows by reference (the set of downstreams):
            # the loop rule needs a sequence that the body cannot change.  `list(obj)` has a summary (a snapshot); iterating the
            # live object instead is reported as a failed obligation and the snapshot is used to go on.
            h = self.summaries.get('list:' + (it.cls or '?'))
            if h is not None:
                self.oblige('loop_iterates_over_a_snapshot_not_over_the_live_%s' % (it.cls or 'container'), z3.BoolVal(False),
                            kind='callsite', note='a member that detaches itself (or attaches a sibling) during the loop changes the '
                                                  'container under iteration: RuntimeError / skipped members')
                self.st.obligations[-1].props = ['C01', 'C15', 'C05', 'C04']
                it = h(self, it, [], {})
        if spec is None:
            # only concrete iteration is allowed without an invariant
            items = self.concrete_items(it)
            if items is None:
                if self.loop_as_comprehension(s, fr):
                    return
                raise Unsupported('loop %s#%d over a symbolic sequence needs an invariant' % (fr.qual, ordinal))
            try:
                for v in items:
                    tok = self.iter_token(it)
                    self.assign(s.target, v, fr)
                    try:
                        self.exec_block(s.body, fr)
                    except ContinueSignal:
                        self.iter_check(tok)
                        continue
                    self.iter_check(tok)
                else:
                    self.exec_block(s.orelse, fr)
            except BreakSignal:
                pass
            return
        return spec.run_for(self, s, it, fr)

    def stmt_While(self, s, fr):
        ordinal = fr.loop_ids.get(id(s), -1)
        spec = self.loop_specs.get((fr.qual, ordinal))
        if spec is None and self.segment_mode:
            # inside a coroutine segment a loop is simply executed: the segment ends at the next yield
            n = 0
            try:
                while self.branch(self.truth(self.eval(s.test, fr))):
                    n += 1
                    if n > 3:
                        raise Unsupported('loop in a segment does not reach a yield within 3 iterations')
                    try:
                        self.exec_block(s.body, fr)
                    except ContinueSignal:
                        continue
                else:
                    self.exec_block(s.orelse, fr)
            except BreakSignal:
                pass
            return
        if spec is None:
            raise Unsupported('while loop %s#%d needs an invariant' % (fr.qual, ordinal))
        return spec.run_while(self, s, fr)

    def segment_for(self, s, fr, key):
        """for-loop inside a coroutine segment over a symbolic sequence: iterate by taking the head of what remains
        (kept in the frame under `key`) until the segment ends at a yield"""
        n = 0
        try:
            while True:
                rem = fr.locals[key]
                if not self.branch(z3.Length(rem.t) > 0):
                    self.exec_block(s.orelse, fr)
                    return
                n += 1
                if n > 3:
                    raise Unsupported('for loop in a segment does not reach a yield within 3 iterations')
                h = z3.Const(sym.fresh_name('it_hd'), rem.kind.sort)
                tl = z3.Const(sym.fresh_name('it_tl'), rem.t.sort())
                self.st.assume(rem.t == z3.Concat(z3.Unit(h), tl))
                fr.locals[key] = VSeq(tl, rem.kind)
                self.assign(s.target, rem.kind.wrap(h), fr)
                tok = fr.locals.get(key + '_tok')
                try:
                    self.exec_block(s.body, fr)
                except ContinueSignal:
                    self.iter_check(tok)
                    continue
                self.iter_check(tok)
        except BreakSignal:
            return

    def loop_as_comprehension(self, s, fr):
        """`for e in seq: [if c(e):] acc.append(f(e))`  with a list local `acc` is  acc.extend([f(e) for e in seq if c(e)]);
        the comprehension is then handled by the comprehension rules (no invariant needed).  Returns False if the loop does not
        have exactly this shape."""
        if s.orelse or len(s.body) != 1 or not isinstance(s.target, ast.Name):
            return False
        st = s.body[0]
        ifs = []
        if isinstance(st, ast.If) and not st.orelse and len(st.body) == 1:
            ifs = [st.test]
            st = st.body[0]
        if not (isinstance(st, ast.Expr) and isinstance(st.value, ast.Call) and isinstance(st.value.func, ast.Attribute)
                and st.value.func.attr == 'append' and isinstance(st.value.func.value, ast.Name)
                and len(st.value.args) == 1 and not st.value.keywords):
            return False
        acc = st.value.func.value.id
        for n in ast.walk(st.value.args[0]):
            if isinstance(n, ast.Name) and n.id == acc:
                return False
        for t in ifs:
            for n in ast.walk(t):
                if isinstance(n, ast.Name) and n.id == acc:
                    return False
        accv = fr.locals.get(acc)
        if not isinstance(accv, VList):
            return False
        comp = ast.ListComp(elt=st.value.args[0], generators=[ast.comprehension(target=s.target, iter=s.iter, ifs=ifs, is_async=0)])
        ast.copy_location(comp, s)
        ast.fix_missing_locations(comp)
        v = self.comprehension(comp, fr)
        self.list_method(accv, 'extend', [v], {})
        return True

    def iter_token(self, it):
        """loops are modelled as iteration over a snapshot of the sequence; that is only Python's meaning if the object being
        iterated is not modified by the body.  Token = (heap location, current term) of an iterated heap list."""
        if isinstance(it, VList):
            return (it.loc, self.st.list_cell(it.loc).term)
        return None

    def iter_check(self, tok):
        if tok is not None and not self.st.list_cell(tok[0]).term.eq(tok[1]):
            raise Unsupported('the list being iterated is modified inside the loop body (iteration over a changing list is not modelled)')

    def concrete_items(self, it):
        if isinstance(it, VTuple):
            return list(it.items)
        if isinstance(it, (VSeq, VList)):
            t, k = self.seq_term(it)
            if t is None:
                return []           # a container that has never held anything (untyped empty)
            t = z3.simplify(t)
            parts = _concat_parts(t)
            if parts is not None and all(z3.is_app_of(p, z3.Z3_OP_SEQ_UNIT) for p in parts):
                return [k.wrap(p.arg(0)) for p in parts]
        return None

    # ------------------------------------------------------------ assignment
    def assign(self, tgt, v, fr):
        if isinstance(tgt, ast.Name):
            fr.locals[tgt.id] = v
        elif isinstance(tgt, ast.Attribute):
            obj = self.eval(tgt.value, fr)
            self.set_attr(obj, tgt.attr, v)
        elif isinstance(tgt, (ast.Tuple, ast.List)):
            items = self.unpack(v, len(tgt.elts))
            for t, it in zip(tgt.elts, items):
                self.assign(t, it, fr)
        elif isinstance(tgt, ast.Subscript):
            base = self.eval(tgt.value, fr)
            if isinstance(tgt.slice, ast.Slice) and isinstance(base, VVec) and isinstance(tgt.value, ast.Name) \
                    and tgt.slice.lower is None and tgt.slice.upper is None:
                # vec[:] = c  : every component becomes c (in place; no alias of a freshly reduced vector exists)
                fr.locals[tgt.value.id] = VVec(self.num(v, True))
                return
            key = self.eval(tgt.slice, fr)
            self.set_item(base, key, v)
        else:
            raise Unsupported('assignment target %s' % type(tgt).__name__)

    def unpack(self, v, n):
        if isinstance(v, VTuple):
            if len(v.items) != n:
                self.raise_('ValueError')
            return v.items
        if isinstance(v, (VSeq, VList)):
            t, k = self.seq_term(v)
            if not self.branch(z3.Length(t) == n):
                self.raise_('ValueError')
            return [k.wrap(t[i]) for i in range(n)]
        if isinstance(v, VElem):
            # opaque datum assumed to be an n-tuple (assumption recorded)
            self.st.notes.append('assumed: opaque value unpacked as %d-tuple' % n)
            h = self.spec_funcs.get('unpack_elem')
            if h is not None:
                r = h(self, v, n)
                if r is not None:
                    return r
            u = sym.f_untup(v.t)
            self.st.assume(z3.Length(u) == n)
            return [VElem(u[i]) for i in range(n)]
        raise Unsupported('unpack of %r' % (v,))

    def set_attr(self, obj, name, v):
        if isinstance(obj, VObj):
            self.st.heap[obj.loc] = self.st.heap[obj.loc].with_field(name, v)
            return
        if isinstance(obj, VRef) and obj.cls:
            kind = self.index.field_kind(obj.cls, name)
            if kind is None:
                raise Unsupported('unknown field %s.%s' % (obj.cls, name))
            fm = self.st.fieldmap(obj.cls, name, kind.sort)
            self.st.fieldmaps[(obj.cls, name)] = z3.Store(fm, obj.t, self.term_of(v, kind))
            return
        raise Unsupported('attribute store on %r' % (obj,))

    def head_split(self, term, kind):
        """term == [h] ++ T for fresh h, T (the caller has established that term is non-empty); cached per term"""
        g = self.st.ghost
        for (t0, h, T) in g.get('_head_splits', []):
            if t0.eq(term):
                return h, T
        if z3.is_app_of(term, z3.Z3_OP_SEQ_CONCAT) and z3.is_app_of(term.arg(0), z3.Z3_OP_SEQ_UNIT):
            rest = [term.arg(j) for j in range(1, term.num_args())]
            return term.arg(0).arg(0), (rest[0] if len(rest) == 1 else z3.Concat(*rest))
        h = z3.Const(sym.fresh_name('hd'), kind.sort)
        T = z3.Const(sym.fresh_name('tl'), term.sort())
        self.st.assume(term == z3.Concat(z3.Unit(h), T))
        g['_head_splits'] = g.get('_head_splits', []) + [(term, h, T)]
        return h, T

    def set_item(self, base, key, v):
        if isinstance(base, VStr) and base.s == '__kwargs__' and isinstance(key, VStr):
            # kwargs['name'] = value on the function's own **kwargs (whose other content is unknown): remembered as a ghost list
            items = self.st.ghost.get('_kwargs_items', VTuple([]))
            self.st.ghost['_kwargs_items'] = VTuple([it for it in items.items if it.items[0].s != key.s] + [VTuple([key, v])])
            return
        if isinstance(base, VObj) and self.st.heap[base.loc].cls == '__strdict__':
            if not isinstance(key, VStr):
                raise Unsupported('symbolic key into a string-keyed dict')
            self.st.heap[base.loc] = self.st.heap[base.loc].with_field(key.s, v)
            return
        if isinstance(base, VDict):
            return self.dict_set(base, key, v)
        if isinstance(base, VList):
            c = self.st.list_cell(base.loc)
            i = self.num(key)
            n = z3.Length(c.term)
            si = z3.simplify(i)
            if z3.is_int_value(si) and si.as_long() == 0:
                if not self.branch(n > 0):
                    self.raise_('IndexError')
                h, T = self.head_split(c.term, c.kind)
                self.st.set_list_term(base.loc, z3.Concat(z3.Unit(self.term_of(v, c.kind)), T))
                return
            for (ht, hi, hp, he, hs) in self.st.ghost.get('_index_hints', []):
                # the contract's pre-state names the split  term == P ++ [old] ++ S  with len(P) == i
                if ht.eq(c.term) and hi.eq(i):
                    self.st.set_list_term(base.loc, z3.Concat(hp, z3.Unit(self.term_of(v, c.kind)), hs))
                    return
            if not self.branch(z3.And(i >= 0, i < n)):
                # negative indices unsupported in stores except -1
                raise Unsupported('list store with index possibly out of range')
            new = z3.Concat(z3.SubSeq(c.term, 0, i), z3.Unit(self.term_of(v, c.kind)),
                            z3.SubSeq(c.term, i + 1, n - i - 1))
            self.st.set_list_term(base.loc, new)
            return
        if isinstance(base, VElem) and 'call_default' in self.spec_funcs:
            # wiring contracts: a store into an object outside the model is a recorded call, like any other callee
            self.spec_funcs['call_default'](self, 'method', '__setitem__', base, [key, v], {})
            return
        raise Unsupported('item store on %r' % (base,))

    # ------------------------------------------------------------ dict primitives
    def dict_has(self, d, key):
        c = self.st.heap[d.loc]
        if c.kkind is None:
            return z3.BoolVal(False)
        kt = self.term_of(key, c.kkind)
        return z3.Contains(c.keys, z3.Unit(kt))

    def dict_get_value(self, d, kt):
        c = self.st.heap[d.loc]
        if c.vlist is not None:
            # the stored value is a list *object*: hand out a reference to its cell (aliasing preserved)
            for ak, loc in c.aliases:
                if ak.eq(kt):
                    return VList(loc)
            for ak, loc in c.aliases:
                if self.branch(kt == ak):
                    return VList(loc)
            term = z3.Select(c.vals, kt)
            v = self.st.new_list(term, c.vlist, c.vpytype)
            c = self.st.heap[d.loc]
            c2 = c.replace()
            c2.aliases = c.aliases + ((kt, v.loc),)
            self.st.heap[d.loc] = c2
            return v
        return c.vkind.wrap(z3.Select(c.vals, kt))

    def dict_set(self, d, key, v):
        c = self.st.heap[d.loc]
        if c.kkind is None:
            kk = self.kind_of(key)
            if isinstance(v, (VSeq, VList)):
                vk = sym.KSeq(self.seq_term(v)[1])
            else:
                vk = self.kind_of(v)
            c = DictCell(z3.Empty(z3.SeqSort(kk.sort)), z3.K(kk.sort, vk.fresh('dflt').t), kk, vk)
            self.st.heap[d.loc] = c
        kt = self.term_of(key, c.kkind)
        if c.vlist is not None:
            vt, k = self.seq_term(v)
            if vt is None:
                vt = z3.Empty(z3.SeqSort(c.vlist.sort))
                if isinstance(v, VList):
                    self.st.heap[v.loc] = ListCell(vt, c.vlist, self.st.heap[v.loc].pytype, self.st.heap[v.loc].maxlen)
        else:
            vt = self.term_of(v, c.vkind)
        if c.vlist is not None and c.aliases:
            # the slot is rebound to a new list object: older references keep their own cell
            keep = []
            for ak, loc in c.aliases:
                if ak.eq(kt):
                    continue
                if self.branch(kt == ak):
                    continue
                keep.append((ak, loc))
            c = c.replace()
            c.aliases = tuple(keep)
            if isinstance(v, VList) and not isinstance(v.loc, DictValLoc):
                c.aliases = c.aliases + ((kt, v.loc),)
        elif c.vlist is not None and isinstance(v, VList):
            c = c.replace()
            c.aliases = c.aliases + ((kt, v.loc),)
        has = z3.Contains(c.keys, z3.Unit(kt))
        if self.branch(has):
            self.st.heap[d.loc] = c.replace(vals=z3.Store(c.vals, kt, vt))
        else:
            self.st.heap[d.loc] = c.replace(keys=z3.Concat(c.keys, z3.Unit(kt)), vals=z3.Store(c.vals, kt, vt))

    def dict_remove(self, d, kt):
        """Remove a present key; returns nothing. Introduces the witness split keys == A ++ [k] ++ B."""
        c = self.st.heap[d.loc]
        ks = c.keys.sort()
        for (hk, hkey, ha, hb) in self.st.ghost.get('_split_hints', []):
            # the contract's pre-state already names the split of this key sequence at this key
            if hk.eq(c.keys) and hkey.eq(kt):
                self.st.heap[d.loc] = c.replace(keys=z3.Concat(ha, hb))
                return ha, hb
        a = z3.Const(sym.fresh_name('kA'), ks)
        b = z3.Const(sym.fresh_name('kB'), ks)
        self.st.assume(c.keys == z3.Concat(a, z3.Unit(kt), b))
        self.st.assume(z3.Not(z3.Contains(a, z3.Unit(kt))))
        self.st.assume(z3.Not(z3.Contains(b, z3.Unit(kt))))
        self.st.heap[d.loc] = c.replace(keys=z3.Concat(a, b))
        return a, b

    # ------------------------------------------------------------ expressions
    def eval_cond(self, e, fr):
        return self.eval(e, fr)

    def eval(self, e, fr):
        m = getattr(self, 'expr_' + type(e).__name__, None)
        if m is None:
            raise Unsupported('expression %s at line %s' % (type(e).__name__, getattr(e, 'lineno', '?')))
        return m(e, fr)

    def expr_Constant(self, e, fr):
        v = e.value
        if v is None:
            return NONE
        if isinstance(v, bool):
            return VBool(v)
        if isinstance(v, int):
            return VInt(v)
        if isinstance(v, float):
            return VReal(z3.RealVal(repr(v)))
        if isinstance(v, str):
            return VStr(v)
        if isinstance(v, bytes):
            # a bytes literal is only ever passed on (delimiters): an opaque datum named after its value
            return VElem(sym.str_elem('bytes:%r' % (v,)))
        raise Unsupported('constant %r' % (v,))

    def expr_Name(self, e, fr):
        n = e.id
        if self.spec_mode and n in self.st.ghost and n in GHOST_VOCABULARY:
            # the fixed ghost vocabulary of the contracts wins over a program local that happens to have the same name
            # (a refactoring may call a local `emitted`)
            return self.st.ghost[n]
        if n in fr.locals:
            return fr.locals[n]
        f = fr
        while getattr(f, 'closure', None) is not None:
            f = f.closure
            if n in f.locals:
                return f.locals[n]
        if n in self.globals:
            return self.globals[n]
        if self.spec_mode and n in self.st.ghost:
            return self.st.ghost[n]
        if n in self.spec_funcs and self.spec_mode:
            return VBuiltin('spec:' + n)
        g = self.index.global_value(fr.qual, n)
        if g is not None:
            return g
        if n in EXC_CLASSES:
            return VClass(n)
        if n in BUILTINS:
            return VBuiltin(n)
        if n in self.spec_funcs:
            return VBuiltin('spec:' + n)
        if ('builtin_' + n) in self.spec_funcs:
            return VBuiltin(n)
        if self.segment_mode and getattr(self, 'segment_start', 0) > 0 and not self.spec_mode and n in self.assigned_locals(fr):
            # a resumed coroutine frame: a local bound before the suspension point that the contract did not describe.
            # Its value is unknown (over-approximation): an opaque datum, the same one for the rest of the path.
            v = VElem(z3.Const(sym.fresh_name('unknown_local_' + n), sym.Elem))
            fr.locals[n] = v
            return v
        if not self.spec_mode and not self.segment_mode and n in self.assigned_locals(fr):
            # a local that is assigned somewhere in the function but not on this path
            self.raise_('UnboundLocalError')
        if 'call_default' in self.spec_funcs and n in getattr(self.index, 'module_imports', ()):
            # wiring contracts (every callee an uninterpreted function of its name and arguments): a name the module imports
            return VBuiltin(n)
        raise Unsupported('unknown name %s in %s' % (n, fr.qual))

    def assigned_locals(self, fr):
        """names assigned anywhere in the function the frame belongs to"""
        try:
            rel, node = self.index.function(fr.qual)
        except KeyError:
            return set()
        out = set()
        for n in ast.walk(node):
            if isinstance(n, ast.Name) and isinstance(n.ctx, ast.Store):
                out.add(n.id)
        return out

    def expr_Tuple(self, e, fr):
        items = []
        for el in e.elts:
            if isinstance(el, ast.Starred):
                v = self.eval(el.value, fr)
                ci = self.concrete_items(v)
                if ci is None:
                    raise Unsupported('starred of symbolic length in tuple display')
                items.extend(ci)
            else:
                items.append(self.eval(el, fr))
        return VTuple(items)

    def expr_List(self, e, fr):
        items = [self.eval(el, fr) for el in e.elts]
        if not items:
            if self.spec_mode:
                return VSeq(None, None)
            return self.st.new_list(None, None)      # kind decided on first use
        k = self.kind_of(items[0])
        t = z3.Unit(self.term_of(items[0], k))
        for it in items[1:]:
            t = z3.Concat(t, z3.Unit(self.term_of(it, k)))
        if self.spec_mode:
            return VSeq(t, k)
        return self.st.new_list(t, k)

    def expr_Dict(self, e, fr):
        if e.keys:
            h = self.spec_funcs.get('dict_display')
            if h is not None:
                return h(self, [(self.eval(k, fr), self.eval(v, fr)) for k, v in zip(e.keys, e.values)])
            raise Unsupported('non-empty dict display')
        return self.st.new_dict(DictCell(None, None, None, None))     # typed on first store

    def expr_Attribute(self, e, fr):
        obj = self.eval(e.value, fr)
        return self.get_attr(obj, e.attr, fr)

    def get_attr(self, obj, name, fr=None):
        if isinstance(obj, VObj) and self.st.heap[obj.loc].cls == '__strdict__':
            return VBound(obj, name)
        if isinstance(obj, VObj):
            cell = self.st.heap[obj.loc]
            if name in cell.fields:
                return cell.fields[name]
            m = self.index.find_method(cell.cls, name)
            if m is not None:
                qual, node = m
                if self.index.is_property(node):
                    return self.call_function(VFunc(qual, node, bound=obj), [], {}, fr)
                decos = [d.id for d in node.decorator_list if isinstance(d, ast.Name)]
                if 'staticmethod' in decos:
                    return VFunc(qual, node, bound=None)
                if 'classmethod' in decos:
                    return VFunc(qual, node, bound=VClass(cell.cls))
                return VFunc(qual, node, bound=obj)
            cv = self.index.class_attr(cell.cls, name)
            if cv is not None:
                return cv
            if (cell.cls + '.' + name) in self.summaries:
                return VBound(obj, name)
            if not self.spec_mode and self.index.assigns_attr(cell.cls, name):
                # an instance attribute the class does set somewhere but the contract's pre-state does not describe: unknown
                # opaque value (over-approximation), remembered in the object so that later reads agree
                v = VElem(z3.Const(sym.fresh_name('unknown_attr_' + name), sym.Elem))
                self.st.heap[obj.loc] = cell.with_field(name, v) if hasattr(cell, 'with_field') else cell
                if not hasattr(cell, 'with_field'):
                    cell.fields[name] = v
                return v
            if 'call_default' in self.spec_funcs and not self.spec_mode and name == '__dict__':
                # the instance dictionary: an opaque object under wiring contracts
                return VElem(sym.user_func('attr:__dict__', 1)(self.as_elem(obj)))
            raise Unsupported('attribute %s of %s' % (name, cell.cls))
        if isinstance(obj, VRef):
            if obj.cls:
                kind = self.index.field_kind(obj.cls, name)
                if kind is not None:
                    fm = self.st.fieldmap(obj.cls, name, kind.sort)
                    return kind.wrap(z3.Select(fm, obj.t))
            return VBound(obj, name)
        if isinstance(obj, VFrame) or getattr(obj, 'frame_like', False):
            h = self.spec_funcs.get('frame_attr')
            if h is not None:
                r = h(self, obj, name)
                if r is not None:
                    return r
            return VBound(obj, name)
        if isinstance(obj, VElem) and 'attr_default' in self.spec_funcs and not self.spec_mode:
            return self.spec_funcs['attr_default'](self, obj, name)
        if isinstance(obj, (VList, VSeq, VDict, VSet, VTuple, VMdEntry, VElem, VAw, VString, VStr)):
            return VBound(obj, name)
        if isinstance(obj, VBuiltin) and obj.name == 'identity_dedup_dict':
            return VBound(obj, name)
        if isinstance(obj, VReal) and name in ('all', 'any'):
            return VBound(obj, name)          # numpy scalars / per-column vectors: x.all(), x.any()
        if isinstance(obj, VBuiltin):
            return VBuiltin(obj.name + '.' + name)
        if isinstance(obj, VClass):
            m = self.index.find_method(obj.name, name)
            if m is not None:
                return VFunc(m[0], m[1], bound=None)
        if isinstance(obj, VExc):
            return VBound(obj, name)
        raise Unsupported('attribute %s on %r' % (name, obj))

    def expr_Subscript(self, e, fr):
        base = self.eval(e.value, fr)
        if getattr(base, 'frame_indexer', None):
            return self.spec_funcs['frame_index'](self, base, e.slice, fr)
        if isinstance(base, VFrame) and isinstance(e.slice, ast.Slice) and 'frame_index' in self.spec_funcs:
            # frame[a:b] slices rows positionally, like .iloc[a:b]
            ix = self.spec_funcs['frame_attr'](self, base, 'iloc')
            return self.spec_funcs['frame_index'](self, ix, e.slice, fr)
        if isinstance(e.slice, ast.Slice):
            return self.get_slice(base, e.slice, fr)
        key = self.eval(e.slice, fr)
        if getattr(base, 'frame_like', False) and 'frame_getitem' in self.spec_funcs:
            return self.spec_funcs['frame_getitem'](self, base, key)
        return self.get_item(base, key)

    def get_item(self, base, key):
        if isinstance(base, VObj) and self.st.heap[base.loc].cls == '__strdict__':
            cell = self.st.heap[base.loc]
            if not isinstance(key, VStr):
                raise Unsupported('symbolic key into a string-keyed dict')
            if key.s in cell.fields:
                return cell.fields[key.s]
            self.raise_('KeyError')
        if self.spec_mode and isinstance(base, VNone):
            return NONE         # undefined sub-term of a guarded clause
        if isinstance(base, VBuiltin) and base.name == '__builtins__':
            return VBuiltin(key.s)
        if isinstance(base, VDict):
            c = self.st.heap[base.loc]
            kt = self.term_of(key, c.kkind)
            has = z3.Contains(c.keys, z3.Unit(kt))
            if self.spec_mode:
                if c.vlist is not None:
                    return VSeq(self.st.dict_list_term(base.loc, kt), c.vlist)
                return c.vkind.wrap(z3.Select(c.vals, kt))
            if self.branch(has):
                return self.dict_get_value(base, kt)
            if c.default_empty:
                # defaultdict: inserts an empty list under the key
                self.st.heap[base.loc] = c.replace(keys=z3.Concat(c.keys, z3.Unit(kt)),
                                                   vals=z3.Store(c.vals, kt, z3.Empty(z3.SeqSort(c.vlist.sort))))
                return self.dict_get_value(base, kt)
            self.raise_('KeyError')
        if isinstance(base, VTuple):
            if isinstance(key, VInt):
                k = z3.simplify(key.t)
                if z3.is_int_value(k):
                    i = k.as_long()
                    if -len(base.items) <= i < len(base.items):
                        return base.items[i]
                    if self.spec_mode:
                        return NONE         # undefined; clauses guard such uses
                    self.raise_('IndexError')
            raise Unsupported('symbolic index into a tuple display')
        if isinstance(base, (VList, VSeq)):
            t, k = self.seq_term(base)
            i = self.num(key)
            n = z3.Length(t)
            for (ht, hi, hp, he, hs) in self.st.ghost.get('_index_hints', []):
                if ht.eq(t) and hi.eq(i):
                    return k.wrap(he)
            if self.spec_mode:
                return k.wrap(t[z3.If(i < 0, n + i, i)])
            si = z3.simplify(i)
            if z3.is_int_value(si) and si.as_long() == 0:
                if not self.branch(n > 0):
                    self.raise_('IndexError')
                h, T = self.head_split(t, k)
                return k.wrap(h)
            if z3.is_int_value(si) and si.as_long() < 0:
                off = -si.as_long()
                if not self.branch(n >= off):
                    self.raise_('IndexError')
                return k.wrap(t[n - off])
            if not self.branch(z3.And(i >= 0, i < n)):
                if self.branch(z3.And(i < 0, -i <= n)):
                    return k.wrap(t[n + i])
                self.raise_('IndexError')
            return k.wrap(t[i])
        if isinstance(base, VElem):
            return VElem(sym.f_getitem(base.t, self.as_elem(key)))
        if isinstance(base, VMdEntry):
            if isinstance(key, VStr) and key.s == 'ref':
                if not self.branch(sym.f_has_ref(base.t)):
                    self.raise_('KeyError')
                return VRef(sym.f_ref_of(base.t), 'RefCounter')
            raise Unsupported('metadata key %r' % (key,))
        if isinstance(base, VRef) and 'call_default' in self.spec_funcs:
            # an object outside the model: obj[key] is the uninterpreted call obj.__getitem__(key)
            return self.spec_funcs['call_default'](self, 'method', (base.cls or '?') + '.__getitem__', base, [key], {})
        raise Unsupported('subscript of %r' % (base,))

    def get_slice(self, base, sl, fr):
        if isinstance(base, VTuple):
            def cv(e):
                if e is None:
                    return None
                v = z3.simplify(self.num(self.eval(e, fr)))
                if not z3.is_int_value(v):
                    raise Unsupported('symbolic slice of a tuple display')
                return v.as_long()
            return VTuple(base.items[cv(sl.lower):cv(sl.upper):cv(sl.step)])
        t, k = self.seq_term(base)
        n = z3.Length(t)
        lo = self.eval(sl.lower, fr) if sl.lower is not None else None
        hi = self.eval(sl.upper, fr) if sl.upper is not None else None
        if sl.step is not None:
            st = self.eval(sl.step, fr)
            if isinstance(st, VInt) and z3.is_int_value(z3.simplify(st.t)) and z3.simplify(st.t).as_long() == -1 \
                    and lo is None and hi is None:
                r = sym.rev_of(t.sort())(t)
                self.st.assume(z3.Length(r) == z3.Length(t))
                if isinstance(base, VSeq) or self.spec_mode:
                    return VSeq(r, k, getattr(base, 'pytype', 'list'))
                return self.st.new_list(r, k)
            raise Unsupported('slice step')

        def norm(v, default):
            if v is None:
                return default
            x = self.num(v)
            return z3.If(x < 0, z3.If(n + x < 0, 0, n + x), z3.If(x > n, n, x))
        a = norm(lo, z3.IntVal(0))
        b = norm(hi, n)
        res = z3.If(b > a, z3.SubSeq(t, a, b - a), z3.Empty(t.sort()))
        pytype = 'list'
        if isinstance(base, VSeq):
            return VSeq(res, k, base.pytype)
        return self.st.new_list(res, k, pytype)

    def expr_UnaryOp(self, e, fr):
        v = self.eval(e.operand, fr)
        if isinstance(e.op, ast.Not):
            return VBool(z3.Not(self.truth(v)))
        if isinstance(e.op, ast.USub):
            if isinstance(v, VInt):
                return VInt(-v.t)
            if isinstance(v, VReal):
                return VReal(-v.t)
        raise Unsupported('unary op')

    def expr_BoolOp(self, e, fr):
        if self.spec_mode:
            vals = [self.eval(x, fr) for x in e.values]
            ts = [self.truth(v) for v in vals]
            return VBool(z3.And(ts) if isinstance(e.op, ast.And) else z3.Or(ts))
        v = None
        for x in e.values:
            v = self.eval(x, fr)
            t = self.branch(self.truth(v))
            if isinstance(e.op, ast.And) and not t:
                return v
            if isinstance(e.op, ast.Or) and t:
                return v
        return v

    def expr_IfExp(self, e, fr):
        c = self.truth(self.eval(e.test, fr))
        if self.spec_mode:
            sc = z3.simplify(c)
            if z3.is_true(sc):
                return self.eval(e.body, fr)
            if z3.is_false(sc):
                return self.eval(e.orelse, fr)
            return self.ite(c, self.eval(e.body, fr), self.eval(e.orelse, fr))
        if self.branch(c):
            return self.eval(e.body, fr)
        return self.eval(e.orelse, fr)

    def expr_Compare(self, e, fr):
        left = self.eval(e.left, fr)
        if len(e.ops) == 1 and 'frame_compare' in self.spec_funcs and not isinstance(e.ops[0], (ast.Is, ast.IsNot, ast.In, ast.NotIn)):
            right = self.eval(e.comparators[0], fr)
            if getattr(left, 'frame_like', False) or getattr(right, 'frame_like', False):
                # elementwise comparison of a pandas object: the result is a pandas object, not a bool
                return self.spec_funcs['frame_compare'](self, e.ops[0], left, right)
            return VBool(self.compare(e.ops[0], left, right))
        acc = []
        for op, rhs in zip(e.ops, e.comparators):
            right = self.eval(rhs, fr)
            acc.append(self.compare(op, left, right))
            left = right
        return VBool(acc[0] if len(acc) == 1 else z3.And(acc))

    def compare(self, op, a, b):
        if isinstance(op, ast.Eq):
            return self.eq(a, b)
        if isinstance(op, ast.NotEq):
            return z3.Not(self.eq(a, b))
        if isinstance(op, ast.Is):
            return self.eq(a, b, identity=True)
        if isinstance(op, ast.IsNot):
            return z3.Not(self.eq(a, b, identity=True))
        if isinstance(op, (ast.In, ast.NotIn)):
            r = self.contains(b, a)
            return r if isinstance(op, ast.In) else z3.Not(r)
        x, y = a, b
        real = isinstance(x, VReal) or isinstance(y, VReal)
        tx, ty = self.num(x, real), self.num(y, real)
        if isinstance(op, ast.Lt):
            return tx < ty
        if isinstance(op, ast.LtE):
            return tx <= ty
        if isinstance(op, ast.Gt):
            return tx > ty
        if isinstance(op, ast.GtE):
            return tx >= ty
        raise Unsupported('comparison')

    def contains(self, container, item):
        if isinstance(container, VObj) and self.st.heap[container.loc].cls == '__strdict__':
            if not isinstance(item, VStr):
                raise Unsupported('symbolic key membership in a string-keyed dict')
            return z3.BoolVal(item.s in self.st.heap[container.loc].fields)
        if isinstance(container, VDict):
            return self.dict_has(container, item)
        if isinstance(container, VSet):
            c = self.st.heap[container.loc]
            return z3.Select(c.member, self.term_of(item, c.kkind))
        if isinstance(container, (VList, VSeq)):
            t, k = self.seq_term(container)
            return z3.Contains(t, z3.Unit(self.term_of(item, k)))
        if isinstance(container, VTuple):
            return z3.Or([self.eq(item, it) for it in container.items]) if container.items else z3.BoolVal(False)
        if isinstance(container, VMdEntry):
            if isinstance(item, VStr) and item.s == 'ref':
                return sym.f_has_ref(container.t)
        if isinstance(container, VString):
            return z3.Contains(container.t, self.string_term(item))
        raise Unsupported('membership test on %r' % (container,))

    def string_term(self, v):
        if isinstance(v, VString):
            return v.t
        if isinstance(v, VStr):
            return z3.StringVal(v.s)
        raise Unsupported('not a string: %r' % (v,))

    def expr_BinOp(self, e, fr):
        return self.binop(e.op, self.eval(e.left, fr), self.eval(e.right, fr))

    def binop(self, op, a, b):
        if isinstance(a, VFrame) or isinstance(b, VFrame) or getattr(a, 'frame_like', False) or getattr(b, 'frame_like', False):
            return self.spec_funcs['frame_binop'](self, op, a, b)
        if isinstance(a, (VString, VStr)) and isinstance(b, (VString, VStr)) and isinstance(op, ast.Add):
            if isinstance(a, VStr) and isinstance(b, VStr):
                return VStr(a.s + b.s)
            return VString(z3.Concat(self.string_term(a), self.string_term(b)))
        if isinstance(a, (VInt, VReal, VBool)) and isinstance(b, (VInt, VReal, VBool)):
            real = isinstance(a, VReal) or isinstance(b, VReal) or isinstance(op, ast.Div)
            x, y = self.num(a, real), self.num(b, real)
            W = VReal if real else VInt
            if isinstance(a, VVec) or isinstance(b, VVec):
                W = VVec
            if isinstance(op, ast.Add):
                return W(x + y)
            if isinstance(op, ast.Sub):
                return W(x - y)
            if isinstance(op, ast.Mult):
                return W(x * y)
            if isinstance(op, ast.Div):
                if getattr(self, 'total_division', False) and (isinstance(a, VReal) or isinstance(b, VReal)):
                    return W(x / y)      # numpy/pandas scalars: division by zero yields nan/inf, it does not raise
                if not self.branch(y != 0):
                    self.raise_('ZeroDivisionError')
                return VReal(x / y)
            if isinstance(op, ast.Mod) and not real:
                if not self.spec_mode and not self.branch(y != 0):
                    self.raise_('ZeroDivisionError')
                # Python's % takes the sign of the divisor; z3 mod is non-negative for y>0
                return VInt(z3.If(y > 0, x % y, -((-x) % (-y))))
            if isinstance(op, ast.FloorDiv) and not real:
                if not self.branch(y != 0):
                    self.raise_('ZeroDivisionError')
                return VInt(z3.If(y > 0, x / y, (-x) / (-y)))
            if isinstance(op, ast.Pow):
                sy = z3.simplify(y)
                if (z3.is_int_value(sy) and sy.as_long() == 2) or (z3.is_rational_value(sy) and sy.numerator_as_long() == 2 and sy.denominator_as_long() == 1):
                    return W(x * x)
            raise Unsupported('arithmetic operator %s' % type(op).__name__)
        if isinstance(op, ast.Add) and isinstance(a, (VList, VSeq)) and isinstance(b, (VList, VSeq)):
            ta, ka = self.seq_term(a)
            tb, kb = self.seq_term(b)
            if ta is None:
                ta, ka = z3.Empty(tb.sort()), kb
            if tb is None:
                tb = z3.Empty(ta.sort())
            if self.spec_mode or isinstance(a, VSeq):
                return VSeq(z3.Concat(ta, tb), ka)
            return self.st.new_list(z3.Concat(ta, tb), ka)
        if isinstance(op, ast.Sub) and isinstance(a, VSet) and isinstance(b, VSet):
            ca, cb = self.st.heap[a.loc], self.st.heap[b.loc]
            new = z3.Const(sym.fresh_name('setdiff'), ca.member.sort())
            k = z3.Const(sym.fresh_name('k'), ca.kkind.sort)
            self.st.assume(z3.ForAll([k], z3.Select(new, k) == z3.And(z3.Select(ca.member, k), z3.Not(z3.Select(cb.member, k)))))
            return self.st.new_set(SetCell(new, ca.kkind, None))
        if isinstance(op, ast.Add) and isinstance(a, VTuple) and isinstance(b, VTuple):
            return VTuple(a.items + b.items)
        if isinstance(op, ast.Add) and isinstance(a, VElem):
            return VElem(sym.f_add(a.t, self.as_elem(b)))
        if isinstance(op, ast.Mult) and isinstance(a, (VInt,)) and isinstance(b, VInt):
            return VInt(a.t * b.t)
        if isinstance(op, ast.Mult) and isinstance(a, (VList, VSeq)) and isinstance(b, VInt):
            nb = z3.simplify(b.t)
            items = self.concrete_items(a)
            if z3.is_int_value(nb) and items is not None:
                out = list(items) * max(nb.as_long(), 0)
                if not out:
                    return self.st.new_list(None, None)
                k = self.kind_of(out[0])
                t = z3.Concat(*[z3.Unit(self.term_of(x, k)) for x in out]) if len(out) > 1 else z3.Unit(self.term_of(out[0], k))
                return self.st.new_list(t, k)
        h = self.spec_funcs.get('binop_default')
        if h is not None:
            return h(self, op, a, b)
        raise Unsupported('binary operator %s on %r, %r' % (type(op).__name__, a, b))

    def expr_Lambda(self, e, fr):
        f = VFunc(fr.qual + '.<lambda>', e, bound=None)
        f.closure = fr
        return f

    def expr_Starred(self, e, fr):
        raise Unsupported('starred expression outside call')

    def expr_JoinedStr(self, e, fr):
        return VStr('<fstring>')

    def expr_ListComp(self, e, fr):
        return self.comprehension(e, fr)

    expr_GeneratorExp = expr_ListComp

    def expr_DictComp(self, e, fr):
        # {id(m): m for ml in X for m in ml}: the dictionaries of the lists of X, one entry per OBJECT (identity), in first-
        # occurrence order.  Modelled as an uninterpreted function of the flattened sequence (nothing but its name is known:
        # it is not the identity, repeated objects are dropped); only .values() / list(...) of it are supported.
        gens = e.generators
        if len(gens) == 2 and not gens[0].ifs and not gens[1].ifs and isinstance(e.value, ast.Name) \
                and isinstance(gens[1].target, ast.Name) and e.value.id == gens[1].target.id \
                and isinstance(e.key, ast.Call) and isinstance(e.key.func, ast.Name) and e.key.func.id == 'id' \
                and len(e.key.args) == 1 and isinstance(e.key.args[0], ast.Name) and e.key.args[0].id == gens[1].target.id \
                and isinstance(gens[1].iter, ast.Name) and isinstance(gens[0].target, ast.Name) and gens[1].iter.id == gens[0].target.id:
            flat = self.comprehension(ast.ListComp(elt=e.value, generators=gens), fr)
            t, k = self.seq_term(flat)
            if t is not None:
                r = VBuiltin('identity_dedup_dict')
                r.values_seq = VSeq(z3.Function('dedup_by_identity', t.sort(), t.sort())(t), k)
                return r
        raise Unsupported('expression DictComp at line %d' % e.lineno)

    def comprehension(self, e, fr):
        gens = e.generators
        # [m for ml in X for m in ml]  -> flat(X)
        if len(gens) == 2 and not gens[0].ifs and not gens[1].ifs \
                and isinstance(e.elt, ast.Name) and isinstance(gens[1].target, ast.Name) \
                and e.elt.id == gens[1].target.id and isinstance(gens[1].iter, ast.Name) \
                and isinstance(gens[0].target, ast.Name) and gens[1].iter.id == gens[0].target.id:
            src = self.eval(gens[0].iter, fr)
            if isinstance(src, VTuple):
                parts = []
                for it in src.items:
                    t, k = self.seq_term(it)
                    if k is not sym.K_MDE:
                        raise Unsupported('flattening of non-metadata lists (element kind %s)' % k)
                    parts.append(t)
                t = parts[0] if len(parts) == 1 else z3.Concat(*parts)
                return self.st.new_list(t, sym.K_MDE)
            t, k = self.seq_term(src)
            if k is sym.K_MD:
                return self.st.new_list(sym.flat(t), sym.K_MDE)
            if k is sym.K_MDE:
                # iterating the dictionaries of a *flat* list as if they were lists: each m is a dict,
                # `for m in ml` iterates its keys -- not a metadata list any more
                raise Unsupported('flattening a flat metadata list (iterates dict keys)')
            raise Unsupported('flattening comprehension over %s' % k)
        # [e for e in X if e is not None]
        if len(gens) == 1 and isinstance(e.elt, ast.Name) and isinstance(gens[0].target, ast.Name) \
                and e.elt.id == gens[0].target.id and len(gens[0].ifs) == 1:
            cond = gens[0].ifs[0]
            if isinstance(cond, ast.Compare) and isinstance(cond.ops[0], ast.IsNot) \
                    and isinstance(cond.comparators[0], ast.Constant) and cond.comparators[0].value is None:
                src = self.eval(gens[0].iter, fr)
                t, k = self.seq_term(src)
                if 'nonnull' in self.spec_funcs:
                    return self.st.new_list(self.spec_funcs['nonnull'](self, t), k)
        # [x for x in S if c(x)] over a symbolic sequence: a filter
        if len(gens) == 1 and isinstance(e.elt, ast.Name) and isinstance(gens[0].target, ast.Name) \
                and e.elt.id == gens[0].target.id and gens[0].ifs and not isinstance(gens[0].iter, (ast.List, ast.Tuple)):
            src = self.eval(gens[0].iter, fr)
            if isinstance(src, (VList, VSeq)) and self.concrete_items(src) is None:
                t, k = self.seq_term(src)
                if t is not None:
                    r = self.filter_hom(e, fr, k)(t)
                    return VTuple([]) if False else (self.st.new_list(r, k) if not isinstance(e, ast.GeneratorExp) else VSeq(r, k))
        # comprehension over a concrete sequence
        if len(gens) == 1:
            if isinstance(gens[0].iter, (ast.List, ast.Tuple)) and not any(isinstance(x, ast.Starred) for x in gens[0].iter.elts):
                # a literal display that is only iterated: its items need not share one element kind (e.g. [start, end, step]
                # with None among integers)
                src = VTuple([self.eval(x, fr) for x in gens[0].iter.elts])
            else:
                src = self.eval(gens[0].iter, fr)
            items = self.concrete_items(src)
            if items is not None:
                out = []
                sub = Frame(fr.qual, fr.locals)
                sub.closure = getattr(fr, 'closure', None)
                for it in items:
                    self.assign(gens[0].target, it, sub)
                    if all(self.branch(self.truth(self.eval(c, sub))) for c in gens[0].ifs):
                        out.append(self.eval(e.elt, sub))
                return VTuple(out) if isinstance(e, ast.GeneratorExp) else self._list_from_items(out)
        h = self.spec_funcs.get('comprehension')
        if h is not None:
            r = h(self, e, fr)
            if r is not None:
                return r
        raise Unsupported('comprehension %s' % ast.unparse(e))

    def _list_from_items(self, items):
        if not items:
            return self.st.new_list(None, None)
        k = self.kind_of(items[0])
        t = z3.Unit(self.term_of(items[0], k))
        for it in items[1:]:
            t = z3.Concat(t, z3.Unit(self.term_of(it, k)))
        return self.st.new_list(t, k)

    def expr_Yield(self, e, fr):
        v = self.eval(e.value, fr) if e.value is not None else NONE
        return self.do_yield(v, e, fr)

    def expr_Await(self, e, fr):
        v = self.eval(e.value, fr)
        return self.do_yield(v, e, fr)

    def do_yield(self, v, node, fr):
        h = self.spec_funcs.get('yield')
        if h is None:
            if self.segment_mode:
                return self.default_yield(v, node, fr)
            raise Unsupported('yield/await without a segment handler')
        return h(self, v, node, fr)

    # ------------------------------------------------------------ calls
    def expr_Call(self, e, fr):
        if isinstance(e.func, ast.Name) and e.func.id == '__local__' and self.spec_mode:
            n = e.args[0].value
            f = fr
            while f is not None:
                if n in f.locals:
                    return f.locals[n]
                f = getattr(f, 'closure', None)
            raise Unsupported('the local %s (renamed by the local-name alignment) is not bound here' % n)
        if isinstance(e.func, ast.Name) and e.func.id == 'old' and self.spec_mode:
            cur = self.st
            self.st = self.old_st
            try:
                return self.eval(e.args[0], self.old_frame if getattr(self, 'old_frame', None) else fr)
            finally:
                self.st = cur
        if isinstance(e.func, ast.Name) and e.func.id == 'super':
            return VBuiltin('super')
        if self.spec_mode and isinstance(e.func, ast.Name) and e.func.id in self.spec_funcs:
            f = VBuiltin('spec:' + e.func.id)       # specification functions win over program locals of the same name
        else:
            f = self.eval(e.func, fr)
        args = []
        for a in e.args:
            if isinstance(a, ast.Starred):
                v = self.eval(a.value, fr)
                if isinstance(v, VElem) or self.concrete_items(v) is None:
                    args.append(('*', v))
                else:
                    args.extend(self.concrete_items(v))
            else:
                args.append(self.eval(a, fr))
        kwargs = {}
        for k in e.keywords:
            if k.arg is None:
                v = self.eval(k.value, fr)
                kwargs['**'] = v
            else:
                kwargs[k.arg] = self.eval(k.value, fr)
        return self.call(f, args, kwargs, fr, e)

    def call(self, f, args, kwargs, fr, node=None):
        if isinstance(f, VBuiltin):
            if f.name.startswith('spec:'):
                return self.spec_funcs[f.name[5:]](self, *args, **kwargs)
            if f.name.startswith('super.'):
                # super().method(...) : resolve in the base classes of the class defining the current function
                name = f.name[6:]
                selfv = fr.locals.get('self')
                cls = fr.qual.split('.')[0]
                m = self.index.find_method(cls, name, skip_self=True)
                if m is None:
                    raise Unsupported('super().%s' % name)
                return self.call_function(VFunc(m[0], m[1], bound=selfv), args, kwargs, fr)
            if f.name.startswith('logger.'):
                self.dropped.add('logger.* calls (no-ops that cannot raise)')
                return NONE
            h = self.spec_funcs.get('builtin_' + f.name) or BUILTINS.get(f.name)
            if f.name == 'asyncio.gather' and 'return_exceptions' in kwargs:
                # gather(..., return_exceptions=True) turns the failure of an awaited branch into an ordinary result: the
                # exception no longer reaches whoever awaits the gather (C16: failures reach the emitter; C03: the emitter
                # must not believe that everything downstream completed)
                self.oblige('C16.awaited_failures_propagate_through_gather', z3.Not(self.truth(kwargs['return_exceptions'])),
                            kind='callsite', note='asyncio.gather called with return_exceptions')
                self.st.obligations[-1].props = ['C16', 'C03']
                kwargs = {k: v for k, v in kwargs.items() if k != 'return_exceptions'}
            if h is None and 'call_default' in self.spec_funcs:
                return self.spec_funcs['call_default'](self, 'builtin', f.name, None, args, kwargs)
            if h is None:
                raise Unsupported('builtin %s' % f.name)
            res = h(self, args, kwargs, fr)
            if f.name in ('asyncio.gather', 'gen.convert_yielded', 'gen.multi') and isinstance(res, VAw):
                # remember which lists of awaitables this future stands for (used by "what is emitted is awaited")
                cov = []
                for a in args:
                    v = a[1] if isinstance(a, tuple) else a
                    if isinstance(v, (VList, VSeq)):
                        try:
                            t, k = self.seq_term(v)
                        except Unsupported:
                            t = None
                        if t is not None:
                            cov.append(t)
                res.covers = cov
            return res
        if isinstance(f, VBound):
            return self.call_method(f.recv, f.name, args, kwargs, fr)
        if isinstance(f, VFunc):
            return self.call_function(f, args, kwargs, fr)
        if isinstance(f, VCallable):
            return self.call_opaque(f, args, kwargs)
        if isinstance(f, VElem) and 'call_default' in self.spec_funcs:
            return self.spec_funcs['call_default'](self, 'apply', 'apply', f, args, kwargs)
        if isinstance(f, VClass):
            h = self.summaries.get(f.name + '.__new__')
            if h is not None:
                return h(self, None, args, kwargs)
            if f.name in EXC_CLASSES:
                return VExc(f.name, payload=args)
            if 'call_default' in self.spec_funcs:
                return self.spec_funcs['call_default'](self, 'constructor', f.name, None, args, kwargs)
            raise Unsupported('constructor %s' % f.name)
        raise Unsupported('call of %r' % (f,))

    def call_opaque(self, f, args, kwargs):
        """User callable: uninterpreted result, may raise (fresh nondeterministic choice)."""
        flat_args = []
        for a in args:
            if isinstance(a, tuple) and a[0] == '*':
                flat_args.append(self.as_elem(a[1]))
            else:
                flat_args.append(self.as_elem(a))
        for k in sorted(kwargs):
            if k == '**':
                flat_args.append(self.as_elem(kwargs[k]))
            else:
                flat_args.append(self.as_elem(kwargs[k]))
        n_ev = len([e for e in self.st.events if e['kind'] == 'opaque'])
        ev = {'kind': 'opaque', 'name': f.name, 'args': flat_args, 'raised': False, 'seq': n_ev}
        if f.may_raise and not self.spec_mode:
            rb = z3.Bool(sym.fresh_name('raises_%s' % f.name))
            if self.branch(rb):
                ev['raised'] = True
                self.st.events.append(ev)
                raise PyRaise(VExc('UserError', payload=f.name))
        rs = f.result_kind.sort if f.result_kind else sym.Elem
        fn = sym.user_func(f.name, len(flat_args), rs)
        res = fn(*flat_args)
        ev['result'] = res
        if not self.spec_mode:
            self.st.events.append(ev)
        return (f.result_kind or sym.K_ELEM).wrap(res)

    def call_function(self, f, args, kwargs, fr):
        qual = f.qual
        h = self.summaries.get(qual)
        if h is not None and not getattr(self, 'verifying', None) == ('body', qual, id(fr)):
            return h(self, f.bound, args, kwargs)
        if isinstance(kwargs.get('**'), VStr):
            # the caller passes its own (unknown) **kwargs on: a summary sees the marker, an inlined body does not need it
            kwargs = {k: v for k, v in kwargs.items() if k != '**'}
        if qual in self.inline or '<locals>' in qual or '<lambda>' in qual:
            return self.run_function(f, args, kwargs)
        h = self.spec_funcs.get('call_default')
        base = getattr(self.index, 'baseline', None)
        new_helper = (base is not None and f.node is not None and qual not in base.functions and not _is_coroutine_def(f.node))
        if h is not None and not new_helper:
            return h(self, 'function', qual, f.bound, args, kwargs)
        # (a function the sources the contracts were written against do not have is a freshly extracted helper: the Herbrand
        # summaries name the callees of the ORIGINAL text, so the helper's body is read as part of the caller)
        if f.node is not None and not _is_coroutine_def(f.node) and getattr(self, '_inline_depth', 0) < 4:
            # a helper of the repository that has no contract of its own (e.g. freshly extracted by a refactoring): its body is
            # part of the caller's verified text (exact, no abstraction); reported under `dropped`/inlined in the evidence
            self.dropped.add('inlined helper without a contract of its own: ' + qual)
            self._inline_depth = getattr(self, '_inline_depth', 0) + 1
            try:
                return self.run_function(f, args, kwargs)
            finally:
                self._inline_depth -= 1
        if f.node is not None and isinstance(f.node, ast.AsyncFunctionDef):
            # calling a native coroutine function runs NOTHING of its body: it only creates the coroutine object.  The caller is
            # checked with exactly that meaning (whatever the body would retain, store or emit has not happened when the call
            # returns); the body itself has no contract, which is reported as a checker error next to whatever the caller's clauses
            # say -- a pass of the caller alone would say nothing about the new coroutine.
            self.unverified_units = getattr(self, 'unverified_units', set())
            self.unverified_units.add(qual)
            a = VAw(z3.Const(sym.fresh_name('coroutine_object_of_' + qual.replace('.', '_')), sym.Aw))
            a.bare_coroutine = True
            return a
        raise Unsupported('call of %s without a contract (and not marked inline)' % qual)

    def bind_args(self, node, bound, args, kwargs, qual):
        a = node.args
        params = [p.arg for p in a.posonlyargs + a.args]
        actual = list(args)
        if bound is not None:
            actual = [bound] + actual
        loc = {}
        if any(isinstance(x, tuple) for x in actual):
            raise Unsupported('symbolic *args into an inlined function')
        defaults = [None] * (len(params) - len(a.defaults)) + list(a.defaults)
        for i, p in enumerate(params):
            if i < len(actual):
                loc[p] = actual[i]
            elif p in kwargs:
                loc[p] = kwargs.pop(p)
            elif defaults[i] is not None:
                loc[p] = self.eval(defaults[i], Frame(qual))
            else:
                raise Unsupported('missing argument %s for %s' % (p, qual))
        if len(actual) > len(params):
            if a.vararg is None:
                raise Unsupported('too many arguments for %s' % qual)
            loc[a.vararg.arg] = VTuple(actual[len(params):])
        elif a.vararg is not None:
            loc[a.vararg.arg] = VTuple([])
        for p, d in zip(a.kwonlyargs, a.kw_defaults):
            if p.arg in kwargs:
                loc[p.arg] = kwargs.pop(p.arg)
            elif d is not None:
                loc[p.arg] = self.eval(d, Frame(qual))
        if kwargs:
            if a.kwarg is None:
                raise Unsupported('unexpected keyword arguments %s for %s' % (list(kwargs), qual))
            loc[a.kwarg.arg] = VStr('__kwargs__')
        elif a.kwarg is not None:
            loc[a.kwarg.arg] = VStr('__kwargs__')
        return loc

    def run_function(self, f, args, kwargs, frame_out=None):
        node = f.node
        loc = self.bind_args(node, f.bound, args, dict(kwargs), f.qual)
        fr = Frame(f.qual, loc)
        fr.closure = getattr(f, 'closure', None)
        if frame_out is not None:
            frame_out.append(fr)
        if isinstance(node, ast.Lambda):
            return self.eval(node.body, fr)
        from .repoindex import find_loops
        fr.loop_ids = {id(n): i for i, n in enumerate(find_loops(node))}
        for d in node.decorator_list:
            self.dropped.add('decorator @' + ast.unparse(d))
        try:
            self.exec_block(node.body, fr)
        except ReturnSignal as r:
            return r.value
        except PyRaise as e:
            if not hasattr(e, 'frame'):
                e.frame = fr
            raise
        except SegmentYield as e:
            if not hasattr(e, 'frame'):
                e.frame = fr
            raise
        return NONE

    # ------------------------------------------------------------ methods of containers
    def call_method(self, recv, name, args, kwargs, fr):
        if isinstance(recv, VReal) and name in ('all', 'any') and not args and not kwargs:
            nz = recv.t != 0
            if not isinstance(recv, VVec):
                return VBool(nz)               # a numpy scalar: truth of the number
            # a per-column vector observed at one arbitrary column: all() implies this column, this column implies any()
            b = z3.Bool(sym.fresh_name('columns_' + name))
            self.st.assume(z3.Implies(b, nz) if name == 'all' else z3.Implies(nz, b))
            return VBool(b)
        if isinstance(recv, VBuiltin) and recv.name == 'identity_dedup_dict' and name == 'values' and not args:
            return recv.values_seq
        if isinstance(recv, VFrame) or getattr(recv, 'frame_like', False):
            return self.spec_funcs['frame_method'](self, recv, name, args, kwargs)
        if isinstance(recv, VObj) and self.st.heap[recv.loc].cls == '__strdict__':
            if name == 'keys':
                return recv
            if name == 'update':
                cell = self.st.heap[recv.loc]
                if args:
                    src = args[0]
                    if not (isinstance(src, VObj) and self.st.heap[src.loc].cls == '__strdict__'):
                        raise Unsupported('dict.update with this argument')
                    for k, v in self.st.heap[src.loc].fields.items():
                        cell = cell.with_field(k, v)
                for k, v in kwargs.items():
                    if k != '**':
                        cell = cell.with_field(k, v)
                self.st.heap[recv.loc] = cell          # in place: every alias of the dict sees it
                return NONE
            if name == 'copy':
                return self.st.new_obj('__strdict__', dict(self.st.heap[recv.loc].fields))
            raise Unsupported('method %s of a string-keyed dict' % name)
        if isinstance(recv, VObj):
            h = self.summaries.get(self.st.heap[recv.loc].cls + '.' + name)
            if h is not None:
                return h(self, recv, args, kwargs)
        if isinstance(recv, VList):
            return self.list_method(recv, name, args, kwargs)
        if isinstance(recv, VDict):
            return self.dict_method(recv, name, args, kwargs)
        if isinstance(recv, VSet):
            return self.set_method(recv, name, args, kwargs)
        if isinstance(recv, VRef):
            key = (recv.cls or '?') + '.' + name
            h = self.summaries.get(key) or self.summaries.get('*.' + name)
            if h is None and 'call_default' in self.spec_funcs:
                return self.spec_funcs['call_default'](self, 'method', key, recv, args, kwargs)
            if h is None:
                bad = []
                try:
                    bad = self.index.incompatible_overrides((recv.cls or '').rstrip('?'), name, len(args), set(kwargs))
                except Exception:
                    bad = []
                if bad:
                    # the receiver is an arbitrary node of that class or of a subclass: the call must be acceptable to every
                    # override (otherwise it raises TypeError for some graphs, typically after part of an edit has been done)
                    self.oblige('call_on_an_arbitrary_node_is_accepted_by_every_override_of_' + name, False, kind='callsite',
                                note='%s(...) with %d positional and keywords %s is not accepted by %s'
                                     % (key, len(args), sorted(kwargs), ', '.join(bad)))
                    self.st.obligations[-1].props = ['C15', 'C01']
                    raise PathEnd()
                raise Unsupported('method %s on symbolic reference' % key)
            return h(self, recv, args, kwargs)
        if isinstance(recv, VSeq):
            if name == 'index':
                return self.seq_index(recv, args[0])
            if name == 'copy':
                return recv
        if isinstance(recv, (VString, VStr)):
            h = self.summaries.get('str.' + name)
            if h is not None:
                return h(self, recv, args, kwargs)
        if isinstance(recv, VAw):
            h = self.summaries.get('Aw.' + name)
            if h is not None:
                return h(self, recv, args, kwargs)
        if isinstance(recv, VMdEntry) and name == 'get':
            pass
        if isinstance(recv, (VElem, VAw) if getattr(self, '_in_filter', False) else VElem) and 'call_default' in self.spec_funcs:
            return self.spec_funcs['call_default'](self, 'method', name, recv, args, kwargs)
        raise Unsupported('method %s on %r' % (name, recv))

    def filter_hom(self, e, fr, kind):
        """[x for x in S if c1(x) if c2(x) ...] over a symbolic sequence: the homomorphism  keep(S)  with
        keep([]) = [], keep([e]) = [e] if c(e) else [], keep(a ++ b) = keep(a) ++ keep(b).  The condition is evaluated as a pure
        expression of the element; calls it makes on the element that the contract does not describe are uninterpreted
        predicates of the element (deterministic, side-effect free: the assumption under which a filter is a function at all)."""
        cache = self.__dict__.setdefault('_filter_homs', {})
        if id(e) in cache:
            return cache[id(e)]
        gen0 = e.generators[0]
        name = gen0.target.id
        I = self

        def cond(term):
            sub = Frame(fr.qual, dict(fr.locals))
            sub.closure = getattr(fr, 'closure', None)
            sub.locals[name] = kind.wrap(term)
            saved = (I.spec_mode, I.spec_funcs, getattr(I, '_in_filter', False))
            sf = dict(I.spec_funcs)

            def pure_default(I2, kind_, nm, recv, args, kwargs):
                ts = [x.t for x in ([recv] if recv is not None else []) + list(args) if hasattr(x, 't') and x.t is not None]
                if len(ts) != 1 or kwargs:
                    raise Unsupported('call %s inside a filter condition' % nm)
                return VBool(z3.Function('pure:' + nm, ts[0].sort(), z3.BoolSort())(ts[0]))
            sf['call_default'] = pure_default
            I.spec_mode, I.spec_funcs, I._in_filter = True, sf, True
            try:
                return z3.And([I.truth(I.eval(c, sub)) for c in gen0.ifs])
            finally:
                I.spec_mode, I.spec_funcs, I._in_filter = saved
        ssort = z3.SeqSort(kind.sort)
        h = sym.SpecFun(sym.fresh_name('keep'), [], ssort, ssort, zero=lambda: z3.Empty(ssort),
                        one=lambda x: z3.If(cond(x), z3.Unit(x), z3.Empty(ssort)), plus=lambda a, b: z3.Concat(a, b))
        cache[id(e)] = h
        return h

    def seq_index(self, recv, item):
        t, k = self.seq_term(recv)
        it = self.term_of(item, k)
        if self.spec_mode:
            return VInt(z3.IndexOf(t, z3.Unit(it), 0))
        if not self.branch(z3.Contains(t, z3.Unit(it))):
            self.raise_('ValueError')
        return VInt(z3.IndexOf(t, z3.Unit(it), 0))

    def list_method(self, recv, name, args, kwargs):
        c = self.st.list_cell(recv.loc)

        def ensure_kind(v):
            nonlocal c
            if c.kind is None:
                k = self.kind_of(v)
                self.st.heap[recv.loc] = ListCell(z3.Empty(z3.SeqSort(k.sort)), k, c.pytype, c.maxlen)
                c = self.st.list_cell(recv.loc)
        if name == 'append':
            ensure_kind(args[0])
            try:
                xt = self.term_of(args[0], c.kind)
            except Unsupported as e:
                # a value of another type is put into a container the contract types homogeneously: reported as a
                # failed obligation (not a checker error); the list content is havocked afterwards
                self.oblige('container_elements_have_the_contracted_type', False, kind='callsite',
                            note='append of %r into a list of %s: %s' % (args[0], c.kind, e))
                self.st.obligations[-1].props = list(getattr(self, 'type_obligation_props', ['C03', 'C10', 'C01']))
                self.st.set_list_term(recv.loc, z3.Const(sym.fresh_name('mixed'), c.term.sort()))
                return NONE
            if c.maxlen is not None:
                n = z3.Length(c.term)
                if self.branch(n >= c.maxlen):
                    h = z3.Const(sym.fresh_name('hd'), c.kind.sort)
                    tl = z3.Const(sym.fresh_name('tl'), c.term.sort())
                    self.st.assume(c.term == z3.Concat(z3.Unit(h), tl))
                    self.st.set_list_term(recv.loc, z3.Concat(tl, z3.Unit(xt)))
                    return NONE
            self.st.set_list_term(recv.loc, z3.Concat(c.term, z3.Unit(xt)))
            return NONE
        if name == 'extend':
            if c.kind is None:
                t, k = self.seq_term(args[0])
                self.st.heap[recv.loc] = ListCell(z3.Empty(t.sort()), k, c.pytype, c.maxlen)
                c = self.st.list_cell(recv.loc)
            t, k = self.seq_term(args[0])
            if t is None:
                return NONE
            if k is not c.kind:
                raise Unsupported('extend with sequence of different element kind (%s into %s)' % (k, c.kind))
            if c.maxlen is not None:
                raise Unsupported('extend on bounded deque')
            self.st.set_list_term(recv.loc, z3.Concat(c.term, t))
            return NONE
        if name in ('popleft', 'pop'):
            if c.kind is None:
                self.raise_('IndexError')
            n = z3.Length(c.term)
            if not self.branch(n > 0):
                self.raise_('IndexError')
            first = name == 'popleft' or (args and z3.is_int_value(z3.simplify(self.num(args[0]))) and z3.simplify(self.num(args[0])).as_long() == 0)
            if args and not first:
                a0 = z3.simplify(self.num(args[0]))
                if not (z3.is_int_value(a0) and a0.as_long() == -1):
                    for (ht, hi, hp, he, hs) in self.st.ghost.get('_index_hints', []):
                        if ht.eq(c.term) and hi.eq(self.num(args[0])):
                            self.st.set_list_term(recv.loc, z3.Concat(hp, hs))
                            return c.kind.wrap(he)
                    raise Unsupported('pop(i)')
            if first:
                h, tl = self.head_split(c.term, c.kind)
            else:
                h = z3.Const(sym.fresh_name('hd'), c.kind.sort)
                tl = z3.Const(sym.fresh_name('tl'), c.term.sort())
                self.st.assume(c.term == z3.Concat(tl, z3.Unit(h)))
            self.st.set_list_term(recv.loc, tl)
            return c.kind.wrap(h)
        if name == 'clear':
            if c.kind is not None:
                self.st.set_list_term(recv.loc, z3.Empty(c.term.sort()))
            return NONE
        if name == 'insert':
            pos = z3.simplify(self.num(args[0]))
            if z3.is_int_value(pos) and pos.as_long() == 0:
                ensure_kind(args[1])
                self.st.set_list_term(recv.loc, z3.Concat(z3.Unit(self.term_of(args[1], c.kind)), c.term))
                return NONE
            raise Unsupported('insert at non-zero position')
        if name == 'remove':
            if c.kind is None:
                self.raise_('ValueError')
            xt = self.term_of(args[0], c.kind)
            if not self.branch(z3.Contains(c.term, z3.Unit(xt))):
                self.raise_('ValueError')
            for (hk, hkey, ha, hb) in self.st.ghost.get('_split_hints', []):
                if hk.eq(c.term) and hkey.eq(xt):
                    self.st.set_list_term(recv.loc, z3.Concat(ha, hb))
                    return NONE
            a = z3.Const(sym.fresh_name('rmA'), c.term.sort())
            b = z3.Const(sym.fresh_name('rmB'), c.term.sort())
            self.st.assume(c.term == z3.Concat(a, z3.Unit(xt), b))
            self.st.assume(z3.Not(z3.Contains(a, z3.Unit(xt))))
            self.st.set_list_term(recv.loc, z3.Concat(a, b))
            return NONE
        if name == 'index':
            return self.seq_index(VSeq(c.term, c.kind), args[0])
        if name == 'copy':
            return self.st.new_list(c.term, c.kind, c.pytype)
        raise Unsupported('list method %s' % name)

    def dict_method(self, recv, name, args, kwargs):
        c = self.st.heap[recv.loc]
        if c.kkind is None:
            if name in ('pop', 'get'):
                if len(args) > 1:
                    return args[1]
                if name == 'get':
                    return NONE
                self.raise_('KeyError')
            if name == 'values' or name == 'keys':
                return VSeq(None, None)
        if name == 'pop':
            kt = self.term_of(args[0], c.kkind)
            has = z3.Contains(c.keys, z3.Unit(kt))
            if self.branch(has):
                v = c.vkind.wrap(z3.Select(c.vals, kt)) if c.vlist is None else VSeq(z3.Select(c.vals, kt), c.vlist)
                self.dict_remove(recv, kt)
                return v
            if len(args) > 1:
                return args[1]
            self.raise_('KeyError')
        if name == 'get':
            kt = self.term_of(args[0], c.kkind)
            has = z3.Contains(c.keys, z3.Unit(kt))
            if self.branch(has):
                return self.dict_get_value(recv, kt)
            return args[1] if len(args) > 1 else NONE
        if name == 'setdefault' and len(args) == 2 and not kwargs:
            # d.setdefault(k, v): d[k] if k is present, else d[k] = v (appended at the end) and v
            if c.kkind is not None:
                kt = self.term_of(args[0], c.kkind)
                if self.branch(z3.Contains(c.keys, z3.Unit(kt))):
                    return self.dict_get_value(recv, kt)
            self.set_item(recv, args[0], args[1])
            return args[1]
        if name == 'values':
            h = self.spec_funcs.get('dict_values')
            if h is None:
                raise Unsupported('dict.values() without a model')
            return h(self, recv)
        if name == 'keys':
            return VSeq(c.keys, c.kkind)
        raise Unsupported('dict method %s' % name)

    def set_method(self, recv, name, args, kwargs):
        c = self.st.heap[recv.loc]
        if name == 'remove':
            kt = self.term_of(args[0], c.kkind)
            if not self.branch(z3.Select(c.member, kt)):
                self.raise_('KeyError')
            self.st.heap[recv.loc] = c.replace(member=z3.Store(c.member, kt, False),
                                               card=None if c.card is None else c.card - 1)
            return NONE
        if name == 'add':
            kt = self.term_of(args[0], c.kkind)
            was = z3.Select(c.member, kt)
            self.st.heap[recv.loc] = c.replace(member=z3.Store(c.member, kt, True),
                                               card=None if c.card is None else z3.If(was, c.card, c.card + 1))
            return NONE
        if name == 'update':
            items = self.concrete_items(args[0])
            if items is None:
                raise Unsupported('set.update with symbolic sequence')
            for it in items:
                self.set_method(recv, 'add', [it], {})
            return NONE
        if name == 'discard':
            kt = self.term_of(args[0], c.kkind)
            was = z3.Select(c.member, kt)
            self.st.heap[recv.loc] = c.replace(member=z3.Store(c.member, kt, False),
                                               card=None if c.card is None else z3.If(was, c.card - 1, c.card))
            return NONE
        raise Unsupported('set method %s' % name)

    # ------------------------------------------------------------ specification expressions
    def eval_spec(self, text, fr, old_st=None, old_frame=None, loop_text=False):
        tree = ast.parse(text.strip(), mode='eval').body
        lm = self.index.local_map(fr.qual)
        if lm:
            # the contract names locals as in the baseline source; the source under test may have renamed them.
            # `result` in a clause is the return value, not a local (in loop invariants it is the local)
            from .localmap import rename_spec
            # names of specification functions and ghosts are vocabulary of the contract, never program locals
            keep = set(self.spec_funcs) | set(k for k in self.st.ghost if isinstance(k, str))
            if not loop_text:
                keep.add('result')
            tree = rename_spec(tree, lm, keep=keep)
        saved = (self.old_st, getattr(self, 'old_frame', None))
        self.old_st = old_st
        self.old_frame = old_frame
        self.spec_mode += 1
        try:
            return self.eval(tree, fr)
        finally:
            self.spec_mode -= 1
            self.old_st, self.old_frame = saved

    def spec_bool(self, text, fr, old_st=None, old_frame=None, loop_text=False):
        return self.truth(self.eval_spec(text, fr, old_st, old_frame, loop_text=loop_text))


def _load(t):
    import copy
    t2 = copy.deepcopy(t)
    for n in ast.walk(t2):
        if hasattr(n, 'ctx'):
            n.ctx = ast.Load()
    return t2


def _concat_parts(t):
    if z3.is_app_of(t, z3.Z3_OP_SEQ_EMPTY):
        return []
    if z3.is_app_of(t, z3.Z3_OP_SEQ_UNIT):
        return [t]
    if z3.is_app_of(t, z3.Z3_OP_SEQ_CONCAT):
        out = []
        for c in t.children():
            p = _concat_parts(c)
            if p is None:
                return None
            out.extend(p)
        return out
    return None


EXC_CLASSES = {'ValueError', 'KeyError', 'IndexError', 'TypeError', 'RuntimeError', 'StopIteration',
               'AssertionError', 'Exception', 'ZeroDivisionError', 'AttributeError', 'NotImplementedError', 'OSError',
               'UnicodeDecodeError', 'TimeoutError'}


# ---------------------------------------------------------------- builtins
def _b_len(I, args, kwargs, fr):
    v = args[0]
    if isinstance(v, VFrame) or getattr(v, 'frame_like', False):
        return I.spec_funcs['frame_len'](I, v)
    if isinstance(v, VTuple):
        return VInt(len(v.items))
    if isinstance(v, VDict):
        return VInt(z3.Length(I.st.heap[v.loc].keys))
    if isinstance(v, VSet):
        c = I.st.heap[v.loc]
        if c.card is None:
            raise Unsupported('len of set without cardinality')
        return VInt(c.card)
    if isinstance(v, VString):
        return VInt(z3.Length(v.t))
    if isinstance(v, VStr):
        return VInt(len(v.s))
    if isinstance(v, VList) and I.st.list_cell(v.loc).kind is None:
        return VInt(0)
    if isinstance(v, VRef):
        h = I.summaries.get('len:' + (v.cls or '?'))
        if h:
            return h(I, v, [], {})
    t, k = I.seq_term(v)
    if t is None:
        return VInt(0)          # a container that has never held anything (untyped empty)
    return VInt(z3.Length(t))


def _b_tuple(I, args, kwargs, fr):
    if not args:
        return VTuple([])
    v = args[0]
    if isinstance(v, VTuple):
        return v
    if isinstance(v, VList) and I.st.list_cell(v.loc).kind is None:
        return VElem(sym.f_tup(z3.Empty(sym.SeqElemS)))
    ci = I.concrete_items(v) if I.spec_mode == 0 and False else None
    t, k = I.seq_term(v)
    if k is sym.K_ELEM:
        return VElem(sym.f_tup(t))
    return VSeq(t, k, 'tuple')


def _b_list(I, args, kwargs, fr):
    if not args:
        return I.st.new_list(None, None)
    v = args[0]
    if isinstance(v, VRef):
        h = I.summaries.get('list:' + (v.cls or '?'))
        if h:
            return h(I, v, [], {})
    if isinstance(v, VList) and I.st.list_cell(v.loc).kind is None:
        return I.st.new_list(None, None)
    if isinstance(v, VTuple):
        return I._list_from_items(v.items)
    t, k = I.seq_term(v)
    if I.spec_mode:
        return VSeq(t, k)
    return I.st.new_list(t, k)


def self_list_pytype(I, v):
    return I.st.list_cell(v.loc).pytype


def _b_isinstance(I, args, kwargs, fr):
    v, c = args
    names = [x.name for x in c.items] if isinstance(c, VTuple) else [c.name]
    res = False
    for n in names:
        if n == 'list':
            res = res or isinstance(v, VList) or (isinstance(v, VSeq) and v.pytype == 'list')
        elif n == 'tuple':
            res = res or isinstance(v, VTuple) or (isinstance(v, VSeq) and v.pytype == 'tuple')
        elif n == 'str':
            res = res or isinstance(v, (VStr, VString))
        elif n == 'int':
            res = res or isinstance(v, VInt)
        elif n == 'dict':
            res = res or isinstance(v, (VDict, VMdEntry))
        elif n == 'Stream':
            res = res or isinstance(v, (VObj, VRef))
        elif n == 'deque':
            res = res or (isinstance(v, VList) and self_list_pytype(I, v) == 'deque')
        elif n == 'Number':
            res = res or (isinstance(v, (VInt, VReal)) and not isinstance(v, VVec))
        elif n == 'Iterable':
            res = res or isinstance(v, (VList, VSeq, VTuple))
        else:
            h = I.spec_funcs.get('isinstance')
            if h is None:
                raise Unsupported('isinstance(..., %s)' % n)
            r = h(I, v, n)
            if not isinstance(r, bool):
                return VBool(r)
            res = res or r
    return VBool(res)


def _b_callable(I, args, kwargs, fr):
    v = args[0]
    if isinstance(v, (VCallable, VFunc, VBound, VBuiltin)):
        return VBool(True)
    if isinstance(v, VElem):
        h = I.spec_funcs.get('callable_elem')
        if h:
            return VBool(h(I, v))
    return VBool(False)


def _b_max(I, args, kwargs, fr):
    a, b = args
    real = isinstance(a, VReal) or isinstance(b, VReal)
    x, y = I.num(a, real), I.num(b, real)
    return (VReal if real else VInt)(z3.If(x >= y, x, y))


def _b_min(I, args, kwargs, fr):
    a, b = args
    real = isinstance(a, VReal) or isinstance(b, VReal)
    x, y = I.num(a, real), I.num(b, real)
    return (VReal if real else VInt)(z3.If(x <= y, x, y))


def _b_type(I, args, kwargs, fr):
    v = args[0]
    h = I.spec_funcs.get('type_default')
    if h:
        r = h(I, v)
        if r is not None:
            return r
    if isinstance(v, VList) or (isinstance(v, VSeq) and v.pytype == 'list'):
        return VClass('list')
    if isinstance(v, VNone):
        return VClass('NoneType')
    if isinstance(v, VAw):
        return VClass('Future')
    if isinstance(v, VTuple):
        return VClass('tuple')
    return VClass('object')


def _b_all(I, args, kwargs, fr):
    v = args[0]
    if isinstance(v, VTuple):
        for it in v.items:
            if not I.branch(I.truth(it)):
                return VBool(False)
        return VBool(True)
    h = I.spec_funcs.get('all')
    if h:
        return h(I, v)
    raise Unsupported('all() over %r' % (v,))


def _b_any(I, args, kwargs, fr):
    v = args[0]
    if isinstance(v, VTuple):
        for it in v.items:
            if I.branch(I.truth(it)):
                return VBool(True)
        return VBool(False)
    raise Unsupported('any() over %r' % (v,))


def _b_range(I, args, kwargs, fr):
    vals = [z3.simplify(I.num(a)) for a in args]
    if all(z3.is_int_value(v) for v in vals):
        return VTuple([VInt(i) for i in range(*[v.as_long() for v in vals])])
    return VTuple([]) if False else _symbolic_range(I, vals)


def _symbolic_range(I, vals):
    r = VBuiltin('range')
    r.bounds = vals
    return r


def _b_reversed(I, args, kwargs, fr):
    t, k = I.seq_term(args[0])
    r = sym.rev_of(t.sort())(t)
    I.st.assume(z3.Length(r) == z3.Length(t))
    return I.st.new_list(r, k)


def _b_iter(I, args, kwargs, fr):
    v = args[0]
    if isinstance(v, (VList, VSeq)):
        t, k = I.seq_term(v)
        if t is None:
            return I.st.new_list(None, None)
        return I.st.new_list(t, k)          # an iterator: its own cursor over the items
    if isinstance(v, VTuple):
        return I._list_from_items(v.items)
    h = I.spec_funcs.get('builtin_iter')
    if h:
        return h(I, args, kwargs, fr)
    raise Unsupported('iter() of %r' % (v,))


def _flatten_lists(I, seqs, init=None):
    """concatenation of a sequence of lists (the common ways of writing `[m for ml in X for m in ml]`)"""
    items = I.concrete_items(seqs)
    if items is not None:
        parts = ([init] if init is not None else []) + list(items)
        terms, kind = [], None
        for it in parts:
            t, k = I.seq_term(it)
            if t is None:
                continue
            if kind is not None and k is not kind:
                raise Unsupported('concatenation of lists of different element kinds')
            kind = k
            terms.append(t)
        if not terms:
            return I.st.new_list(None, None)
        return I.st.new_list(terms[0] if len(terms) == 1 else z3.Concat(*terms), kind)
    t, k = I.seq_term(seqs)
    if k is sym.K_MD and init is None:
        return I.st.new_list(sym.flat(t), sym.K_MDE)
    raise Unsupported('flattening of %r' % (seqs,))


def _b_reduce(I, args, kwargs, fr):
    f, seqs = args[0], args[1]
    init = args[2] if len(args) > 2 else None
    if isinstance(f, VBuiltin) and f.name in ('operator.iconcat', 'operator.add', 'operator.concat'):
        if f.name == 'operator.iconcat' and init is None:
            # iconcat extends its first operand IN PLACE; without an initial value that operand is the first list of the
            # iterated sequence -- an existing object that other holders (the emitter, sibling nodes, the user) still refer to
            I.oblige('C10.a_list_received_from_elsewhere_is_not_extended_in_place', z3.BoolVal(False), kind='callsite',
                     note='functools.reduce(operator.iconcat, X) without an initial list extends X[0] in place')
            I.st.obligations[-1].props = ['C10', 'C05', 'C04']
        return _flatten_lists(I, seqs, init)
    raise Unsupported('functools.reduce with this function')


def _b_chain_from_iterable(I, args, kwargs, fr):
    return _flatten_lists(I, args[0])


def _b_not_impl(name):
    def f(I, args, kwargs, fr):
        h = I.spec_funcs.get('builtin_' + name)
        if h:
            return h(I, args, kwargs, fr)
        raise Unsupported('builtin %s' % name)
    return f


def _b_float(I, args, kwargs, fr):
    v = args[0]
    return VReal(I.num(v, True))


def _b_int(I, args, kwargs, fr):
    v = args[0]
    if isinstance(v, VInt):
        return v
    raise Unsupported('int() of %r' % (v,))


def _b_bool(I, args, kwargs, fr):
    return VBool(I.truth(args[0]))


def _b_deque(I, args, kwargs, fr):
    maxlen = kwargs.get('maxlen')
    ml = I.num(maxlen) if maxlen is not None and not isinstance(maxlen, VNone) else None
    if args:
        v = args[0]
        if isinstance(v, VList) and I.st.list_cell(v.loc).kind is None:
            return I.st.new_list(None, None, 'deque', ml)
        t, k = I.seq_term(v)
        return I.st.new_list(t, k, 'deque', ml)
    return I.st.new_list(None, None, 'deque', ml)


GHOST_VOCABULARY = {'emitted', 'emitted_md', 'emit_rets', 'delta', 'sleeps', 'timers', 'cancelled', 'callbacks', 'notified', 'waits',
                    'q_put', 'q_get', 'gathered', 'created', 'calls', 'rets'}


def _is_coroutine_def(node):
    if isinstance(node, ast.AsyncFunctionDef):
        return True
    for n in ast.walk(node):
        if isinstance(n, (ast.Yield, ast.YieldFrom, ast.Await)):
            return True
    return False


def _b_dict(I, args, kwargs, fr):
    """dict(d): a shallow copy (supported for the string-keyed dict objects and for empty dict())"""
    if not args and not kwargs:
        return I.st.new_obj('__strdict__', {})
    if len(args) == 1 and not kwargs and isinstance(args[0], VObj) and I.st.heap[args[0].loc].cls == '__strdict__':
        return I.st.new_obj('__strdict__', dict(I.st.heap[args[0].loc].fields))
    raise Unsupported('dict(...) of this argument')


def _b_set(I, args, kwargs, fr):
    """set(seq): membership is `contains`; the cardinality is not tracked (None) unless the sequence is empty"""
    if not args:
        raise Unsupported('set() without an element type')
    v = args[0]
    if isinstance(v, VSet):
        c = I.st.heap[v.loc]
        return I.st.new_set(SetCell(c.member, c.kkind, c.card))
    t, k = I.seq_term(v)
    if t is None:
        raise Unsupported('set() of an untyped empty sequence')
    key = z3.Const(sym.fresh_name('setk'), k.sort)
    member = z3.Lambda([key], z3.Contains(t, z3.Unit(key)))
    return I.st.new_set(SetCell(member, k, None))


def _b_getattr(I, args, kwargs, fr):
    obj, name = args[0], args[1]
    try:
        return I.get_attr(obj, name.s, fr)
    except Unsupported:
        if len(args) > 2:
            return args[2]
        raise


BUILTINS = {
    'len': _b_len, 'tuple': _b_tuple, 'list': _b_list, 'isinstance': _b_isinstance,
    'callable': _b_callable, 'max': _b_max, 'min': _b_min, 'type': _b_type, 'all': _b_all,
    'any': _b_any, 'range': _b_range, 'float': _b_float, 'int': _b_int, 'bool': _b_bool,
    'deque': _b_deque, 'getattr': _b_getattr, 'reversed': _b_reversed,
    'next': _b_not_impl('next'), 'chain': _b_not_impl('chain'), 'sorted': _b_not_impl('sorted'),
    'set': _b_set, 'dict': _b_dict, 'enumerate': _b_not_impl('enumerate'),
    'time': _b_not_impl('time'), 'zip': _b_not_impl('zip'), 'sum': _b_not_impl('sum'),
    'str': _b_not_impl('str'), 'iter': _b_iter, 'id': _b_not_impl('id'),
    'functools.reduce': _b_reduce, 'itertools.chain.from_iterable': _b_chain_from_iterable,
    'hasattr': _b_not_impl('hasattr'), 'super': None, '__builtins__': None,
    'ValueError': None, 'KeyError': None, 'IndexError': None, 'TypeError': None,
    'RuntimeError': None, 'StopIteration': None, 'Exception': None, 'AssertionError': None,
}


# ---------------------------------------------------------------- coroutine segments
def find_yields(fnode):
    """yield / await expressions of a function in source order (nested function bodies excluded)."""
    out = []

    class V(ast.NodeVisitor):
        def visit_Yield(self, n):
            self.generic_visit(n)
            out.append(n)

        def visit_Await(self, n):
            self.generic_visit(n)
            out.append(n)

        def visit_FunctionDef(self, n):
            if n is fnode:
                self.generic_visit(n)

        visit_AsyncFunctionDef = visit_FunctionDef

        def visit_Lambda(self, n):
            pass
    V().visit(fnode)
    return out


def _contains(node, target):
    for n in ast.walk(node):
        if n is target:
            return True
    return False


class Resume:
    """How a suspended coroutine is resumed: with a value sent in, or with an exception thrown in."""

    def __init__(self, value=None, exc=None):
        self.value = value
        self.exc = exc


def _segment_methods():
    def default_yield(self, v, node, fr):
        e = SegmentYield(v, node)
        e.frame = fr
        e.index = self.yield_ids.get(id(node), 0) if hasattr(self, 'yield_ids') else 0
        raise e

    def run_segment(self, f, frame, start, resume=None):
        """Run the body of coroutine function f from yield number `start` (1-based; 0 = entry) to the next
        yield / return.  `frame` holds the locals at the resumption point."""
        node = f.node
        ys = find_yields(node)
        self.yield_ids = {id(y): i + 1 for i, y in enumerate(ys)}
        from .repoindex import find_loops
        frame.loop_ids = {id(n): i for i, n in enumerate(find_loops(node))}
        self.segment_mode = True
        self.segment_start = start
        for d in node.decorator_list:
            self.dropped.add('decorator @' + ast.unparse(d))
        try:
            if start == 0:
                self.exec_block(node.body, frame)
            else:
                self.resume_block(node.body, frame, ys[start - 1], resume or Resume(NONE))
        except ReturnSignal as r:
            return r.value
        except PyRaise as e:
            if not hasattr(e, 'frame'):
                e.frame = frame
            raise
        return NONE

    def resume_block(self, stmts, fr, target, resume):
        for i, s in enumerate(stmts):
            if _contains(s, target):
                self.resume_stmt(s, fr, target, resume)
                self.exec_block(stmts[i + 1:], fr)
                return
        raise Unsupported('resume target not found')

    def _deliver(self, resume):
        if resume.exc is not None:
            raise PyRaise(resume.exc)
        return resume.value

    def resume_stmt(self, s, fr, target, resume):
        if isinstance(s, ast.Expr):
            if s.value is target:
                self._deliver(resume)
                return
            raise Unsupported('yield nested inside an expression statement')
        if isinstance(s, (ast.Assign, ast.AnnAssign)):
            if s.value is target:
                v = self._deliver(resume)
                for tgt in (s.targets if isinstance(s, ast.Assign) else [s.target]):
                    self.assign(tgt, v, fr)
                return
            raise Unsupported('yield nested inside the right-hand side of an assignment')
        if isinstance(s, ast.Return):
            if s.value is target:
                raise ReturnSignal(self._deliver(resume))
            raise Unsupported('yield nested inside a return expression')
        if isinstance(s, ast.If):
            if any(_contains(x, target) for x in s.body):
                return self.resume_block(s.body, fr, target, resume)
            if any(_contains(x, target) for x in s.orelse):
                return self.resume_block(s.orelse, fr, target, resume)
            raise Unsupported('yield inside an if test')
        if isinstance(s, ast.While):
            try:
                try:
                    self.resume_block(s.body, fr, target, resume)
                except ContinueSignal:
                    pass
            except BreakSignal:
                return
            # the rest of the loop: ordinary iterations until the segment ends
            return self.stmt_While(s, fr)
        if isinstance(s, ast.Try) and not any(_contains(x, target) for x in s.body):
            # suspended in the else / except / finally part: the protected body is already behind us
            try:
                if any(_contains(x, target) for x in s.orelse):
                    self.resume_block(s.orelse, fr, target, resume)
                elif any(_contains(x, target) for x in s.finalbody):
                    self.resume_block(s.finalbody, fr, target, resume)
                    return
                else:
                    for h in s.handlers:
                        if any(_contains(x, target) for x in h.body):
                            self.resume_block(h.body, fr, target, resume)
                            break
            except (PyRaise, ReturnSignal, BreakSignal, ContinueSignal):
                if s.finalbody:
                    self.exec_block(s.finalbody, fr)
                raise
            else:
                if s.finalbody:
                    self.exec_block(s.finalbody, fr)
            return
        if isinstance(s, ast.Try):
            try:
                try:
                    self.resume_block(s.body, fr, target, resume)
                except PyRaise as e:
                    handled = False
                    for h in s.handlers:
                        if self.exc_matches(e.exc, h.type, fr):
                            handled = True
                            saved = fr.locals.get('__current_exc__')
                            fr.locals['__current_exc__'] = e.exc
                            if h.name:
                                fr.locals[h.name] = e.exc
                            try:
                                self.exec_block(h.body, fr)
                            finally:
                                fr.locals['__current_exc__'] = saved
                            break
                    if not handled:
                        raise
                else:
                    self.exec_block(s.orelse, fr)
            except (PyRaise, ReturnSignal, BreakSignal, ContinueSignal):
                if s.finalbody:
                    self.exec_block(s.finalbody, fr)
                raise
            else:
                if s.finalbody:
                    self.exec_block(s.finalbody, fr)
            return
        if isinstance(s, ast.For):
            key = '__iter_%d' % fr.loop_ids.get(id(s), -1)
            if key not in fr.locals:
                raise Unsupported('resuming inside a for loop needs the remaining items (%s) among the locals' % key)
            try:
                try:
                    self.resume_block(s.body, fr, target, resume)
                except ContinueSignal:
                    pass
            except BreakSignal:
                return
            return self.segment_for(s, fr, key)
        raise Unsupported('resume inside %s' % type(s).__name__)

    Interp.run_segment = run_segment
    Interp.resume_block = resume_block
    Interp.resume_stmt = resume_stmt
    Interp._deliver = _deliver
    Interp.default_yield = default_yield


_segment_methods()
