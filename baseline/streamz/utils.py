_method_cache = {}


class methodcaller(object):
    """
    Return a callable object that calls the given method on its operand.

    Unlike the builtin `operator.methodcaller`, instances of this class are
    serializable
    """

    __slots__ = ('method',)
    func = property(lambda self: self.method)  # For `funcname` to work

    def __new__(cls, method):
        if method in _method_cache:
            return _method_cache[method]
        self = object.__new__(cls)
        self.method = method
        _method_cache[method] = self
        return self

    def __call__(self, obj, *args, **kwargs):
        return getattr(obj, self.method)(*args, **kwargs)

    def __reduce__(self):
        return (methodcaller, (self.method,))

    def __str__(self):
        return "<%s: %s>" % (self.__class__.__name__, self.method)

    __repr__ = __str__


class MethodCache(object):
    """Attribute access on this object returns a methodcaller for that
    attribute.

    Examples
    --------
    >>> a = [1, 3, 3]
    >>> M.count(a, 3) == a.count(3)
    True
    """
    __getattr__ = staticmethod(methodcaller)
    __dir__ = lambda self: list(_method_cache)


M = MethodCache()
