from .collection import Streaming, _stream_types
import toolz
import toolz.curried


class Batch(Streaming):
    """ A Stream of tuples or lists

    This streaming collection manages batches of Python objects such as lists
    of text or dictionaries.  By batching many elements together we reduce
    overhead from Python.

    This library is typically used at the early stages of data ingestion before
    handing off to streaming dataframes

    Examples
    --------
    >>> text = Streaming.from_file(myfile)  # doctest: +SKIP
    >>> b = text.partition(100).map(json.loads)  # doctest: +SKIP
    """
    def __init__(self, stream=None, example=None):
        if example is None:
            example = []
        super(Batch, self).__init__(stream=stream, example=example)

    def sum(self):
        """ Sum elements """
        return self.accumulate_partitions(_accumulate_sum, start=0)

    def filter(self, predicate):
        """ Filter elements by a predicate """
        return self.map_partitions(_filter, self, predicate)

    def pluck(self, ind):
        """ Pick a field out of all elements

        Example
        -------
        >>> s.pluck('name').sink(print)  # doctest: +SKIP
        >>> s.emit({'name': 'Alice', 'x': 123})  # doctest: +SKIP
        'Alice'
        """
        return self.map_partitions(_pluck, self, ind)

    def map(self, func, **kwargs):
        """ Map a function across all elements """
        return self.map_partitions(_map_map, self, func, **kwargs)

    def to_dataframe(self):
        """
        Convert to a streaming dataframe

        This calls ``pd.DataFrame`` on all list-elements of this stream
        """
        import pandas as pd
        import streamz.dataframe  # noqa: F401
        return self.map_partitions(pd.DataFrame, self)

    def to_stream(self):
        """ Concatenate batches and return base Stream

        Returned stream will be composed of single elements
        """
        return self.stream.flatten()


def _filter(seq, predicate):
    return list(filter(predicate, seq))


def _pluck(seq, ind):
    return list(toolz.pluck(ind, seq))


def _map_map(seq, func, **kwargs):
    return list(map(func, seq, **kwargs))


def _accumulate_sum(accumulator, new):
    return accumulator + sum(new)


map_type = type(map(lambda x: x, []))

_stream_types['streaming'].append(((list, tuple, set), Batch))
