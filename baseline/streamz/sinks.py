import inspect
import weakref

from tornado import gen

from streamz import Stream
from streamz.core import sync

# sinks add themselves here to avoid being garbage-collected
_global_sinks = set()


class Sink(Stream):

    _graphviz_shape = 'trapezium'

    def __init__(self, upstream, **kwargs):
        super().__init__(upstream, **kwargs)
        _global_sinks.add(self)

    def destroy(self):
        super().destroy()
        _global_sinks.remove(self)


@Stream.register_api()
class sink(Sink):
    """ Apply a function on every element

    Parameters
    ----------
    func: callable
        A function that will be applied on every element.
    args:
        Positional arguments that will be passed to ``func`` after the incoming element.
    kwargs:
        Stream-specific arguments will be passed to ``Stream.__init__``, the rest of
        them will be passed to ``func``.

    Examples
    --------
    >>> source = Stream()
    >>> L = list()
    >>> source.sink(L.append)
    >>> source.sink(print)
    >>> source.sink(print)
    >>> source.emit(123)
    123
    123
    >>> L
    [123]

    See Also
    --------
    map
    Stream.sink_to_list
    """

    def __init__(self, upstream, func, *args, **kwargs):
        self.func = func
        # take the stream specific kwargs out
        sig = set(inspect.signature(Stream).parameters)
        stream_kwargs = {k: v for (k, v) in kwargs.items() if k in sig}
        self.kwargs = {k: v for (k, v) in kwargs.items() if k not in sig}
        self.args = args
        super().__init__(upstream, **stream_kwargs)

    def update(self, x, who=None, metadata=None):
        result = self.func(x, *self.args, **self.kwargs)
        if gen.isawaitable(result):
            if metadata:
                # hold the element until the consumer has finished with it
                self._retain_refs(metadata)
                return self._release_when_done(result, metadata)
            return result
        else:
            return []

    async def _release_when_done(self, awaitable, metadata):
        result = await awaitable
        self._release_refs(metadata)
        return result


@Stream.register_api()
class sink_to_textfile(Sink):
    """ Write elements to a plain text file, one element per line.

        Type of elements must be ``str``.

        Parameters
        ----------
        file: str or file-like
            File to write the elements to. ``str`` is treated as a file name to open.
            If file-like, descriptor must be open in text mode. Note that the file
            descriptor will be closed when this sink is destroyed.
        end: str, optional
            This value will be written to the file after each element.
            Defaults to newline character.
        mode: str, optional
            If file is ``str``, file will be opened in this mode. Defaults to ``"a"``
            (append mode).

        Examples
        --------
        >>> source = Stream()
        >>> source.map(str).sink_to_textfile("test.txt")
        >>> source.emit(0)
        >>> source.emit(1)
        >>> print(open("test.txt", "r").read())
        0
        1
    """
    def __init__(self, upstream, file, end="\n", mode="a", **kwargs):
        self._end = end
        self._fp = open(file, mode=mode) if isinstance(file, str) else file
        weakref.finalize(self, self._fp.close)
        super().__init__(upstream, **kwargs)

    def update(self, x, who=None, metadata=None):
        self._fp.write(x + self._end)


@Stream.register_api()
class to_kafka(Stream):
    """ Writes data in the stream to Kafka

    This stream accepts a string or bytes object. Call ``flush`` to ensure all
    messages are pushed. Responses from Kafka are pushed downstream.

    Parameters
    ----------
    topic : string
        The topic which to write
    producer_config : dict
        Settings to set up the stream, see
        https://docs.confluent.io/current/clients/confluent-kafka-python/#configuration
        https://github.com/edenhill/librdkafka/blob/master/CONFIGURATION.md
        Examples:
        bootstrap.servers: Connection string (host:port) to Kafka

    Examples
    --------
    >>> from streamz import Stream
    >>> ARGS = {'bootstrap.servers': 'localhost:9092'}
    >>> source = Stream()
    >>> kafka = source.map(lambda x: str(x)).to_kafka('test', ARGS)
    <to_kafka>
    >>> for i in range(10):
    ...     source.emit(i)
    >>> kafka.flush()
    """
    def __init__(self, upstream, topic, producer_config, **kwargs):
        import confluent_kafka as ck

        self.topic = topic
        self.producer = ck.Producer(producer_config)

        kwargs["ensure_io_loop"] = True
        Stream.__init__(self, upstream, **kwargs)
        self.stopped = False
        self.polltime = 0.2
        self.loop.add_callback(self.poll)
        self.futures = []

    @gen.coroutine
    def poll(self):
        while not self.stopped:
            # executes callbacks for any delivered data, in this thread
            # if no messages were sent, nothing happens
            self.producer.poll(0)
            yield gen.sleep(self.polltime)

    def update(self, x, who=None, metadata=None):
        future = gen.Future()
        self.futures.append(future)

        @gen.coroutine
        def _():
            while True:
                try:
                    # this runs asynchronously, in C-K's thread
                    self.producer.produce(self.topic, x, callback=self.cb)
                    return
                except BufferError:
                    yield gen.sleep(self.polltime)
                except Exception as e:
                    future.set_exception(e)
                    return

        self.loop.add_callback(_)
        return future

    @gen.coroutine
    def cb(self, err, msg):
        future = self.futures.pop(0)
        if msg is not None and msg.value() is not None:
            future.set_result(None)
            yield self._emit(msg.value())
        else:
            future.set_exception(err or msg.error())

    def flush(self, timeout=-1):
        self.producer.flush(timeout)


@Stream.register_api()
class to_websocket(Sink):
    """Write bytes data to websocket

    The websocket will be opened on first call, and kept open. Should
    it close at some point, future writes will fail.

    Requires the ``websockets`` package.

    :param uri: str
        Something like "ws://host:port". Use "wss:" to allow TLS.
    :param ws_kwargs: dict
        Further kwargs to pass to ``websockets.connect``, please
        read its documentation.
    :param kwargs:
        Passed to superclass
    """

    def __init__(self, upstream, uri, ws_kwargs=None, **kwargs):
        self.uri = uri
        self.ws_kw = ws_kwargs
        self.ws = None
        super().__init__(upstream, ensure_io_loop=True, **kwargs)

    async def update(self, x, who=None, metadata=None):
        import websockets
        if self.ws is None:
            self.ws = await websockets.connect(self.uri, **(self.ws_kw or {}))
        await self.ws.send(x)

    def destroy(self):
        super().destroy()
        if self.ws is not None:
            sync(self.loop, self.ws.protocol.close)
        self.ws = None


@Stream.register_api()
class to_mqtt(Sink):
    """
    Send data to MQTT broker

    See also ``sources.from_mqtt``.

    Requires ``paho.mqtt``

    :param host: str
    :param port: int
    :param topic: str
    :param keepalive: int
        See mqtt docs - to keep the channel alive
    :param client_kwargs:
        Passed to the client's ``connect()`` method
    """
    def __init__(self, upstream, host, port, topic, keepalive=60, client_kwargs=None,
                 **kwargs):
        self.host = host
        self.port = port
        self.c_kw = client_kwargs or {}
        self.client = None
        self.topic = topic
        self.keepalive = keepalive
        super().__init__(upstream, ensure_io_loop=True, **kwargs)

    def update(self, x, who=None, metadata=None):
        import paho.mqtt.client as mqtt
        if self.client is None:
            self.client = mqtt.Client()
            self.client.connect(self.host, self.port, self.keepalive, **self.c_kw)
        # TODO: wait on successful delivery
        self.client.publish(self.topic, x)

    def destroy(self):
        self.client.disconnect()
        self.client = None
        super().destroy()
