import asyncio
import codecs
from glob import glob
import queue
import os
import time

from tornado import gen
import weakref

from .core import Stream, convert_interval, RefCounter, sync


def sink_to_file(filename, upstream, mode='w', prefix='', suffix='\n', flush=False):
    file = open(filename, mode=mode)

    def write(text):
        file.write(prefix + text + suffix)
        if flush:
            file.flush()

    upstream.sink(write)
    return file


class Source(Stream):
    """Start node for a set of Streams

    Source nodes emit data into other nodes. They typically get this data
    by polling external sources, and are necessarily run by an event loop.

    Parameters
    ----------
    start: bool
        Whether to call the run method immediately. If False, nothing
        will happen until ``source.start()`` is called.
    """
    _graphviz_shape = 'doubleoctagon'

    def __init__(self, start=False, **kwargs):
        self.stopped = True
        super().__init__(ensure_io_loop=True, **kwargs)
        self.started = False
        if start:
            self.start()

    def stop(self):
        """set self.stopped, which will cause polling to stop after next run"""
        if not self.stopped:
            self.stopped = True

    def start(self):
        """start polling

        If already running, this has no effect. If the source was started and then
        stopped again, this will restart the ``self.run`` coroutine.
        """
        if self.stopped:
            self.stopped = False
            self.started = True
            self.loop.add_callback(self.run)

    async def run(self):
        """This coroutine will be invoked by start() and emit all data

        You might either overrive ``_run()`` when all logic can be contained
        there, or override this method directly.

        Note the use of ``.stopped`` to halt the coroutine, whether or not

        """
        while not self.stopped:
            await self._run()

    async def _run(self):
        """This is the functionality to run on each cycle

        Typically this may be used for polling some external IO source
        or time-based data emission. You might choose to include an
        ``await asyncio.sleep()`` for the latter.
        """
        raise NotImplementedError


@Stream.register_api(staticmethod)
class from_periodic(Source):
    """Generate data from a function on given period

    cf ``streamz.dataframe.PeriodicDataFrame``

    Parameters
    ----------
    callback: callable
        Function to call on each iteration. Takes no arguments.
    poll_interval: float
        Time to sleep between calls (s)
    """

    def __init__(self, callback, poll_interval=0.1, **kwargs):
        self._cb = callback
        self._poll = poll_interval
        super().__init__(**kwargs)

    async def _run(self):
        await asyncio.gather(*self._emit(self._cb()))
        await asyncio.sleep(self._poll)


def PeriodicCallback(callback, callback_time, asynchronous=False, **kwargs):  # pragma: no cover
    """For backward compatibility - please use Stream.from_periodic"""
    if kwargs:
        callback = lambda: callback(**kwargs)
    return Stream.from_periodic(callback, callback_time, asynchronous=asynchronous)


@Stream.register_api(staticmethod)
class from_textfile(Source):
    """ Stream data from a text file

    Parameters
    ----------
    f: file or string
        Source of the data. If string, will be opened.
    poll_interval: Number
        Interval to poll file for new data in seconds
    delimiter: str
        Character(s) to use to split the data into parts
    start: bool
        Whether to start running immediately; otherwise call stream.start()
        explicitly.
    from_end: bool
        Whether to begin streaming from the end of the file (i.e., only emit
        lines appended after the stream starts).
    encoding: str
        Encoding of the file when ``f`` is a file name (default 'utf-8').

    Examples
    --------
    >>> source = Stream.from_textfile('myfile.json')  # doctest: +SKIP
    >>> source.map(json.loads).pluck('value').sum().sink(print)  # doctest: +SKIP
    >>> source.start()  # doctest: +SKIP

    Returns
    -------
    Stream
    """
    def __init__(self, f, poll_interval=0.100, delimiter='\n',
                 from_end=False, encoding='utf-8', **kwargs):
        if isinstance(f, str):
            # read bytes and decode incrementally: text mode would rewrite \r and \r\n, and fails on a multi-byte
            # character whose bytes arrive in two different polls
            f = open(f, 'rb')
        self._decoder = codecs.getincrementaldecoder(encoding)()
        self.buffer = ''
        self.file = f
        self.from_end = from_end
        if self.from_end:
            # this only happens when we are ready to read
            self.file.seek(0, 2)
        self.delimiter = delimiter

        self.poll_interval = poll_interval
        super().__init__(**kwargs)

    async def _run(self):
        line = self.file.read()
        if isinstance(line, bytes):
            line = self._decoder.decode(line)
        if line:
            self.buffer = self.buffer + line
            if self.delimiter in self.buffer:
                parts = self.buffer.split(self.delimiter)
                self.buffer = parts.pop(-1)
                for part in parts:
                    await asyncio.gather(*self._emit(part + self.delimiter))
        else:
            await asyncio.sleep(self.poll_interval)


@Stream.register_api(staticmethod)
class filenames(Source):
    """ Stream over filenames in a directory

    Parameters
    ----------
    path: string
        Directory path or globstring over which to search for files
    poll_interval: Number
        Seconds between checking path
    start: bool (False)
        Whether to start running immediately; otherwise call stream.start()
        explicitly.

    Examples
    --------
    >>> source = Stream.filenames('path/to/dir')  # doctest: +SKIP
    >>> source = Stream.filenames('path/to/*.csv', poll_interval=0.500)  # doctest: +SKIP
    """
    def __init__(self, path, poll_interval=0.100, **kwargs):
        if '*' not in path:
            if os.path.isdir(path):
                if not path.endswith(os.path.sep):
                    path = path + '/'
                path = path + '*'
        self.path = path
        self.seen = set()
        self.poll_interval = poll_interval
        super().__init__(**kwargs)

    async def _run(self):
        filenames = set(glob(self.path))
        new = filenames - self.seen
        for fn in sorted(new):
            self.seen.add(fn)
            await asyncio.gather(*self._emit(fn))
        await asyncio.sleep(self.poll_interval)  # TODO: remove poll if delayed


@Stream.register_api(staticmethod)
class from_tcp(Source):
    """
    Creates events by reading from a socket using tornado TCPServer

    The stream of incoming bytes is split on a given delimiter, and the parts
    become the emitted events.

    Parameters
    ----------
    port : int
        The port to open and listen on. It only gets opened when the source
        is started, and closed upon ``stop()``
    delimiter : bytes
        The incoming data will be split on this value. The resulting events
        will still have the delimiter at the end.
    start : bool
        Whether to immediately initiate the source. You probably want to
        set up downstream nodes first.
    server_kwargs : dict or None
        If given, additional arguments to pass to TCPServer

    Examples
    --------

    >>> source = Source.from_tcp(4567)  # doctest: +SKIP
    """
    def __init__(self, port, delimiter=b'\n', server_kwargs=None, **kwargs):
        self.server_kwargs = server_kwargs or {}
        self.port = port
        self.server = None
        self.delimiter = delimiter
        super().__init__(**kwargs)

    def run(self):
        from tornado.tcpserver import TCPServer
        from tornado.iostream import StreamClosedError

        class EmitServer(TCPServer):
            source = self

            async def handle_stream(self, stream, address):
                while not self.source.stopped:
                    try:
                        data = await stream.read_until(self.source.delimiter)
                        # _emit returns the list of what the consumers hand back: wait for all of it
                        # before reading the next record (as the other sources do)
                        await asyncio.gather(*self.source._emit(data))
                    except StreamClosedError:
                        break

        self.server = EmitServer(**self.server_kwargs)
        self.server.listen(self.port)

    def stop(self):
        if not self.stopped:
            self.server.stop()
            self.server = None
            self.stopped = True


@Stream.register_api(staticmethod)
class from_http_server(Source):
    """Listen for HTTP POSTs on given port

    Each connection will emit one event, containing the body data of
    the request

    Parameters
    ----------
    port : int
        The port to listen on
    path : str
        Specific path to listen on. Can be regex, but content is not used.
    start : bool
        Whether to immediately startup the server. Usually you want to connect
        downstream nodes first, and then call ``.start()``.
    server_kwargs : dict or None
        If given, set of further parameters to pass on to HTTPServer

    Examples
    --------

    >>> source = Source.from_http_server(4567)  # doctest: +SKIP

    """

    def __init__(self, port, path='/.*', server_kwargs=None, **kwargs):
        self.port = port
        self.path = path
        self.server_kwargs = server_kwargs or {}
        self.server = None
        super().__init__(**kwargs)

    def run(self):
        from tornado.web import Application, RequestHandler
        from tornado.httpserver import HTTPServer

        class Handler(RequestHandler):
            source = self

            async def post(self):
                await asyncio.gather(*self.source._emit(self.request.body))
                self.write('OK')

        application = Application([
            (self.path, Handler),
        ])
        server = HTTPServer(application, **self.server_kwargs)
        server.listen(self.port)
        self.server = server

    def stop(self):
        """Shutdown HTTP server"""
        if not self.stopped:
            self.server.stop()
            self.server = None
            self.stopped = True


@Stream.register_api(staticmethod)
class from_process(Source):
    """Messages from a running external process

    This doesn't work on Windows

    Parameters
    ----------
    cmd : list of str or str
        Command to run: program name, followed by arguments
    open_kwargs : dict
        To pass on the the process open function, see ``subprocess.Popen``.
    with_stderr : bool
        Whether to include the process STDERR in the stream
    start : bool
        Whether to immediately startup the process. Usually you want to connect
        downstream nodes first, and then call ``.start()``.

    Example
    -------
    >>> source = Source.from_process(['ping', 'localhost'])  # doctest: +SKIP
    """

    def __init__(self, cmd, open_kwargs=None, with_stderr=False, with_end=True,
                 **kwargs):
        self.cmd = cmd
        self.open_kwargs = open_kwargs or {}
        self.with_stderr = with_stderr
        self.with_end = with_end
        self.process = None
        super().__init__(**kwargs)

    async def run(self):
        import shlex
        import subprocess
        stderr = subprocess.STDOUT if self.with_stderr else None
        if isinstance(self.cmd, (list, tuple)):
            cmd, *args = self.cmd
        else:
            cmd, *args = shlex.split(self.cmd)
        process = await asyncio.create_subprocess_exec(
            cmd, *args, stdout=subprocess.PIPE,
            stderr=stderr, **self.open_kwargs)
        while not self.stopped:
            try:
                out = await process.stdout.readuntil(b'\n')
            except asyncio.IncompleteReadError as err:
                if self.with_end and err.partial:
                    out = err.partial
                else:
                    break
            if process.returncode is not None:
                self.stopped = True
            await asyncio.gather(*self._emit(out))
        if process.returncode is not None:
            process.terminate()
            await process.wait()


@Stream.register_api(staticmethod)
class from_kafka(Source):
    """ Accepts messages from Kafka

    Uses the confluent-kafka library,
    https://docs.confluent.io/current/clients/confluent-kafka-python/


    Parameters
    ----------
    topics: list of str
        Labels of Kafka topics to consume from
    consumer_params: dict
        Settings to set up the stream, see
        https://docs.confluent.io/current/clients/confluent-kafka-python/#configuration
        https://github.com/edenhill/librdkafka/blob/master/CONFIGURATION.md
        Examples:
        bootstrap.servers, Connection string(s) (host:port) by which to reach
        Kafka;
        group.id, Identity of the consumer. If multiple sources share the same
        group, each message will be passed to only one of them.
    poll_interval: number
        Seconds that elapse between polling Kafka for new messages
    start: bool (False)
        Whether to start polling upon instantiation

    Examples
    --------

    >>> source = Stream.from_kafka(['mytopic'],
    ...           {'bootstrap.servers': 'localhost:9092',
    ...            'group.id': 'streamz'})  # doctest: +SKIP

    """
    def __init__(self, topics, consumer_params, poll_interval=0.1, **kwargs):
        self.cpars = consumer_params
        self.consumer = None
        self.topics = topics
        self.poll_interval = poll_interval
        super().__init__(**kwargs)

    def do_poll(self):
        if self.consumer is not None:
            msg = self.consumer.poll(0)
            if msg and msg.value() and msg.error() is None:
                return msg.value()

    @gen.coroutine
    def poll_kafka(self):
        while True:
            val = self.do_poll()
            if val:
                yield self._emit(val)
            else:
                yield gen.sleep(self.poll_interval)
            if self.stopped:
                break
        self._close_consumer()

    def start(self):
        import confluent_kafka as ck
        if self.stopped:
            self.stopped = False
            self.consumer = ck.Consumer(self.cpars)
            self.consumer.subscribe(self.topics)
            weakref.finalize(
                self, lambda consumer=self.consumer: _close_consumer(consumer)
            )
            tp = ck.TopicPartition(self.topics[0], 0, 0)

            # blocks for consumer thread to come up and invoke poll to
            # establish connection with broker to fetch oauth token for kafka
            self.consumer.poll(timeout=1)
            self.consumer.get_watermark_offsets(tp)
            self.loop.add_callback(self.poll_kafka)

    def _close_consumer(self):
        if self.consumer is not None:
            consumer = self.consumer
            self.consumer = None
            consumer.unsubscribe()
            consumer.close()
        self.stopped = True


def _close_consumer(consumer):
    try:
        consumer.close()
    except RuntimeError:
        pass


class FromKafkaBatched(Source):
    """Base class for both local and cluster-based batched kafka processing"""
    def __init__(self, topic, consumer_params, poll_interval='1s',
                 npartitions=None, refresh_partitions=False,
                 max_batch_size=10000, keys=False,
                 engine=None, **kwargs):
        self.consumer_params = consumer_params
        # Override the auto-commit config to enforce custom streamz
        # checkpointing
        self.consumer_params['enable.auto.commit'] = 'false'
        if 'auto.offset.reset' not in self.consumer_params.keys():
            consumer_params['auto.offset.reset'] = 'latest'
        self.topic = topic
        self.npartitions = npartitions
        self.refresh_partitions = refresh_partitions
        if self.npartitions is not None and self.npartitions <= 0:
            raise ValueError("Number of Kafka topic partitions must be > 0.")
        self.poll_interval = convert_interval(poll_interval)
        self.max_batch_size = max_batch_size
        self.keys = keys
        self.engine = engine
        self.started = False

        super().__init__(**kwargs)

    @gen.coroutine
    def poll_kafka(self):
        import confluent_kafka as ck

        def commit(_part):
            topic, part_no, _, _, offset = _part[1:]
            _tp = ck.TopicPartition(topic, part_no, offset + 1)
            self.consumer.commit(offsets=[_tp], asynchronous=True)

        @gen.coroutine
        def checkpoint_emit(_part):
            ref = RefCounter(cb=lambda: commit(_part), loop=self.loop)
            yield self._emit(_part, metadata=[{'ref': ref}])

        if self.npartitions is None:
            kafka_cluster_metadata = self.consumer.list_topics(self.topic)
            if self.engine == "cudf":  # pragma: no cover
                self.npartitions = len(kafka_cluster_metadata[self.topic.encode('utf-8')])
            else:
                self.npartitions = len(kafka_cluster_metadata.topics[self.topic].partitions)
        self.positions = [0] * self.npartitions

        tps = []
        for partition in range(self.npartitions):
            tps.append(ck.TopicPartition(self.topic, partition))

        while True:
            try:
                committed = self.consumer.committed(tps, timeout=1)
            except ck.KafkaException:
                pass
            else:
                for tp in committed:
                    self.positions[tp.partition] = tp.offset
                break

        while not self.stopped:
            out = []

            if self.refresh_partitions:
                kafka_cluster_metadata = self.consumer.list_topics(self.topic)
                if self.engine == "cudf":  # pragma: no cover
                    new_partitions = len(kafka_cluster_metadata[self.topic.encode('utf-8')])
                else:
                    new_partitions = len(kafka_cluster_metadata.topics[self.topic].partitions)
                if new_partitions > self.npartitions:
                    self.positions.extend([-1001] * (new_partitions - self.npartitions))
                    self.npartitions = new_partitions

            for partition in range(self.npartitions):
                tp = ck.TopicPartition(self.topic, partition, 0)
                try:
                    low, high = self.consumer.get_watermark_offsets(
                        tp, timeout=0.1)
                except (RuntimeError, ck.KafkaException):
                    continue
                self.started = True
                if 'auto.offset.reset' in self.consumer_params.keys():
                    if self.consumer_params['auto.offset.reset'] == 'latest' and \
                            self.positions[partition] == -1001:
                        self.positions[partition] = high
                current_position = self.positions[partition]
                lowest = max(current_position, low)
                if high > lowest + self.max_batch_size:
                    high = lowest + self.max_batch_size
                if high > lowest:
                    out.append((self.consumer_params, self.topic, partition,
                                self.keys, lowest, high - 1))
                    self.positions[partition] = high
            self.consumer_params['auto.offset.reset'] = 'earliest'

            for part in out:
                yield self.loop.add_callback(checkpoint_emit, part)

            else:
                yield gen.sleep(self.poll_interval)

    def start(self):
        import confluent_kafka as ck
        if self.engine == "cudf":  # pragma: no cover
            from custreamz import kafka

        if self.stopped:
            if self.engine == "cudf":  # pragma: no cover
                self.consumer = kafka.Consumer(self.consumer_params)
            else:
                self.consumer = ck.Consumer(self.consumer_params)
            weakref.finalize(self, lambda consumer=self.consumer: _close_consumer(consumer))
            self.stopped = False
            tp = ck.TopicPartition(self.topic, 0, 0)

            # blocks for consumer thread to come up and invoke poll to establish
            # connection with broker to fetch oauth token for kafka
            self.consumer.poll(timeout=1)
            self.consumer.get_watermark_offsets(tp)
            self.loop.add_callback(self.poll_kafka)


@Stream.register_api(staticmethod)
def from_kafka_batched(topic, consumer_params, poll_interval='1s',
                       npartitions=None, refresh_partitions=False,
                       start=False, dask=False,
                       max_batch_size=10000, keys=False,
                       engine=None, **kwargs):
    """ Get messages and keys (optional) from Kafka in batches

    Uses the confluent-kafka library,
    https://docs.confluent.io/current/clients/confluent-kafka-python/

    This source will emit lists of messages for each partition of a single given
    topic per time interval, if there is new data. If using dask, one future
    will be produced per partition per time-step, if there is data.

    Checkpointing is achieved through the use of reference counting. A reference
    counter is emitted downstream for each batch of data. A callback is
    triggered when the reference count reaches zero and the offsets are
    committed back to Kafka. Upon the start of this function, the previously
    committed offsets will be fetched from Kafka and begin reading form there.
    This will guarantee at-least-once semantics.

    Parameters
    ----------
    topic: str
        Kafka topic to consume from
    consumer_params: dict
        | Settings to set up the stream, see
        | https://docs.confluent.io/current/clients/confluent-kafka-python/#configuration
        | https://github.com/edenhill/librdkafka/blob/master/CONFIGURATION.md
        | Examples:
        | bootstrap.servers: Connection string(s) (host:port) by which to reach Kafka
        | group.id: Identity of the consumer. If multiple sources share the same
        | group, each message will be passed to only one of them.
    poll_interval: number
        Seconds that elapse between polling Kafka for new messages
    npartitions: int (None)
        | Number of partitions in the topic.
        | If None, streamz will poll Kafka to get the number of partitions.
     refresh_partitions: bool (False)
        | Useful if the user expects to increase the number of topic partitions on the
        | fly, maybe to handle spikes in load. Streamz polls Kafka in every batch to
        | determine the current number of partitions. If partitions have been added,
        | streamz will automatically start reading data from the new partitions as well.
        | If set to False, streamz will not accommodate adding partitions on the fly.
        | It is recommended to restart the stream after decreasing the number of partitions.
    start: bool (False)
        Whether to start polling upon instantiation
    max_batch_size: int
        The maximum number of messages per partition to be consumed per batch
    keys: bool (False)
        | Whether to extract keys along with the messages.
        | If True, this will yield each message as a dict:
        | {'key':msg.key(), 'value':msg.value()}
    engine: str (None)
        | If engine is set to "cudf", streamz reads data (messages must be JSON)
        | from Kafka in an accelerated manner directly into cuDF (GPU) dataframes.
        | This is done using the RAPIDS custreamz library.

        | Please refer to RAPIDS cudf API here:
        | https://docs.rapids.ai/api/cudf/stable/

        | Folks interested in trying out custreamz would benefit from this
        | accelerated Kafka reader. If one does not want to use GPUs, they
        | can use streamz as is, with the default engine=None.

        | To use this option, one must install custreamz (use the
        | appropriate CUDA version recipe & Python version)
        | using a command like the one below, which will install all
        | GPU dependencies and streamz itself:

        | conda install -c rapidsai-nightly -c nvidia -c conda-forge \
        | -c defaults custreamz=0.15 python=3.7 cudatoolkit=10.2

        | More information at: https://rapids.ai/start.html

    Important Kafka Configurations
    By default, a stream will start reading from the latest offsets
    available. Please set 'auto.offset.reset': 'earliest' in the
    consumer configs, if the stream needs to start processing from
    the earliest offsets.

    Examples
    ----------

    >>> source = Stream.from_kafka_batched('mytopic',
    ...           {'bootstrap.servers': 'localhost:9092',
    ...            'group.id': 'streamz'})  # doctest: +SKIP

    """
    if dask:
        from distributed.client import default_client
        kwargs['loop'] = default_client().loop
    source = FromKafkaBatched(topic, consumer_params,
                              poll_interval=poll_interval,
                              npartitions=npartitions,
                              refresh_partitions=refresh_partitions,
                              max_batch_size=max_batch_size,
                              keys=keys,
                              engine=engine,
                              **kwargs)
    if dask:
        source = source.scatter()

    if start:
        source.start()

    if engine == "cudf": # pragma: no cover
        return source.starmap(get_message_batch_cudf)
    else:
        return source.starmap(get_message_batch)


def get_message_batch(kafka_params, topic, partition, keys, low, high, timeout=None):
    """Fetch a batch of kafka messages (keys & values) in given topic/partition

    This will block until messages are available, or timeout is reached.
    """
    import confluent_kafka as ck
    t0 = time.time()
    consumer = ck.Consumer(kafka_params)
    tp = ck.TopicPartition(topic, partition, low)
    consumer.assign([tp])
    out = []
    try:
        while True:
            msg = consumer.poll(0)
            if msg and msg.value() and msg.error() is None:
                if high >= msg.offset():
                    if keys:
                        out.append({'key':msg.key(), 'value':msg.value()})
                    else:
                        out.append(msg.value())
                if high <= msg.offset():
                    break
            else:
                time.sleep(0.1)
                if timeout is not None and time.time() - t0 > timeout:
                    break
    finally:
        consumer.close()
    return out


def get_message_batch_cudf(kafka_params, topic, partition, keys, low, high, timeout=None): # pragma: no cover
    """
    Fetch a batch of kafka messages (currently, messages must be in JSON format)
    in given topic/partition as a cudf dataframe
    """
    from custreamz import kafka
    consumer = kafka.Consumer(kafka_params)
    gdf = None
    try:
        gdf = consumer.read_gdf(topic=topic, partition=partition, lines=True, start=low, end=high + 1)
    finally:
        consumer.close()
    return gdf


@Stream.register_api(staticmethod)
class from_iterable(Source):
    """ Emits items from an iterable.

    Parameters
    ----------
    iterable: iterable
        An iterable to emit messages from.

    Examples
    --------

    >>> source = Stream.from_iterable(range(3))
    >>> L = source.sink_to_list()
    >>> source.start()
    >>> L
    [0, 1, 2]
    """

    def __init__(self, iterable, **kwargs):
        self._iterable = iterable
        super().__init__(**kwargs)

    async def run(self):
        for x in self._iterable:
            if self.stopped:
                break
            await asyncio.gather(*self._emit(x))
            if self.stopped:
                break
        self.stopped = True


@Stream.register_api()
class from_websocket(Source):
    """Read binary data from a websocket

    This source will accept connections on a given port and handle messages
    coming in.

    The websockets library must be installed.

    :param host: str
        Typically "localhost"
    :param port: int
        Which port to listen on (must be available)
    :param serve_kwargs: dict
        Passed to ``websockets.serve``
    :param kwargs:
        Passed to superclass
    """

    def __init__(self, host, port, serve_kwargs=None, **kwargs):
        self.host = host
        self.port = port
        self.s_kw = serve_kwargs
        self.server = None
        super().__init__(**kwargs)

    @gen.coroutine
    def _read(self, ws, path):
        while not self.stopped:
            data = yield ws.recv()
            yield self._emit(data)

    async def run(self):
        import websockets
        self.server = await websockets.serve(
            self._read, self.host, self.port, **(self.s_kw or {})
        )

    def stop(self):
        self.server.close()
        sync(self.loop, self.server.wait_closed)


@Stream.register_api()
class from_q(Source):
    """Source events from a threading.Queue, running another event framework

    The queue is polled, i.e., there is a latency/overhead tradeoff, since
    we cannot use ``await`` directly with a multithreaded queue.

    Allows mixing of another event loop, for example pyqt, on another thread.
    Note that, by default, a streamz.Source such as this one will start
    an event loop in a new thread, unless otherwise specified.
    """

    def __init__(self, q, sleep_time=0.01, **kwargs):
        """
        :param q: threading.Queue
            Any items pushed into here will become streamz events
        :param sleep_time: int
            Sets how long we wait before checking the input queue when
            empty (in s)
        :param kwargs:
            passed to streamz.Source
        """
        self.q = q
        self.sleep = sleep_time
        super().__init__(**kwargs)

    async def _run(self):
        """Poll threading queue for events
        This uses check-and-wait, but overhead is low. Could maybe have
        a sleep-free version with an threading.Event.
        """
        try:
            out = self.q.get_nowait()
            await self.emit(out, asynchronous=True)
        except queue.Empty:
            await asyncio.sleep(self.sleep)


@Stream.register_api()
class from_mqtt(from_q):
    """Read from MQTT source

    See https://en.wikipedia.org/wiki/MQTT for a description of the protocol
    and its uses.

    See also ``sinks.to_mqtt``.

    Requires ``paho.mqtt``

    The outputs are ``paho.mqtt.client.MQTTMessage`` instances, which each have
    attributes timestamp, payload, topic, ...

    NB: paho.mqtt.python runs on its own thread in this implementation. We may
    wish to instead call client.loop() directly

    :param host: str
    :param port: int
    :param topic: str
        (May in the future support a list of topics)
    :param keepalive: int
        See mqtt docs - to keep the channel alive
    :param client_kwargs:
        Passed to the client's ``connect()`` method
    """
    def __init__(self, host, port, topic, keepalive=60 , client_kwargs=None,
                 user=None, pw=None, **kwargs):
        self.host = host
        self.port = port
        self.keepalive = keepalive
        self.topic = topic
        self.client_kwargs = client_kwargs
        self.user = user
        self.pw = pw
        super().__init__(q=queue.Queue(), **kwargs)

    def _on_connect(self, client, userdata, flags, rc):
        client.subscribe(self.topic)

    def _on_message(self, client, userdata, msg):
        self.q.put(msg)

    async def run(self):
        import paho.mqtt.client as mqtt
        client = mqtt.Client()
        if self.user:
            client.username_pw_set(self.user, self.pw)
        client.on_connect = self._on_connect
        client.on_message = self._on_message
        client.connect(self.host, self.port, self.keepalive, **(self.client_kwargs or {}))
        client.loop_start()
        await super().run()
        client.disconnect()
